#!/bin/bash
# usage: tools/import_refs.sh C19 -> copies /tmp/wt_ref_c19_refs/r* to harmless/C19-r*, removes the scratch worktree
id=$1; l=$(echo $id | tr 'A-Z' 'a-z'); src=/tmp/wt_ref_${l}_refs
cd "$(dirname "$0")/.."
for d in $src/r*; do
  [ -f $d/patch.diff ] || continue
  m=$(basename $d); dst=harmless/$id-$m; mkdir -p $dst
  cp $d/patch.diff $d/meta.json $dst/ && echo -n "$id-$m "
done
git -C /repo worktree remove --force /tmp/wt_ref_$l 2>/dev/null
rm -rf $src /tmp/wt_ref_${l}_prompt.txt
echo
