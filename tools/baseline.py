"""Run the repository's baseline test command (guard off) and compare with /root/.vp/BASELINE.json stable_pass.
usage: python tools/baseline.py [repo]   -> exit 0 iff every stable_pass test passes."""
import json, os, subprocess, sys, tempfile
import xml.etree.ElementTree as ET

repo = sys.argv[1] if len(sys.argv) > 1 else "/repo"
base = json.load(open("/root/.vp/BASELINE.json"))
out = tempfile.mkdtemp(prefix="baseline_")
junit = os.path.join(out, "junit.xml")
env = dict(os.environ); env.pop("PYXEL_VERIF", None)
subprocess.run(["/venv/bin/python", "-m", "pytest", "-ra", "-q", "-p", "no:cacheprovider", "--timeout=900",
                "--continue-on-collection-errors", f"--junitxml={junit}"], cwd=repo, env=env,
               stdout=open(os.path.join(out, "log.txt"), "w"), stderr=subprocess.STDOUT)
passed = set()
for tc in ET.parse(junit).getroot().iter("testcase"):
    if not any(ch.tag in ("failure", "error", "skipped") for ch in tc):
        passed.add(f"{tc.get('classname')}::{tc.get('name')}")
missing = [t for t in base["stable_pass"] if t not in passed]
print(f"stable_pass={len(base['stable_pass'])} passed_now={len(passed)} missing={len(missing)}")
for t in missing[:20]:
    print("  NOT PASSING:", t)
import shutil
shutil.rmtree(out, ignore_errors=True)
sys.exit(1 if missing else 0)
