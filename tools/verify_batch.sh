#!/bin/bash
# usage: tools/verify_batch.sh <seed-id>...   verify each kept seeded change in its own scratch worktree (removed afterwards)
cd "$(dirname "$0")/.."
for sid in "$@"; do
  wt=/tmp/wt_v_$sid
  git -C /repo worktree remove --force $wt 2>/dev/null
  git -C /repo worktree add -q --detach $wt HEAD || continue
  /venv/bin/python tools/verify_seed.py $wt /verif/seeded/$sid > seeded/$sid/verify.json 2>&1
  git -C /repo worktree remove --force $wt
  grep -q '"ok": true' seeded/$sid/verify.json && echo "$sid verified" || echo "$sid NOT verified"
done
