#!/bin/bash
# resolve the routine conflicts of an improver merge: known_findings.json entry-wise, seeded/*/result.json and evidence/*.json -> theirs
cd /verif
for f in $(git status --short | grep '^UU\|^AA' | awk '{print $2}'); do
  case $f in
    known_findings.json) /venv/bin/python tools/merge_findings.py && git add $f ;;
    seeded/*|evidence/*|MANIFEST.json|coq/_CoqProject) git checkout --theirs $f && git add $f ;;
    *) echo "UNRESOLVED $f" ;;
  esac
done
git status --short | grep '^UU\|^AA' && exit 1
exit 0
