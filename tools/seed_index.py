"""Regenerate seeded/INDEX.md from seeded/<id>/{meta,verify,result}.json."""
import json
from pathlib import Path
root = Path(__file__).resolve().parent.parent / "seeded"
rows = []
for d in sorted(p for p in root.iterdir() if (p / "patch.diff").exists()):
    def load(n):
        try: return json.loads((d / n).read_text())
        except Exception: return {}
    m, v, r = load("meta.json"), load("verify.json"), load("result.json")
    files = ", ".join(m.get("files_changed", []))
    summ = " ".join(str(m.get("summary", "")).split())
    if len(summ) > 260: summ = summ[:257] + "…"
    ver = "yes" if v.get("ok") else ("no" if v else "–")
    if not r: res = "not run"
    elif r.get("caught"):
        res = "caught" + (" (concrete input)" if r.get("with_concrete_input") else " (no-failing-input-found)")
        res += f", {r.get('tier','quick')} {r.get('wall_s','?')} s"
    else: res = "**missed**"
    note = " ".join(str(r.get("note", "")).split())
    rows.append(f"| {d.name} | {m.get('property','?')} | {files} | {summ} | {ver} | {res} | {note} |")
caught = sum("| caught" in x for x in rows); missed = sum("**missed**" in x for x in rows)
out = ["# Seeded changes — which check catches which change", "",
       "Written by independent sub-agents that saw only the property text and a scratch worktree of the repository;",
       "`verified` = demo passes on the unchanged code, fails with the patch, and all 1969 baseline tests still pass",
       "(`tools/verify_seed.py`); `outcome` = last run of the owning check with the patch applied to a scratch copy",
       "(`tools/seeded.py`). `note` says what was strengthened when a change was first missed.", "",
       f"Total {len(rows)}: caught {caught}, missed {missed}, not run {len(rows)-caught-missed}.", "",
       "| seed | property | files | change | verified | outcome | note |", "|---|---|---|---|---|---|---|"] + rows
(root / "INDEX.md").write_text("\n".join(out) + "\n")
print(out[7])
