"""Regenerate harmless/INDEX.md from harmless/<id>/{meta,result}.json."""
import json
from pathlib import Path
root = Path(__file__).resolve().parent.parent / "harmless"
rows = []
for d in sorted(p for p in root.iterdir() if (p / "patch.diff").exists()):
    def load(n):
        try: return json.loads((d / n).read_text())
        except Exception: return {}
    m, r = load("meta.json"), load("result.json")
    summ = " ".join(str(m.get("summary", "")).split())
    if len(summ) > 240: summ = summ[:237] + "…"
    if not r: res = "not run"
    elif r.get("caught"): res = "**alarm**" + (" (concrete input)" if r.get("with_concrete_input") else " (no-failing-input-found)")
    elif r.get("rc") == 0: res = "quiet"
    else: res = f"rc={r.get('rc')}"
    first = (r.get("history") or [{}])[0]
    firstres = ("alarm" if first.get("caught") else "quiet") if first else ""
    note = " ".join(str(r.get("note", "")).split())
    rows.append(f"| {d.name} | {', '.join(m.get('files_changed', []))} | {summ} | {firstres} | {res} | {note} |")
quiet = sum("| quiet |" in x for x in rows); alarm = sum("**alarm**" in x for x in rows)
out = ["# Harmless refactorings — does a check stay quiet on code where the property holds?", "",
       "Behaviour-preserving edits of the anchored code written by independent sub-agents that saw only the property text",
       "and a scratch worktree (each ran the full test suite and an old-vs-new differential experiment). `first` = outcome of the",
       "owning check when the refactoring was first run (before the third improver pass), `now` = last run (`tools/harmless.py`).",
       "An alarm that ends in `no-failing-input-found` is the fail-closed report the brief allows; the goal is `quiet`.", "",
       f"Total {len(rows)}: quiet {quiet}, alarm {alarm}, other {len(rows)-quiet-alarm}.", "",
       "| refactoring | files | edit | first | now | note |", "|---|---|---|---|---|---|"] + rows
(root / "INDEX.md").write_text("\n".join(out) + "\n")
print(out[7])
