#!/bin/bash
# usage: tools/seed_queue.sh <seed-id>...  : verify each, then run the owning check against the verified ones; log to out/sq_<first>.txt
cd "$(dirname "$0")/.."
log=out/sq_$1.txt; : > $log
for sid in "$@"; do
  tools/verify_batch.sh $sid >> $log 2>&1
  if grep -q '"ok": true' seeded/$sid/verify.json; then /venv/bin/python tools/seeded.py $sid 2>&1 | grep -E 'CAUGHT|MISSED|PATCH' >> $log; fi
done
echo done >> $log
