"""Resolve a merge conflict in known_findings.json entry-wise (base/ours/theirs from the index stages)."""
import json, subprocess
def stage(n):
    return json.loads(subprocess.run(["git", "-C", "/verif", "show", f":{n}:known_findings.json"], capture_output=True, text=True, check=True).stdout)
base, ours, theirs = stage(1), stage(2), stage(3)
top = isinstance(ours, dict)
key = [k for k in ours if isinstance(ours[k], list)][0] if top else None
L = lambda d: d[key] if top else d
bid = {e["id"]: e for e in L(base)}
tid = {e["id"]: e for e in L(theirs)}
out = []
for e in L(ours):
    t = tid.get(e["id"])
    if t is None:
        if e["id"] in bid: continue          # deleted by theirs
        out.append(e)
    elif t != bid.get(e["id"]): out.append(t) # changed by theirs
    else: out.append(e)
have = {e["id"] for e in out}
for e in L(theirs):
    if e["id"] not in have and e["id"] not in {x["id"] for x in L(ours)} and e["id"] not in bid: out.append(e)
res = dict(ours, **{key: out}) if top else out
open("/verif/known_findings.json", "w").write(json.dumps(res, indent=1, ensure_ascii=False) + "\n")
print(len(L(ours)), "ours,", len(L(theirs)), "theirs ->", len(out))
