"""Run the owning check against every kept HARMLESS refactoring (harmless/<id>/patch.diff; expected outcome: exit 0, no VIOLATION)
(derived from tools/seeded.py) -- original docstring: Run the owning check against every kept seeded change (seeded/<id>/patch.diff), each applied to a scratch
copy of /repo's package outside /repo and /verif, and record whether it is caught.

usage: /venv/bin/python tools/seeded.py [id ...] [--tier quick|thorough] [--inplace]
  --inplace : apply to /repo itself with `git apply`, run, then `git checkout -- .` (only when nothing else uses /repo)
"""
import json, os, shutil, subprocess, sys, tempfile, time
from pathlib import Path

VERIF = Path(__file__).resolve().parent.parent
args = [a for a in sys.argv[1:] if not a.startswith("--")]
tier = "quick"
if "--tier" in sys.argv:
    tier = sys.argv[sys.argv.index("--tier") + 1]
    args = [a for a in args if a != tier]
inplace = "--inplace" in sys.argv
ids = args or sorted(p.name for p in (VERIF / "harmless").iterdir() if (p / "patch.diff").exists())
summary = []
for sid in ids:
    d = VERIF / "harmless" / sid
    meta = json.loads((d / "meta.json").read_text())
    prop = meta["property"]
    t0 = time.time()
    if inplace:
        subprocess.run(["git", "-C", "/repo", "apply", str(d / "patch.diff")], check=True)
        env = dict(os.environ)
        try:
            r = subprocess.run(["./check", prop, "--tier", tier], cwd=VERIF, capture_output=True, text=True, env=env)
        finally:
            subprocess.run(["git", "-C", "/repo", "checkout", "--", "."], check=True)
    else:
        scratch = Path(tempfile.mkdtemp(prefix=f"harmrun_{sid}_"))
        try:
            shutil.copytree("/repo/pyxel", scratch / "pyxel")
            # patch_current.diff = the same change re-expressed on the current (repaired) tree, when patch.diff no longer applies
            pf = d / "patch_current.diff" if (d / "patch_current.diff").exists() else d / "patch.diff"
            p = subprocess.run(["patch", "-p1", "-s", "--no-backup-if-mismatch", "-F0", "-i", str(pf)], cwd=scratch, capture_output=True, text=True)
            if p.returncode != 0:
                print(sid, "PATCH DOES NOT APPLY", p.stdout, p.stderr)
                summary.append((sid, prop, "patch-failed", 0))
                continue
            env = dict(os.environ, VERIF_REPO=str(scratch), VERIF_KEEP_REPLAYS="1")
            r = subprocess.run(["./check", prop, "--tier", tier], cwd=VERIF, capture_output=True, text=True, env=env)
        finally:
            shutil.rmtree(scratch, ignore_errors=True)
    viol = [l for l in r.stdout.splitlines() if l.startswith("VIOLATION")]
    caught = r.returncode == 1 and bool(viol)
    with_input = any("no-failing-input-found" not in l for l in viol)
    res = dict(seed=sid, property=prop, tier=tier, caught=caught, with_concrete_input=with_input, rc=r.returncode,
               violation_lines=viol[:6], wall_s=round(time.time() - t0, 1))
    try:
        prev = json.loads((d / "result.json").read_text())
    except Exception:
        prev = None
    hist = (prev or {}).get("history", [])
    if prev:
        hist = hist + [dict(caught=prev.get("caught"), with_concrete_input=prev.get("with_concrete_input"),
                            verif_commit=prev.get("verif_commit"), tier=prev.get("tier"))]
        if prev.get("note"): res["note"] = prev["note"]
    res["history"] = hist
    res["verif_commit"] = subprocess.run(["git", "-C", str(VERIF), "rev-parse", "--short", "HEAD"], capture_output=True, text=True).stdout.strip()
    (d / "result.json").write_text(json.dumps(res, indent=1) + "\n")
    summary.append((sid, prop, "ALARM" if caught else "quiet", res["wall_s"]))
    print(sid, prop, ("ALARM" + (" (concrete input)" if with_input else " (no-failing-input-found)")) if caught else ("quiet" if r.returncode == 0 else f"rc={r.returncode}"), f"{res['wall_s']}s", flush=True)
    for l in viol[:3]:
        print("   ", l)
print(json.dumps(summary))
