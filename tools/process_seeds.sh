#!/bin/bash
# usage: tools/process_seeds.sh C08   -> copies /tmp/wt_seed_c08/_seeds/m* to seeded/C08-m*, verifies each in the
# worktree (demo + full baseline), then runs the owning check against the verified ones.
id=$1; l=$(echo $id | tr 'A-Z' 'a-z'); wt=/tmp/wt_seed_$l
cd /verif
ok_ids=""
for d in $wt/_seeds/m*; do
  [ -f $d/patch.diff ] || continue
  m=$(basename $d); dst=seeded/$id-$m; mkdir -p $dst
  cp $d/patch.diff $d/demo.py $d/meta.json $dst/ 2>/dev/null
  /venv/bin/python tools/verify_seed.py $wt /verif/$dst > $dst/verify.json 2>&1
  if grep -q '"ok": true' $dst/verify.json; then ok_ids="$ok_ids $id-$m"; fi
done
echo "verified:$ok_ids" > out/seeds_$id.txt
if [ -n "$ok_ids" ]; then /venv/bin/python tools/seeded.py $ok_ids >> out/seeds_$id.txt 2>&1; fi
echo done >> out/seeds_$id.txt
