"""Extract the final message of a finished sub-agent transcript (JSONL) into reports/<name>.md."""
import json, sys
src, dst = sys.argv[1], sys.argv[2]
last = None
for line in open(src):
    try:
        d = json.loads(line)
    except Exception:
        continue
    msg = d.get("message") or {}
    if msg.get("role") == "assistant":
        texts = [c.get("text", "") for c in msg.get("content", []) if isinstance(c, dict) and c.get("type") == "text"]
        if any(t.strip() for t in texts):
            last = "\n".join(texts)
open(dst, "w").write(last or "(no final text found)")
print(len(last or ""))
