#!/bin/bash
# usage: tools/seed_sweep.sh "2 3 4" [ids...] -> out/seed_sweep.txt : every check with several VERIF_SEEDs on the unchanged tree
cd "$(dirname "$0")/.."
seeds=$1; shift
ids=${@:-C01 C02 C03 C04 C05 C06 C07 C08 C09 C10 C11 C12 C13 C14 C15 C16 C17 C18 C19 C20}
for sd in $seeds; do for id in $ids; do
  s=$(date +%s); VERIF_SEED=$sd ./check $id --tier quick > out/sweep_${id}_$sd.txt 2>&1; rc=$?; e=$(date +%s)
  echo "seed=$sd $id rc=$rc wall=$((e-s))s $(grep '^VIOLATION' out/sweep_${id}_$sd.txt | head -2 | tr '\n' ' ')" >> out/seed_sweep.txt
  [ $rc -eq 0 ] && rm -f out/sweep_${id}_$sd.txt
done; done
