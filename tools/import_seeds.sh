#!/bin/bash
# usage: tools/import_seeds.sh C19   -> copies /tmp/wt_seed_c19_seeds/m* to seeded/C19-m*, removes the scratch worktree, prints the new seed ids
id=$1; l=$(echo $id | tr 'A-Z' 'a-z'); src=/tmp/wt_seed_${l}_seeds
cd "$(dirname "$0")/.."
for d in $src/m*; do
  [ -f $d/patch.diff ] || continue
  m=$(basename $d); dst=seeded/$id-$m; mkdir -p $dst
  cp $d/patch.diff $d/demo.py $d/meta.json $dst/ && echo -n "$id-$m "
done
git -C /repo worktree remove --force /tmp/wt_seed_$l 2>/dev/null
rm -rf $src /tmp/wt_seed_${l}_prompt.txt
echo
