"""Coordinator tool: merge the work of one improver.

usage: /venv/bin/python tools/merge_improver.py c08 [--no-repo] [--dry]
  1. cherry-picks the commits of /repo branch fix-c08 that are not on main (in order) onto /repo main;
  2. merges /verif branch c08 into /verif main (no fast-forward, so the merge is visible);
  3. rewrites, in known_findings.json, the shas of the fix-branch commits to the shas they got on main;
  4. regenerates MANIFEST.json.
Stops at the first conflict and says where.
"""
import json, re, subprocess, sys
from pathlib import Path

l = sys.argv[1]
dry = "--dry" in sys.argv
VERIF, REPO = Path("/verif"), Path("/repo")


def git(repo, *a, check=True):
    r = subprocess.run(["git", "-C", str(repo), *a], capture_output=True, text=True)
    if check and r.returncode != 0:
        print("git", *a, "failed:\n", r.stdout, r.stderr)
        sys.exit(1)
    return r.stdout.strip()


mapping = {}
if "--no-repo" not in sys.argv and git(REPO, "branch", "--list", f"fix-{l}"):
    if git(REPO, "status", "--porcelain", "--untracked-files=no"):
        print("/repo has uncommitted changes to tracked files"); sys.exit(1)
    commits = git(REPO, "rev-list", "--reverse", f"main..fix-{l}").split()
    skips = dict(a.split("=")[1].split(":") for a in sys.argv if a.startswith("--skip="))   # --skip=<sha prefix>:<sha on main>
    for c in commits:
        sk = [v for k, v in skips.items() if c.startswith(k)]
        if sk:
            mapping[c] = git(REPO, "rev-parse", sk[0]); continue
        subj = git(REPO, "log", "-1", "--format=%s", c)
        if not subj.startswith("fix:"):
            print(f"commit {c[:8]} on fix-{l} does not start with 'fix:': {subj!r}"); sys.exit(1)
        # already picked (same subject on main)?
        have = [x for x in git(REPO, "log", "--format=%h %s", "main").splitlines() if x.split(" ", 1)[1] == subj]
        if have:
            mapping[c] = git(REPO, "rev-parse", have[0].split()[0]); continue
        print("cherry-pick", c[:8], subj)
        if dry: continue
        r = subprocess.run(["git", "-C", str(REPO), "cherry-pick", c], capture_output=True, text=True)
        if r.returncode != 0:
            print("CONFLICT cherry-picking", c[:8], "\n", r.stdout, r.stderr, "\nresolve in /repo, `git cherry-pick --continue`, rerun")
            sys.exit(1)
        mapping[c] = git(REPO, "rev-parse", "HEAD")
if dry:
    print(git(VERIF, "log", "--oneline", f"main..{l}")); sys.exit(0)

if git(VERIF, "status", "--porcelain", "--untracked-files=no"):
    print("/verif has uncommitted changes to tracked files"); sys.exit(1)
r = subprocess.run(["git", "-C", str(VERIF), "merge", "--no-ff", "-m", f"merge improver branch {l}", l], capture_output=True, text=True)
print(r.stdout[-1500:], r.stderr[-1500:])
if r.returncode != 0:
    print("CONFLICT merging /verif branch", l); sys.exit(1)

kf = VERIF / "known_findings.json"
text = kf.read_text()
for old, new in mapping.items():
    for n in (40, 12, 10, 8, 7):
        text = re.sub(r"\b" + old[:n] + r"\b", new[:n] if n < 40 else new, text)
json.loads(text)
kf.write_text(text)
subprocess.run(["/venv/bin/python", "-m", "harness.manifest"], cwd=VERIF, check=True)
print("sha mapping:", {k[:8]: v[:8] for k, v in mapping.items()})
print("now: ./check", l.upper(), "; then git -C /verif add -A; git commit")
