#!/bin/bash
# usage: tools/new_worktree.sh c08   -> /tmp/vw_c08 (branch c08 of /verif, compiled Coq library reused) and /tmp/wt_c08 (branch fix-c08 of /repo)
l=$1
[ -d /tmp/vw_$l ] || git -C /verif worktree add -q /tmp/vw_$l -b $l HEAD || git -C /verif worktree add -q /tmp/vw_$l $l
rsync -a --include='*/' --include='*.vo' --include='*.vos' --include='*.vok' --include='*.glob' --include='.*.aux' --include='Makefile*' --include='.Makefile.d' --include='_CoqProject' --exclude='*' /verif/coq/ /tmp/vw_$l/coq/
find /tmp/vw_$l/coq \( -name '*.vo' -o -name '*.glob' -o -name '*.vos' -o -name '*.vok' -o -name '.*.aux' \) -exec touch -d "$(date '+%Y-%m-%d %H:%M:%S')" {} +
[ -d /tmp/wt_$l ] || git -C /repo worktree add -q /tmp/wt_$l -b fix-$l HEAD || git -C /repo worktree add -q /tmp/wt_$l fix-$l
echo "framework copy: /tmp/vw_$l (branch $l)   repository copy: /tmp/wt_$l (branch fix-$l)"
