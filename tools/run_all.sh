#!/bin/bash
# usage: tools/run_all.sh [tier] [ids...]  -> out/run_all_<tier>.txt   (sequential, like `vp check`)
cd "$(dirname "$0")/.."
tier=${1:-quick}; shift
ids=${@:-C01 C02 C03 C04 C05 C06 C07 C08 C09 C10 C11 C12 C13 C14 C15 C16 C17 C18 C19 C20}
mkdir -p out; out=out/run_all_$tier.txt; : > $out
for id in $ids; do
  s=$(date +%s)
  ./check $id --tier $tier > out/log_${id}_$tier.txt 2>&1; rc=$?
  e=$(date +%s)
  kf=$(grep -c '^KNOWN-FINDING' out/log_${id}_$tier.txt); v=$(grep -c '^VIOLATION' out/log_${id}_$tier.txt)
  echo "$id rc=$rc wall=$((e-s))s known=$kf violations=$v" | tee -a $out
done
