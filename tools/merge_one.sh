#!/bin/bash
# usage: tools/merge_one.sh c17c "commit message"   (coordinator: merge one improver branch, resolve routine conflicts, commit)
cd /verif
l=$1; msg=${2:-"$l merged"}
git add -A; git commit -qm "wip before merging $l" -q 2>/dev/null
/venv/bin/python tools/merge_improver.py $l 2>&1 | tail -3
if git -C /repo status | grep -q "cherry-picking"; then echo "REPO CHERRY-PICK PROBLEM"; exit 1; fi
if git status --short | grep -q '^UU\|^AA'; then tools/merge_resolve.sh || exit 1; git commit -qm "merge improver branch $l"; /venv/bin/python tools/merge_improver.py $l 2>&1 | tail -2; fi
git add -A; git commit -qm "$msg" -q
git worktree remove --force /tmp/vw_$l 2>/dev/null; git -C /repo worktree remove --force /tmp/wt_$l 2>/dev/null
echo "merged $l"
