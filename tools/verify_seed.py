"""Confirm a candidate seeded change in a scratch worktree:
   usage: verify_seed.py <worktree> <seed_dir>
   1. demo passes on the clean worktree; 2. patch applies; 3. demo fails with the patch;
   4. the full baseline suite still passes (every BASELINE stable_pass test); 5. worktree restored."""
import json, subprocess, sys, os
wt, sd = sys.argv[1], sys.argv[2]
env = dict(os.environ, PYTHONPATH=wt, MPLBACKEND="Agg", TQDM_DISABLE="1")
def run(cmd, **kw):
    return subprocess.run(cmd, capture_output=True, text=True, **kw)
res = {"seed_dir": sd}
run(["git", "-C", wt, "checkout", "--", "."])
r = run(["/venv/bin/python", f"{sd}/demo.py"], cwd=wt, env=env); res["demo_clean_rc"] = r.returncode
pf = f"{sd}/patch_current.diff" if os.path.exists(f"{sd}/patch_current.diff") else f"{sd}/patch.diff"
res["patch_file"] = os.path.basename(pf)
a = run(["patch", "-p1", "-s", "-F0", "--no-backup-if-mismatch", "-i", pf], cwd=wt); res["applies"] = a.returncode == 0
if res["applies"]:
    r = run(["/venv/bin/python", f"{sd}/demo.py"], cwd=wt, env=env); res["demo_patched_rc"] = r.returncode
    res["demo_patched_tail"] = (r.stdout + r.stderr)[-400:]
    b = run(["/venv/bin/python", "/verif/tools/baseline.py", wt]); res["baseline_rc"] = b.returncode
    res["baseline_out"] = b.stdout[-600:]
    run(["git", "-C", wt, "checkout", "--", "."])
res["ok"] = bool(res.get("applies") and res["demo_clean_rc"] == 0 and res.get("demo_patched_rc", 0) != 0 and res.get("baseline_rc") == 0)
print(json.dumps(res, indent=1))
