(* C14 — charge is accounted identically as arrays and as positioned clusters.
   Only statements here.  The model is Model/Charge.v (pyxel/data_structure/charge.py as coded, after the
   repairs of C14-F4a/F4b/F5); proofs live in Proofs/Charge*.v.  All theorems quantify over ALL operation
   sequences.  They are stated about the state machine built from `src` (Gen_C14.v: the index
   expressions, the mask, the conversion threshold and the pixel-centre formulas that translator/c14.py
   read in the source on this run): `C14_source_is_model` re-proves on every run that these say what the
   fixed model says, and Proofs/ChargeSrc.v transfers every theorem. *)
From Coq Require Import ZArith QArith Qround List Bool Lia ZifyBool.
From PyxelV Require Import Model.Charge Model.ChargeHeap Proofs.ChargeLemmas Proofs.ChargeRefine Proofs.ChargeIdeal
  Proofs.ChargeBinning Proofs.ChargeSrc Proofs.ChargeHeap.
From PyxelGen Require Import Gen_C14.
Import ListNotations.
Open Scope Q_scope.

(* ------------------------------------------------------------------------------------------
   (0) The tie to the source, re-proved against the regenerated expressions: the first subscript of the
   njit loop is floor(position_ver / pixel_vert_size), the second floor(position_hor / pixel_horz_size);
   exactly the clusters with 0 <= first < geo.row and 0 <= second < geo.col are handed to the loop; an
   array entry becomes a cluster iff it is > 0; the cluster of pixel (i, j) is placed at
   ((i + 1/2) * pixel_vert_size, (j + 1/2) * pixel_horz_size); the loop accumulates (`+=`) the column
   `number`. *)
Theorem C14_source_is_model : params_ok src.
Proof.
  unfold params_ok, src; cbn [sp_iv sp_ih sp_keep sp_thr sp_cv sp_ch].
  repeat split; intros; try reflexivity; unfold src_keep; lia.
Qed.
Print Assumptions C14_source_is_model.

Theorem C14_source_loop : src_loop_accumulates = true /\ src_value_is_number = true.
Proof. split; reflexivity. Qed.
Print Assumptions C14_source_loop.

(* the hypothesis is satisfiable independently of the generated file, and it is not trivially true *)
Example C14_source_is_model_nonvacuous :
  params_ok std_params /\
  ~ params_ok {| sp_iv := sp_iv std_params; sp_ih := sp_ih std_params; sp_keep := fun _ _ _ _ => true;
                 sp_thr := sp_thr std_params; sp_cv := sp_cv std_params; sp_ch := sp_ch std_params |}.
Proof.
  split; [exact std_params_ok|]. intros [_ [_ [K _]]]. specialize (K (-1)%Z 0%Z 1%Z 1%Z). discriminate.
Qed.

(* ------------------------------------------------------------------------------------------
   (1) The accumulator.  For non-negative array additions and clusters ANYWHERE (inside the sensitive
   area, on its borders, at negative positions, beyond the far edges), a read after ANY interleaving of
   AddArray / AddClusters / Read / ReadFrame / Reset returns an array of the detector's shape (the
   out-of-bounds outcome of the unchecked loop is unreachable) that equals, pixel by pixel, the sum of
   everything added since the last Reset (spec_acc: arrays entry-wise, each cluster credited to exactly
   the pixel (floor(v/ph), floor(h/pw)) when that is a pixel of the array and to nothing otherwise).
   Shape-rejected arrays contribute nothing.  (This was C14_outside_safe_full, refuted before the repair.) *)
Definition op_ok_anywhere (o : op) : bool := negb (is_removal o) && op_arrays_nonneg o.

Theorem C14_refines_accumulator :
  forall g ops, geom_ok g = true -> forallb op_ok_anywhere ops = true ->
  exists m, read_afterP src g ops = OArr m /\ Shape (g_rows g) (g_cols g) m /\
    forall i j, (i < g_rows g)%nat -> (j < g_cols g)%nat -> mget m i j == spec_acc g ops i j.
Proof. intros g ops. rewrite (read_afterP_eq src C14_source_is_model). exact (read_refines_accumulator g ops). Qed.
Print Assumptions C14_refines_accumulator.

(* ... and with removals: for ALL op sequences the read is the ledger -- additions credited as above, a
   removal debiting exactly the clusters it takes out of the live table (spec_ledger). *)
Theorem C14_refines_ledger :
  forall g ops, geom_ok g = true -> forallb op_arrays_nonneg ops = true ->
  exists m, read_afterP src g ops = OArr m /\ Shape (g_rows g) (g_cols g) m /\
    forall i j, (i < g_rows g)%nat -> (j < g_cols g)%nat -> mget m i j == spec_ledger g ops i j.
Proof. intros g ops. rewrite (read_afterP_eq src C14_source_is_model). exact (read_refines_ledger g ops). Qed.
Print Assumptions C14_refines_ledger.

Theorem C14_ledger_is_accumulator_without_removals :
  forall g ops, has_removal ops = false -> forall i j, spec_ledger g ops i j = spec_acc g ops i j.
Proof. exact ledger_no_removal. Qed.
Print Assumptions C14_ledger_is_accumulator_without_removals.

(* a reset returns the view to zero whatever came before -- no hypothesis at all *)
Theorem C14_reset_gives_zero :
  forall g ops, read_afterP src g (ops ++ [Reset]) = OArr (zeros (g_rows g) (g_cols g)).
Proof. intros g ops. rewrite (read_afterP_eq src C14_source_is_model). exact (read_after_reset g ops). Qed.
Print Assumptions C14_reset_gives_zero.

Definition g23 : geom := {| g_rows := 2; g_cols := 3; g_ph := 2; g_pw := 4 |}.
Definition K n v h : cluster := {| c_n := n; c_v := v; c_h := h |}.
Definition ops_mixed : list op :=
  [AddArray [[1;0;2];[0;3;0]]; Read; AddClusters [K 5 1 4; K 7 2 (23#2); K 9 (-1) 1; K 9 4 0]; Read;
   AddArray [[0;0;1];[1;0;0]]; ReadFrame; Read; Reset; AddClusters [K 1 0 0]; AddArray [[1;1;1];[1;1;1]]].
(* non-vacuity: a mixed sequence with clusters outside meets the hypotheses; its reads are the expected sums *)
Example C14_refines_accumulator_nonvacuous :
  geom_ok g23 = true /\ forallb op_ok_anywhere ops_mixed = true /\
  read_afterP src g23 ops_mixed = OArr [[2;1;1];[1;1;1]] /\
  read_afterP src g23 (firstn 7 ops_mixed) = OArr [[1;5;3];[1;3;7]].
Proof. vm_compute. repeat split. Qed.

(* ------------------------------------------------------------------------------------------
   (2) Binning.  A position belongs to pixel k exactly when it lies in [k*s, (k+1)*s) (the lower
   border belongs to the pixel, the upper one to the next) -- stated on the regenerated index
   expressions; ANY single cluster is read back in exactly the pixel of its two indices if that is a
   pixel of the array and nowhere else; pixel centres round-trip. *)
Theorem C14_binning_pixel_area :
  forall pv ph sv sh k, 0 < sv -> 0 < sh ->
    ((inject_Z k * sv <= pv /\ pv < (inject_Z k + 1) * sv) <-> src_iv pv ph sv sh = k) /\
    ((inject_Z k * sh <= ph /\ ph < (inject_Z k + 1) * sh) <-> src_ih pv ph sv sh = k).
Proof.
  intros pv ph sv sh k Hv Hh. destruct C14_source_is_model as [Hiv [Hih _]]. cbn [sp_iv sp_ih src] in Hiv, Hih.
  rewrite Hiv, Hih. split; apply pix_bounds; auto.
Qed.
Print Assumptions C14_binning_pixel_area.

Theorem C14_binning :
  forall g c, geom_ok g = true ->
  exists m, read_afterP src g [AddClusters [c]] = OArr m /\ Shape (g_rows g) (g_cols g) m /\
    forall i j, (i < g_rows g)%nat -> (j < g_cols g)%nat ->
      mget m i j == if (Qfloor (c_v c / g_ph g) =? Z.of_nat i)%Z && (Qfloor (c_h c / g_pw g) =? Z.of_nat j)%Z
                    then c_n c else 0.
Proof. intros g c. rewrite (read_afterP_eq src C14_source_is_model). exact (binning_single g c). Qed.
Print Assumptions C14_binning.

Theorem C14_binning_centre_roundtrip :
  forall sv sh k, 0 < sv -> 0 < sh ->
    src_iv (src_cv sv sh k) (src_ch sv sh k) sv sh = Z.of_nat k /\
    src_ih (src_cv sv sh k) (src_ch sv sh k) sv sh = Z.of_nat k.
Proof.
  intros sv sh k Hv Hh. destruct C14_source_is_model as [Hiv [Hih [_ [_ [Hcv Hch]]]]].
  cbn [sp_iv sp_ih sp_cv sp_ch src] in *. rewrite Hiv, Hih, Hcv, Hch. split; apply pix_centre; auto.
Qed.
Print Assumptions C14_binning_centre_roundtrip.

(* array -> clusters at centres -> array *)
Theorem C14_binning_array_roundtrip :
  forall g a cs, geom_ok g = true -> shape_ok (g_rows g) (g_cols g) a = true -> nonneg_matrix a = true ->
  exists m, read_afterP src g [AddArray a; AddClusters cs] = OArr m /\ Shape (g_rows g) (g_cols g) m /\
    forall i j, (i < g_rows g)%nat -> (j < g_cols g)%nat -> mget m i j == mget a i j + credit (hit_exact g) cs i j.
Proof. intros g a cs. rewrite (read_afterP_eq src C14_source_is_model). exact (centres_roundtrip g a cs). Qed.
Print Assumptions C14_binning_array_roundtrip.

Example C14_binning_nonvacuous :
  inside g23 (K 5 2 (23#2)) = true /\ inside g23 (K 5 (39#10) 0) = true /\
  read_afterP src g23 [AddClusters [K 5 2 (23#2)]] = OArr [[0;0;0];[0;0;5]] /\     (* on the row border 2 = 1*ph *)
  read_afterP src g23 [AddClusters [K 5 (39#10) 0]] = OArr [[0;0;0];[5;0;0]] /\
  inside g23 (K 5 4 0) = false /\                                                    (* the far edge is outside *)
  read_afterP src g23 [AddClusters [K 5 4 0]] = OArr [[0;0;0];[0;0;0]] /\
  src_iv (-1) 1 2 4 = (-1)%Z.
Proof. vm_compute. repeat split. Qed.

(* ------------------------------------------------------------------------------------------
   (3) Clusters outside the sensitive area (C14-F4a / C14-F4b, repaired): whatever the operations --
   removals included, non-negative or negative arrays, clusters anywhere -- a read is an array of the
   detector's shape: the unchecked loop never indexes outside the buffer.  And clusters that all lie
   outside [0, rows*ph) x [0, cols*pw) change no pixel, after any history. *)
Theorem C14_outside_never_corrupts :
  forall g ops, exists m, read_afterP src g ops = OArr m /\ Shape (g_rows g) (g_cols g) m.
Proof. intros g ops. rewrite (read_afterP_eq src C14_source_is_model). exact (never_corrupt g ops). Qed.
Print Assumptions C14_outside_never_corrupts.

Theorem C14_outside_safe :
  forall g ops cs, geom_ok g = true -> forallb op_arrays_nonneg ops = true ->
  forallb (fun c => negb (inside g c)) cs = true ->
  obs_equiv g (read_afterP src g (ops ++ [AddClusters cs])) (read_afterP src g ops).
Proof. intros g ops cs. rewrite !(read_afterP_eq src C14_source_is_model). exact (outside_adds_nothing g ops cs). Qed.
Print Assumptions C14_outside_safe.

Example C14_outside_safe_nonvacuous :
  forallb (fun c => negb (inside g23 c)) [K 5 (-1) 1; K 1 1 (-12); K 7 4 0; K 7 1 12; K 7 (-5) 100] = true /\
  read_afterP src g23 [AddArray [[1;0;2];[0;3;0]]; AddClusters [K 5 (-1) 1; K 1 1 (-12); K 7 4 0; K 7 1 12; K 7 (-5) 100]]
    = OArr [[1;0;2];[0;3;0]].
Proof. vm_compute. repeat split. Qed.

(* ------------------------------------------------------------------------------------------
   (4) Removals and the cached array (C14-F5, repaired).  For ALL sequences -- no hypothesis --
   (a) a read is an observation: inserting one anywhere never changes a later read; (b) the container
   reads exactly like the ideal cache-free container (charge moved between the representations,
   removed clusters gone for good) and shows the same `.frame`; (c) a removal debits exactly the
   clusters it takes out of the frame; (d) the ideal container is the accumulator on removal-free
   sequences (formerly only tested). *)
Theorem C14_read_pure :
  forall g ops1 ops2, obs_equiv g (read_afterP src g (ops1 ++ Read :: ops2)) (read_afterP src g (ops1 ++ ops2)).
Proof. intros g ops1 ops2. rewrite !(read_afterP_eq src C14_source_is_model). exact (read_pure g ops1 ops2). Qed.
Print Assumptions C14_read_pure.

Theorem C14_remove_then_add :
  forall g ops, obs_equiv g (read_afterP src g ops) (ideal_read_after g ops) /\
                frame_afterP src g ops = st_frame (ideal_exec g (init g) ops).
Proof.
  intros g ops. rewrite (read_afterP_eq src C14_source_is_model), (frame_afterP_eq src C14_source_is_model).
  split; [exact (read_sim_ideal g ops)|exact (frame_sim_ideal g ops)].
Qed.
Print Assumptions C14_remove_then_add.

Theorem C14_removal_subtracts :
  forall g ops o ids, geom_ok g = true -> forallb op_arrays_nonneg ops = true -> removal_ids o = Some ids ->
  exists m m', read_afterP src g ops = OArr m /\ read_afterP src g (ops ++ [o]) = OArr m' /\
    Shape (g_rows g) (g_cols g) m /\ Shape (g_rows g) (g_cols g) m' /\
    forall i j, (i < g_rows g)%nat -> (j < g_cols g)%nat ->
      mget m' i j == mget m i j - credit (hit_exact g) (fcl (selected ids (frame_afterP src g ops))) i j.
Proof.
  intros g ops o ids. rewrite !(read_afterP_eq src C14_source_is_model), (frame_afterP_eq src C14_source_is_model).
  exact (removal_subtracts g ops o ids).
Qed.
Print Assumptions C14_removal_subtracts.

Theorem C14_ideal_is_accumulator :
  forall g ops, geom_ok g = true -> forallb op_ok_anywhere ops = true ->
  exists n, ideal_read_after g ops = OArr n /\ Shape (g_rows g) (g_cols g) n /\
    forall i j, (i < g_rows g)%nat -> (j < g_cols g)%nat -> mget n i j == spec_acc g ops i j.
Proof. exact ideal_is_accumulator. Qed.
Print Assumptions C14_ideal_is_accumulator.

Definition g11 : geom := {| g_rows := 1; g_cols := 1; g_ph := 1; g_pw := 1 |}.
Definition ops_removal : list op :=
  [AddArray [[1;0;2];[0;3;0]]; AddClusters [K 5 1 4; K 7 2 (23#2)]; Read; Remove [0%Z; 3%Z]; Read;
   AddArray [[0;0;0];[4;0;0]]; Remove [7%Z]].
(* non-vacuity: the former counterexamples now read what the ideal container reads *)
Example C14_removal_nonvacuous :
  has_removal ops_removal = true /\
  read_afterP src g23 ops_removal = OArr [[0;0;2];[4;3;7]] /\
  ideal_read_after g23 ops_removal = OArr [[0;0;2];[4;3;7]] /\
  frame_eqb (frame_afterP src g23 (firstn 4 ops_removal)) [(1%Z, K 2 1 10); (2%Z, K 3 3 6); (4%Z, K 7 2 (23#2))] = true /\
  read_afterP src g11 [AddClusters [K 5 (1#2) (1#2)]; Read; RemoveAll] = OArr [[0]] /\
  read_afterP src g11 [AddClusters [K 5 (1#2) (1#2)]; Read; RemoveAll; AddArray [[1]]] = OArr [[1]] /\
  read_afterP src g11 [AddArray [[2]]; AddClusters [K 5 (1#2) (1#2)]; Remove [1%Z]] = OArr [[2]] /\
  read_afterP src g11 [AddArray [[2]]; RemoveAll] = OArr [[2]] /\
  removal_ids (Remove [0%Z; 3%Z]) = Some [0%Z; 3%Z].
Proof. vm_compute. repeat split. Qed.

(* ------------------------------------------------------------------------------------------
   (5) Object identity (C14-F7, repaired; the class of seeded/C14-m4).  numpy and pandas pass arrays and
   DataFrames BY REFERENCE.  Model/ChargeHeap.v runs the same container on a small heap: `Charge._array` is a
   reference, `add_charge_array` receives the caller's array OBJECT, the reads hand out array objects, and the
   caller may at any time overwrite an array it holds (HWrite), add the same object again (HAdd), modify a
   DataFrame it added (HWriteDf).  `hsrc` says what the source does with these objects on this run:
   accumulate in place into the stored array / build a new one / bind `self._array` to the argument; what
   `.array`, `np.asarray(charge)` and `to_xarray` return; whether any method binds `self._array` / `self._frame`
   to, or writes into, a parameter.  C14_heap_source_is_model re-proves on every run that the container keeps no
   reference to anything the caller owns, writes into nothing the caller owns, and gives xarray a copy. *)
Theorem C14_heap_source_is_model : hparams_ok hsrc.
Proof.
  unfold hparams_ok, hsrc; cbn [hp_add hp_writes_arg hp_xr_copies hp_df_adopts hp_binds_param].
  repeat split; first [reflexivity | discriminate].
Qed.
Print Assumptions C14_heap_source_is_model.

(* For EVERY sequence of container operations and caller-side mutations in which the caller only writes into what
   it owns (its own arrays and DataFrames, the copies to_xarray gave it -- `disciplined`; it may re-add the same
   object any number of times and overwrite it between and after the additions), every observation -- each
   returned value, the frame after each op, and the final read -- is that of the BY-VALUE history `by_value`, in
   which an addition contributes the value its argument held at the time of the call and the caller's mutations
   do not occur at all. *)
Theorem C14_caller_mutations_invisible :
  forall g hops, disciplined hops = true ->
    hread_after hsrc src g hops = read_afterP src g (by_value hops) /\
    (map (fun v : hview => (fst (fst v), snd (fst v))) (hrun hsrc src g (Some (hinit g)) hops)
      = runP src g (Some (init g)) (by_value hops)).
Proof.
  intros g hops Hd. split.
  - exact (heap_read_by_value hsrc src C14_heap_source_is_model g hops Hd).
  - exact (heap_trace_by_value hsrc src C14_heap_source_is_model g hops Hd).
Qed.
Print Assumptions C14_caller_mutations_invisible.

(* ... hence the accumulator (and the ledger, with removals) over op sequences that include caller-side mutations *)
Theorem C14_heap_refines_accumulator :
  forall g hops, geom_ok g = true -> disciplined hops = true -> forallb op_ok_anywhere (by_value hops) = true ->
  exists m, hread_after hsrc src g hops = OArr m /\ Shape (g_rows g) (g_cols g) m /\
    forall i j, (i < g_rows g)%nat -> (j < g_cols g)%nat -> mget m i j == spec_acc g (by_value hops) i j.
Proof.
  intros g hops Hg Hd Hok. rewrite (heap_read_by_value hsrc src C14_heap_source_is_model g hops Hd).
  exact (C14_refines_accumulator g (by_value hops) Hg Hok).
Qed.
Print Assumptions C14_heap_refines_accumulator.

Theorem C14_heap_refines_ledger :
  forall g hops, geom_ok g = true -> disciplined hops = true -> forallb op_arrays_nonneg (by_value hops) = true ->
  exists m, hread_after hsrc src g hops = OArr m /\ Shape (g_rows g) (g_cols g) m /\
    forall i j, (i < g_rows g)%nat -> (j < g_cols g)%nat -> mget m i j == spec_ledger g (by_value hops) i j.
Proof.
  intros g hops Hg Hd Hok. rewrite (heap_read_by_value hsrc src C14_heap_source_is_model g hops Hd).
  exact (C14_refines_ledger g (by_value hops) Hg Hok).
Qed.
Print Assumptions C14_heap_refines_ledger.

(* ... and the container never writes into the caller's arrays and DataFrames: after any such sequence they hold
   exactly what the CALLER last put there (caller_mem is computed from the caller's own HNew / HWrite / HNewDf /
   HWriteDf operations alone). *)
Theorem C14_caller_memory_untouched :
  forall g hops hs, disciplined hops = true -> hexec hsrc src g (Some (hinit g)) hops = Some hs ->
    (h_args hs, h_dfs hs) = caller_mem hops.
Proof. intros g hops hs. exact (caller_memory_untouched hsrc src C14_heap_source_is_model g hops hs). Qed.
Print Assumptions C14_caller_memory_untouched.

(* ... and an array handed out by to_xarray is a SNAPSHOT: it keeps its content across every further operation of the
   container and every caller write to any other object; when the caller overwrites it, it holds what the caller
   wrote and every other to_xarray result is untouched.  (hs = any state reachable by such a caller; r = the object
   returned by the j-th read, a to_xarray read.) *)
Theorem C14_xarray_result_is_a_snapshot :
  forall g hops o hs hs' j r,
    disciplined (hops ++ [o]) = true -> writes_result o = false ->
    hexec hsrc src g (Some (hinit g)) hops = Some hs -> fst (hstep hsrc src g hs o) = Some hs' ->
    nth_error (h_res hs) j = Some (RkXr, r) ->
    nth_error (h_res hs') j = Some (RkXr, r) /\ deref hs' r = deref hs r /\ deref hs r <> None.
Proof. exact (xarray_result_is_a_snapshot hsrc src C14_heap_source_is_model). Qed.
Print Assumptions C14_xarray_result_is_a_snapshot.

Theorem C14_xarray_result_written_by_caller :
  forall g hops j' a hs j r,
    disciplined (hops ++ [HWrite (HRes j') a]) = true ->
    hexec hsrc src g (Some (hinit g)) hops = Some hs ->
    nth_error (h_res hs) j = Some (RkXr, r) ->
    exists hs', fst (hstep hsrc src g hs (HWrite (HRes j') a)) = Some hs' /\ h_res hs' = h_res hs /\
      deref hs' r = if (j =? j')%nat then Some a else deref hs r.
Proof. exact (xarray_result_written_by_caller hsrc src C14_heap_source_is_model). Qed.
Print Assumptions C14_xarray_result_written_by_caller.

Definition hops_alias : list hop :=
  [HNew [[1;0;2];[0;3;0]]; HAdd (HArg 0); HAdd (HArg 0); HRead RkXr; HWrite (HArg 0) [[0;0;0];[0;0;8]];
   HAdd (HArg 0); HWrite (HRes 0) [[9;9;9];[9;9;9]]; HRead RkArray; HNewDf [K 5 1 4]; HAddDf 0;
   HWriteDf 0 [K 500 1 4]; HRead RkNp; HRemove [0%Z]; HWrite (HArg 0) [[7;7;7];[7;7;7]]].
Definition adopting : heapparams :=
  {| hp_add := AddAdopt; hp_writes_arg := false; hp_array_exposes := true; hp_np_exposes := true;
     hp_xr_copies := true; hp_df_adopts := false; hp_binds_param := false;
     hp_reset_fresh := true; hp_remove_fresh := true; hp_rebuild_fresh := true |}.
Definition in_place : heapparams :=
  {| hp_add := AddInPlace; hp_writes_arg := false; hp_array_exposes := true; hp_np_exposes := true;
     hp_xr_copies := true; hp_df_adopts := false; hp_binds_param := false;
     hp_reset_fresh := false; hp_remove_fresh := false; hp_rebuild_fresh := false |}.
(* non-vacuity: a sequence that re-adds one object, overwrites it between and after the additions, scribbles over a
   to_xarray result and over an added DataFrame is disciplined and reads the by-value sums; the hypothesis is not
   trivially true (a container binding `self._array` to its argument is rejected) and it is needed: with such a
   container the same array object added three times reads 4x, and the caller's array is overwritten *)
Example C14_heap_nonvacuous :
  disciplined hops_alias = true /\
  by_value hops_alias =
    [ReadFrame; AddArray [[1;0;2];[0;3;0]]; AddArray [[1;0;2];[0;3;0]]; Read; ReadFrame; AddArray [[0;0;0];[0;0;8]];
     ReadFrame; Read; ReadFrame; AddClusters [K 5 1 4]; ReadFrame; Read; Remove [0%Z]; ReadFrame] /\
  hread_after hsrc src g23 (firstn 8 hops_alias) = OArr [[2;0;4];[0;6;8]] /\
  hread_after hsrc src g23 hops_alias = OArr [[0;5;4];[0;6;8]] /\
  hparams_ok std_hparams /\ ~ hparams_ok adopting /\
  hread_after adopting src g11 [HNew [[1]]; HAdd (HArg 0); HAdd (HArg 0); HAdd (HArg 0)] = OArr [[4]] /\
  hread_after hsrc src g11 [HNew [[1]]; HAdd (HArg 0); HAdd (HArg 0); HAdd (HArg 0)] = OArr [[3]] /\
  option_map h_args (hexec adopting src g11 (Some (hinit g11)) [HNew [[1]]; HAdd (HArg 0); HAdd (HArg 0)]) = Some [[[2]]] /\
  disciplined [HRead RkArray; HWrite (HRes 0) [[5]]] = false /\
  (* a to_xarray result survives additions, a reset and the caller's writes elsewhere; a view from .array does not *)
  option_map (xr_view) (hexec hsrc src g11 (Some (hinit g11))
     [HNew [[1]]; HAdd (HArg 0); HRead RkXr; HAdd (HArg 0); HReset; HWrite (HArg 0) [[9]]; HCl [K 2 (1#2) (1#2)]; HRead RkXr])
    = Some [[[1]]; [[2]]] /\
  writes_result (HWrite (HRes 0) [[5]]) = true /\ writes_result (HAdd (HArg 0)) = false /\
  (* a container that zeroes / rebuilds its array in place is accepted too, and differs only in what an old `.array`
     view shows: written after a reset, the view still is the stored array *)
  hparams_ok in_place /\
  hread_after in_place src g11 [HRead RkArray; HReset; HWrite (HRes 0) [[5]]] = OArr [[5]] /\
  hread_after std_hparams src g11 [HRead RkArray; HReset; HWrite (HRes 0) [[5]]] = OArr [[0]].
Proof.
  repeat match goal with |- _ /\ _ => split end; try (vm_compute; reflexivity); try exact std_hparams_ok.
  intros [Hn _]. apply Hn. reflexivity.
Qed.
