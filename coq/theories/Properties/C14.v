(* C14 — charge is accounted identically as arrays and as positioned clusters.
   Only statements here; the model is Model/Charge.v (pyxel/data_structure/charge.py as coded),
   proofs live in Proofs/Charge*.v.  All theorems quantify over ALL operation sequences. *)
From Coq Require Import ZArith QArith Qround List Bool Lia.
From PyxelV Require Import Model.Charge Proofs.ChargeLemmas Proofs.ChargeRefine Proofs.ChargeBinning Proofs.ChargeIdeal.
Import ListNotations.
Open Scope Q_scope.

(* ------------------------------------------------------------------------------------------
   (1) For non-negative array additions and clusters inside the sensitive area, a read after ANY
   interleaving of AddArray / AddClusters / Read / ReadFrame / Reset returns, pixel by pixel, the sum
   of everything added since the last Reset (spec_acc: arrays entry-wise, each cluster credited to
   exactly (floor(v/ph), floor(h/pw))).  Shape-rejected arrays contribute nothing.  Corrupt is
   unreachable. *)
Theorem C14_refines_accumulator :
  forall g ops, geom_ok g = true -> forallb (op_ok_in g) ops = true ->
  exists m, read_after g ops = OArr m /\ Shape (g_rows g) (g_cols g) m /\
    forall i j, (i < g_rows g)%nat -> (j < g_cols g)%nat -> mget m i j == spec_acc g ops i j.
Proof. exact read_refines_accumulator. Qed.
Print Assumptions C14_refines_accumulator.

Theorem C14_reset_gives_zero :
  forall g ops, geom_ok g = true -> forallb (op_ok_in g) ops = true ->
  exists m, read_after g (ops ++ [Reset]) = OArr m /\ Shape (g_rows g) (g_cols g) m /\
    forall i j, (i < g_rows g)%nat -> (j < g_cols g)%nat -> mget m i j == 0.
Proof. exact read_after_reset. Qed.
Print Assumptions C14_reset_gives_zero.

Definition g23 : geom := {| g_rows := 2; g_cols := 3; g_ph := 2; g_pw := 4 |}.
Definition K n v h : cluster := {| c_n := n; c_v := v; c_h := h |}.
Definition ops_mixed : list op :=
  [AddArray [[1;0;2];[0;3;0]]; Read; AddClusters [K 5 1 4; K 7 2 (23#2)]; Read; AddArray [[0;0;1];[1;0;0]];
   ReadFrame; Read; Reset; AddClusters [K 1 0 0]; AddArray [[1;1;1];[1;1;1]]].
(* non-vacuity: a mixed sequence meets the hypotheses, and its read is the expected sum *)
Example C14_refines_accumulator_nonvacuous :
  geom_ok g23 = true /\ forallb (op_ok_in g23) ops_mixed = true /\
  read_after g23 ops_mixed = OArr [[2;1;1];[1;1;1]] /\
  read_after g23 (firstn 7 ops_mixed) = OArr [[1;5;3];[1;3;7]].
Proof. vm_compute. repeat split. Qed.

(* ------------------------------------------------------------------------------------------
   (2) Binning.  A position belongs to pixel k exactly when it lies in [k*s, (k+1)*s) (the lower
   border belongs to the pixel, the upper one to the next); a single cluster inside the area is read
   back in exactly that pixel and nowhere else; pixel centres round-trip. *)
Theorem C14_binning_pixel_area :
  forall s p k, 0 < s -> (inject_Z k * s <= p /\ p < (inject_Z k + 1) * s) <-> Qfloor (p / s) = k.
Proof. exact pix_bounds. Qed.
Print Assumptions C14_binning_pixel_area.

Theorem C14_binning :
  forall g c, geom_ok g = true -> inside g c = true ->
  exists m, read_after g [AddClusters [c]] = OArr m /\ Shape (g_rows g) (g_cols g) m /\
    forall i j, (i < g_rows g)%nat -> (j < g_cols g)%nat ->
      mget m i j == if (Qfloor (c_v c / g_ph g) =? Z.of_nat i)%Z && (Qfloor (c_h c / g_pw g) =? Z.of_nat j)%Z
                    then c_n c else 0.
Proof. exact binning_single. Qed.
Print Assumptions C14_binning.

Theorem C14_binning_centre_roundtrip :
  forall s k, 0 < s -> Qfloor (centre s k / s) = Z.of_nat k.
Proof. exact pix_centre. Qed.
Print Assumptions C14_binning_centre_roundtrip.

(* array -> clusters at centres -> array *)
Theorem C14_binning_array_roundtrip :
  forall g a cs, geom_ok g = true -> shape_ok (g_rows g) (g_cols g) a = true -> nonneg_matrix a = true ->
  forallb (inside g) cs = true ->
  exists m, read_after g [AddArray a; AddClusters cs] = OArr m /\ Shape (g_rows g) (g_cols g) m /\
    forall i j, (i < g_rows g)%nat -> (j < g_cols g)%nat -> mget m i j == mget a i j + credit (hit_exact g) cs i j.
Proof. exact centres_roundtrip. Qed.
Print Assumptions C14_binning_array_roundtrip.

Example C14_binning_nonvacuous :
  inside g23 (K 5 2 (23#2)) = true /\ inside g23 (K 5 (39#10) 0) = true /\
  read_after g23 [AddClusters [K 5 2 (23#2)]] = OArr [[0;0;0];[0;0;5]] /\     (* on the row border 2 = 1*ph *)
  read_after g23 [AddClusters [K 5 (39#10) 0]] = OArr [[0;0;0];[5;0;0]] /\
  inside g23 (K 5 4 0) = false.                                                 (* the far edge is outside *)
Proof. vm_compute. repeat split. Qed.

(* ------------------------------------------------------------------------------------------
   (3) Clusters outside the sensitive area.  FULL statement: whatever the cluster positions, a read
   returns the accumulator (outside clusters credited nowhere) and memory is never corrupted. *)
Definition op_ok_anywhere (o : op) : bool := negb (is_removal o) && op_arrays_nonneg o.

Definition C14_outside_safe_full : Prop :=
  forall g ops, geom_ok g = true -> forallb op_ok_anywhere ops = true ->
  exists m, read_after g ops = OArr m /\ Shape (g_rows g) (g_cols g) m /\
    forall i j, (i < g_rows g)%nat -> (j < g_cols g)%nat -> mget m i j == spec_acc g ops i j.

(* REFUTED on the code as it is: (a) a negative position is credited to the opposite edge ... *)
Theorem C14_outside_safe_refuted : ~ C14_outside_safe_full.
Proof.
  intro H. destruct (H g23 [AddClusters [K 5 (-1) 1]] eq_refl eq_refl) as [m [E [_ G]]].
  vm_compute in E. injection E as <-.
  specialize (G 1%nat 0%nat). vm_compute in G.
  assert (A : (1 < 2)%nat) by lia. assert (B : (0 < 3)%nat) by lia. specialize (G A B). discriminate.
Qed.
Print Assumptions C14_outside_safe_refuted.

(* ... and (b) a position at or beyond the far edge is written out of bounds. *)
Theorem C14_outside_corrupt_reachable :
  exists g ops, geom_ok g = true /\ forallb op_ok_anywhere ops = true /\ read_after g ops = OCorrupt.
Proof. exists g23, [AddClusters [K 5 4 0]]. vm_compute. repeat split. Qed.
Print Assumptions C14_outside_corrupt_reachable.

(* PARTIAL (what is true for all sequences): if every cluster index lies within one detector length
   of the array (index in [-n, n)), nothing is corrupted and the read is the accumulator with
   numba's wraparound (index k < 0 credited to n + k). *)
Theorem C14_outside_safe_partial :
  forall g ops, geom_ok g = true -> forallb (op_ok g) ops = true ->
  exists m, read_after g ops = OArr m /\ Shape (g_rows g) (g_cols g) m /\
    forall i j, (i < g_rows g)%nat -> (j < g_cols g)%nat -> mget m i j == wrap_acc g ops i j.
Proof. exact read_refines_wrap. Qed.
Print Assumptions C14_outside_safe_partial.

Example C14_outside_safe_partial_nonvacuous :
  forallb (op_ok g23) [AddClusters [K 5 (-1) 1; K 1 1 (-12)]] = true /\
  forallb (op_ok_in g23) [AddClusters [K 5 (-1) 1]] = false /\
  read_after g23 [AddClusters [K 5 (-1) 1; K 1 1 (-12)]] = OArr [[1;0;0];[5;0;0]].
Proof. vm_compute. repeat split. Qed.

(* ------------------------------------------------------------------------------------------
   (4) Removals and the cached array (DESIGN 7, F5).  FULL statements: (a) a read is an observation --
   inserting one anywhere never changes a later read; (b) the container behaves like the ideal
   cache-free container (charge moved between representations, removed clusters gone for good). *)
(* op_ok_rm g o (Proofs/ChargeIdeal.v) := op_arrays_nonneg o && op_clusters (inside g) o : removals allowed *)

Definition C14_read_pure_full : Prop :=
  forall g ops1 ops2, geom_ok g = true -> forallb (op_ok_rm g) (ops1 ++ ops2) = true ->
  obs_equiv g (read_after g (ops1 ++ Read :: ops2)) (read_after g (ops1 ++ ops2)).

Definition C14_remove_then_add_full : Prop :=
  forall g ops, geom_ok g = true -> forallb (op_ok_rm g) ops = true ->
  obs_equiv g (read_after g ops) (ideal_read_after g ops).

Definition g11 : geom := {| g_rows := 1; g_cols := 1; g_ph := 1; g_pw := 1 |}.

(* REFUTED: AddClusters; Read; RemoveAll  reads 5 where  AddClusters; RemoveAll  reads 0 *)
Theorem C14_read_pure_refuted : ~ C14_read_pure_full.
Proof.
  intro H. specialize (H g11 [AddClusters [K 5 (1#2) (1#2)]] [RemoveAll] eq_refl eq_refl).
  vm_compute in H. destruct H as [_ [_ G]].
  assert (A : (0 < 1)%nat) by lia. specialize (G 0%nat 0%nat A A). discriminate.
Qed.
Print Assumptions C14_read_pure_refuted.

(* REFUTED: Read; RemoveAll; AddArray resurrects the removed charge (reads 6, should be 1) *)
Theorem C14_remove_then_add_refuted : ~ C14_remove_then_add_full.
Proof.
  intro H. specialize (H g11 [AddClusters [K 5 (1#2) (1#2)]; Read; RemoveAll; AddArray [[1]]] eq_refl eq_refl).
  vm_compute in H. destruct H as [_ [_ G]].
  assert (A : (0 < 1)%nat) by lia. specialize (G 0%nat 0%nat A A). discriminate.
Qed.
Print Assumptions C14_remove_then_add_refuted.

(* PARTIAL: without removals reads are pure, for all interleavings *)
Theorem C14_read_pure_partial :
  forall g ops1 ops2, geom_ok g = true -> forallb (op_ok g) (ops1 ++ ops2) = true ->
  obs_equiv g (read_after g (ops1 ++ Read :: ops2)) (read_after g (ops1 ++ ops2)).
Proof. exact read_pure_partial. Qed.
Print Assumptions C14_read_pure_partial.

(* PARTIAL: for ALL sequences, removals included, in which no removal turns a non-empty frame into an
   empty one (removal_safe, a decidable condition on the sequence), the container as coded reads
   exactly like the ideal cache-free container.  Missing for the full statement: exactly the
   sequences in which a removal empties the frame (the refutation above). *)
Theorem C14_remove_then_add_partial :
  forall g ops, geom_ok g = true -> forallb (op_ok_rm g) ops = true -> removal_safe g (init g) ops = true ->
  obs_equiv g (read_after g ops) (ideal_read_after g ops).
Proof. exact read_sim_ideal. Qed.
Print Assumptions C14_remove_then_add_partial.

Definition ops_partial_removal : list op :=
  [AddArray [[1;0;2];[0;3;0]]; AddClusters [K 5 1 4; K 7 2 (23#2)]; Read; Remove [0%Z; 3%Z]; Read;
   AddArray [[0;0;0];[4;0;0]]; Remove [7%Z]].
Example C14_remove_then_add_partial_nonvacuous :
  forallb (op_ok_rm g23) ops_partial_removal = true /\ removal_safe g23 (init g23) ops_partial_removal = true /\
  has_removal ops_partial_removal = true /\
  read_after g23 ops_partial_removal = OArr [[0;0;2];[4;3;7]] /\
  ideal_read_after g23 ops_partial_removal = OArr [[0;0;2];[4;3;7]] /\
  removal_safe g11 (init g11) [AddClusters [K 5 (1#2) (1#2)]; Read; RemoveAll; AddArray [[1]]] = false.
Proof. vm_compute. repeat split. Qed.
