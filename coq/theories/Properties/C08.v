(* C08 — a dotted parameter key addresses exactly one existing setting.
   Only statements here; the model is Model/Keys.v, the proofs are in Proofs/Keys*.v.
   A key is the list of its dot-separated components. *)
From Coq Require Import ZArith List Bool String.
From PyxelV Require Import Model.Keys Model.KeysWorld Proofs.Keys Proofs.KeysLit Proofs.KeysSeq Proofs.KeysWorld Proofs.KeysRun.
From PyxelGen Require Import Gen_C08.
Import ListNotations.
Open Scope string_scope.
Open Scope list_scope.

(* ---- concrete trees used as witnesses / non-vacuity examples ---- *)
Definition ex_args : tree :=
  Node NArgs (MCons "items" KClass (Leaf (VOpaque "method"))
             (MCons "values" KClass (Leaf (VOpaque "method"))
             (MCons "level" KItem (Leaf (VInt 1))
             (MCons "values" KItem (Leaf (VInt 3))
             (MCons "d" KItem (Node NDict (MCons "keys" KClass (Leaf (VOpaque "method")) (MCons "k" KItem (Leaf (VInt 1)) MNil))) MNil))))).
Definition ex_model (en : bool) : tree :=
  Node (NObj true) (MCons "name" (KProp false GAny) (Leaf (VStr "illumination"))
                   (MCons "arguments" (KProp false GAny) ex_args
                   (MCons "enabled" KInst (Leaf (VBool en)) MNil))).
Definition ex_geometry : tree :=
  Node (NObj true) (MCons "row" (KProp true (GAbove 0 true)) (Leaf (VInt 3))
                   (MCons "col" (KProp true (GAbove 0 true)) (Leaf (VInt 4))
                   (MCons "shape" (KProp false GAny) (Leaf (VTuple [VInt 3; VInt 4]))
                   (MCons "to_dict" KClass (Leaf (VOpaque "method")) MNil)))).
Definition ex_proc (en : bool) : tree :=
  Node (NObj true)
    (MCons "detector" KInst (Node (NObj true) (MCons "geometry" (KProp false GAny) ex_geometry MNil))
    (MCons "pipeline" KInst
       (Node (NObj true)
          (MCons "photon_collection" (KProp false GAny)
             (Node NGroup (MCons "models" KInst (Leaf (VOpaque "list")) (MCons "illumination" KItem (ex_model en) MNil)))
          (MCons "phasing" (KProp false GAny) (Leaf VNone) MNil))) MNil)).

Definition k_row := ["detector"; "geometry"; "row"].
Definition k_rwo := ["detector"; "geometry"; "rwo"].
Definition k_level := ["pipeline"; "photon_collection"; "illumination"; "arguments"; "level"].
Definition k_enabld := ["pipeline"; "photon_collection"; "illumination"; "enabld"].
Definition k_dict := ["pipeline"; "photon_collection"; "illumination"; "arguments"; "d"; "k"].
Definition k_values := ["pipeline"; "photon_collection"; "illumination"; "arguments"; "values"].

(* ===================================================================================== set then get *)

(* Reading back returns the assigned value — for every tree, key and value (Processor.get looks items of dicts and
   declared arguments up first, as has() and set() do: repaired C08-get-dict, C08-get-shadowed). *)
Theorem C08_set_get :
  forall t k v t', set t k v = Ok t' -> getv t' k = Ok v.
Proof. exact set_get. Qed.
Print Assumptions C08_set_get.

Example C08_set_get_nonvacuous :
  (exists t', set (ex_proc true) k_level (VInt 9) = Ok t') /\
  (exists t', set (ex_proc true) k_row (VInt 9) = Ok t') /\
  (* an item of a dict-valued argument, and an argument called like a method of Mapping *)
  (exists t', set (ex_proc true) k_dict (VInt 9) = Ok t' /\ getv t' k_dict = Ok (VInt 9)) /\
  (exists t', set (ex_proc true) k_values (VInt 9) = Ok t' /\ getv t' k_values = Ok (VInt 9)).
Proof. repeat split; try (eexists; vm_compute; reflexivity); eexists; split; vm_compute; reflexivity. Qed.

(* ===================================================================================== frame *)

(* An accepted assignment addressed an existing, settable setting (an item of a dict, a declared argument, a property
   with a setter, an instance attribute holding a value), and every key that does not extend the assigned key reads
   exactly as before: same value, same object or same error — nothing else changes, appears or disappears
   (repaired C08-F7a/b/c: no attribute is created, no method shadowed, no object replaced).  Keys BELOW the assigned
   key are exempt because replacing a dict-valued argument by a scalar legitimately removes its items. *)
Theorem C08_frame :
  forall t k v t', set t k v = Ok t' ->
    targets t k = true /\ forall k', is_prefix k k' = false -> getv t' k' = getv t k'.
Proof. exact frame. Qed.
Print Assumptions C08_frame.

(* when the setting held a plain value nothing at all changes but that value: the shape of the tree is the same and
   EVERY other key reads as before *)
Theorem C08_frame_value_setting :
  forall t k v t', set t k v = Ok t' -> targets_setting t k = true ->
    shape t' = shape t /\ forall k', k' <> k -> getv t' k' = getv t k'.
Proof. exact frame_value. Qed.
Print Assumptions C08_frame_value_setting.

Theorem C08_setting_is_confirmed : forall t k, targets t k = true -> has t k = Ok true.
Proof. exact targets_has. Qed.
Print Assumptions C08_setting_is_confirmed.

Example C08_frame_nonvacuous :
  targets_setting (ex_proc true) k_level = true /\ targets_setting (ex_proc true) k_row = true /\
  targets_setting (ex_proc true) k_dict = true /\ targets_setting (ex_proc true) k_values = true /\
  targets_setting (ex_proc true) ["pipeline"; "photon_collection"; "illumination"; "enabled"] = true /\
  targets (ex_proc true) ["pipeline"; "photon_collection"; "illumination"; "arguments"; "d"] = true /\
  targets (ex_proc true) k_rwo = false /\ targets (ex_proc true) ["detector"] = false /\
  targets (ex_proc true) ["detector"; "geometry"; "to_dict"] = false /\
  (* the former defects are refused now *)
  set (ex_proc true) k_rwo (VInt 7) = Raise AttributeError /\
  set (ex_proc true) k_enabld (VBool false) = Raise AttributeError /\
  set (ex_proc true) ["detector"] (VInt 5) = Raise AttributeError /\
  set (ex_proc true) ["detector"; "geometry"; "to_dict"] (VInt 5) = Raise AttributeError /\
  set (ex_proc true) ["pipeline"; "photon_collection"; "illumination"] (VInt 5) = Raise AttributeError /\
  (exists t', set (ex_proc true) k_level (VInt 9) = Ok t' /\ getv t' k_row = Ok (VInt 3)).
Proof. repeat split; try (eexists; split; vm_compute; reflexivity). Qed.

(* ===================================================================================== derived processors *)

(* Sweeps, calibration and Processor.replace assign on a COPY of the processor they are given.  Under the copy policy
   the source states today (src_copy_policy / src_copy_sites are regenerated from Processor.__deepcopy__,
   ModelGroup.__deepcopy__, Processor.replace, create_new_processor, build_processors and update_processor on every
   run) no object is shared between a processor and its copies, and whatever is assigned through whatever key on a
   copy — successfully or not — the processor it was derived from keeps its whole settings tree: every setting, every
   disabled model, every nested argument, every detector sub-object.  The copy itself is a processor with the same
   tree, so C08_frame, C08_set_get & co. describe what happens to it. *)
Theorem C08_derived_isolation :
  forall via t k raw,
    alias_paths src_copy_policy (site_mode src_copy_sites via) t = [] /\
    orig_after src_copy_policy (site_mode src_copy_sites via) t k raw = t.
Proof. intros. apply derived_isolated; vm_compute; reflexivity. Qed.
Print Assumptions C08_derived_isolation.

(* what is at stake: as soon as a copy shares the object in which the walk of the key ends, the source sees the assignment *)
Theorem C08_shared_object_leaks :
  forall pol site t k raw t',
    shares_landing (alias_paths pol site t) k = true -> pset t k raw = Ok t' -> orig_after pol site t k raw = t'.
Proof. exact shared_landing_leaks. Qed.
Print Assumptions C08_shared_object_leaks.

(* non-vacuity: a policy that hands the models of a group over as they are shares exactly the models, and an
   assignment on the copy's `enabled` flag then flips the source's flag; the policy of the source shares nothing *)
Example C08_derived_nonvacuous :
  let leaky := mkCPolicy [("detector", Deep); ("pipeline", Deep)] [("models", Alias)] in
  alias_paths leaky Deep (ex_proc false) = [["pipeline"; "photon_collection"; "illumination"]] /\
  getv (orig_after leaky Deep (ex_proc false) ["pipeline"; "photon_collection"; "illumination"; "enabled"] (VBool true))
       ["pipeline"; "photon_collection"; "illumination"; "enabled"] = Ok (VBool true) /\
  orig_after leaky Deep (ex_proc false) k_row (VInt 9) = ex_proc false /\
  alias_paths src_copy_policy (site_mode src_copy_sites "replace") (ex_proc false) = [] /\
  (exists t', pset (ex_proc false) ["pipeline"; "photon_collection"; "illumination"; "enabled"] (VBool true) = Ok t' /\ t' <> ex_proc false).
Proof. repeat split; try (vm_compute; reflexivity). eexists; split; [vm_compute; reflexivity|]. vm_compute. discriminate. Qed.

(* ===================================================================================== unresolved keys *)

(* a key that has() does not confirm is refused by set(), whatever the value (repaired C08-F7a) *)
Theorem C08_unresolved_rejected :
  forall t k v, has t k <> Ok true -> exists e, set t k v = Raise e.
Proof. exact unresolved_rejected. Qed.
Print Assumptions C08_unresolved_rejected.

Example C08_unresolved_nonvacuous :
  (* an undeclared argument: refused (Arguments refuses unknown keys) *)
  has (ex_proc true) ["pipeline"; "photon_collection"; "illumination"; "arguments"; "nope"] = Ok false /\
  (* an unknown model: KeyError from has and from set *)
  has (ex_proc true) ["pipeline"; "photon_collection"; "nomodel"; "arguments"; "x"] = Raise KeyError /\
  set (ex_proc true) ["pipeline"; "photon_collection"; "nomodel"; "arguments"; "x"] (VInt 1) = Raise KeyError /\
  (* absent group *)
  has (ex_proc true) ["pipeline"; "phasing"; "m"; "enabled"] = Ok false /\
  (* a misspelt field / flag on an object with an open __dict__ *)
  has (ex_proc true) k_rwo = Ok false /\ has (ex_proc true) k_enabld = Ok false.
Proof. repeat split; vm_compute; reflexivity. Qed.

(* ===================================================================================== existing non-settings *)

(* A name can exist under a key — has() says True — without being a setting: a method or constant of the object's
   class (`...arguments.items`, `detector.geometry.to_dict`, `pipeline.MODEL_GROUPS`), a read-only property, an object.
   Whatever is not an assignable setting is refused, for every tree, key and value: nothing is created, no method is
   shadowed by an instance attribute. *)
Theorem C08_non_setting_refused : forall t k v, targets t k = false -> exists e, set t k v = Raise e.
Proof. exact non_setting_refused. Qed.
Print Assumptions C08_non_setting_refused.

(* in particular a name that is only a class-level attribute of the object the key walks to is no target,
   and Arguments refuses every name that is not a declared argument, the methods of the Mapping class included *)
Theorem C08_class_level_name_is_no_setting : forall k ms att,
  find is_prop att ms = None -> find is_inst att ms = None -> find is_item att ms = None ->
  tail_is_target (Node k ms) att = false.
Proof. exact class_only_not_target. Qed.
Print Assumptions C08_class_level_name_is_no_setting.

Theorem C08_undeclared_argument_refused : forall ms att v,
  find is_item att ms = None -> set (Node NArgs ms) [att] v = Raise AttributeError.
Proof. exact args_undeclared_refused. Qed.
Print Assumptions C08_undeclared_argument_refused.

(* tie: the only names Arguments.__setattr__ hands to the unmodified object.__setattr__ (src_args_passthrough,
   regenerated from the source on every run) are private, i.e. outside the public key space the model describes *)
Theorem C08_arguments_passthrough_private : forall n, In n src_args_passthrough -> private_name n = true.
Proof. apply all_private. vm_compute. reflexivity. Qed.
Print Assumptions C08_arguments_passthrough_private.

Example C08_non_setting_nonvacuous :
  let k_items := ["pipeline"; "photon_collection"; "illumination"; "arguments"; "items"] in
  has (ex_proc true) k_items = Ok true /\ targets (ex_proc true) k_items = false /\
  set (ex_proc true) k_items (VInt 5) = Raise AttributeError /\
  has (ex_proc true) ["detector"; "geometry"; "to_dict"] = Ok true /\
  set (ex_proc true) ["detector"; "geometry"; "to_dict"] (VInt 5) = Raise AttributeError /\
  has (ex_proc true) ["detector"; "geometry"; "shape"] = Ok true /\
  set (ex_proc true) ["detector"; "geometry"; "shape"] (VInt 5) = Raise AttributeError /\
  (* a declared argument called like a method of Mapping IS a setting *)
  targets (ex_proc true) k_values = true /\ private_name "_arguments" = true /\ private_name "values" = false.
Proof. repeat split; vm_compute; reflexivity. Qed.

(* has() is sound: whatever it confirms can be read, i.e. the whole path of the key exists — for every tree and key,
   private and dunder names included (repaired C08-has-none: when a component cannot be resolved the walk ends on None,
   and has() used to ask hasattr(None, <last component>), which is True for `__class__`, `__eq__`, `__doc__` ...) *)
Theorem C08_has_confirms_only_readable_paths : forall t k, has t k = Ok true -> exists v, getv t k = Ok v.
Proof. exact has_confirmed_is_readable. Qed.
Print Assumptions C08_has_confirms_only_readable_paths.

Example C08_has_sound_nonvacuous :
  let geo := Node (NObj true) (MCons "__class__" KClass (Leaf (VOpaque "method")) (MCons "row" (KProp true GAny) (Leaf (VInt 3)) MNil)) in
  let p := Node (NObj true) (MCons "__class__" KClass (Leaf (VOpaque "method"))
                            (MCons "detector" KInst (Node (NObj true) (MCons "geometry" (KProp false GAny) geo MNil)) MNil)) in
  has p ["detector"; "geometry"; "__class__"] = Ok true /\ getv p ["detector"; "geometry"; "__class__"] = Ok (VOpaque "method") /\
  has p ["detector"; "geomtry"; "__class__"] = Ok false /\ has p ["detecto"; "__class__"] = Ok false /\
  getv p ["detector"; "geomtry"; "__class__"] = Raise AttributeError /\
  set p ["detector"; "geomtry"; "__class__"] (VInt 1) = Raise AttributeError.
Proof. repeat split; vm_compute; reflexivity. Qed.

(* ===================================================================================== setter guards *)

(* The range guards of the property setters of Geometry / Characteristics / Environment / APDCharacteristics are
   regenerated from the source on every run (src_setter_guards); the settings trees of the correspondence take their
   guards from this table.  Every guarded setting still accepts some value (a guard that refuses everything would make
   the key unassignable), and an assignment that a guarded setter accepts passed its guard. *)
Theorem C08_setter_guards_satisfiable :
  forall c f g, In (c, f, g) src_setter_guards -> exists v, guard_check g v = None.
Proof. apply guards_inhabited_all. vm_compute. reflexivity. Qed.
Print Assumptions C08_setter_guards_satisfiable.

Theorem C08_guard_respected :
  forall k ms att g c v t',
    (k = NObj true \/ k = NObj false \/ k = NGroup) ->
    find is_prop att ms = Some (KProp true g, c) -> set (Node k ms) [att] v = Ok t' -> guard_check g v = None.
Proof. intros k ms att g c v t' Hk Hf Hs. eapply assign_respects_guard; eauto. Qed.
Print Assumptions C08_guard_respected.
(* (stated on a local table: the values of the regenerated table belong to the source, not to this file) *)
Example C08_guards_nonvacuous :
  let tbl := [("Environment", "temperature", GRange 0 1000 true false); ("Geometry", "row", GAbove 0 true)] in
  guard_check (guard_of tbl "Environment" "temperature") (VInt 0) = Some ValueError /\
  guard_check (guard_of tbl "Environment" "temperature") (VDec 5 (-1)) = None /\
  guard_check (guard_of tbl "Environment" "temperature") (VInt 1000) = None /\
  guard_check (guard_of tbl "Geometry" "row") (VStr "x") = Some TypeError /\
  guard_of tbl "Geometry" "nope" = GAny /\ src_setter_guards <> [].
Proof. repeat split; try (vm_compute; reflexivity). vm_compute. discriminate. Qed.

(* ===================================================================================== validate_steps *)

(* wherever the offending key stands in the list of steps, validation fails (before any pipeline runs) *)
Theorem C08_undeclared_or_disabled_is_error :
  forall t keys key,
    In key keys ->
    (has t (split_dots key) <> Ok true \/
     (is_pipeline_key (split_dots key) = true /\
      forall v, getv t (model_flag_key (split_dots key)) = Ok v -> truthy v = false)) ->
    exists e, validate_steps t keys = Some e.
Proof. exact undeclared_or_disabled_is_error. Qed.
Print Assumptions C08_undeclared_or_disabled_is_error.

Theorem C08_validated_keys_declared_and_enabled :
  forall t keys, validate_steps t keys = None ->
    forall key, In key keys ->
      has t (split_dots key) = Ok true /\
      (is_pipeline_key (split_dots key) = true ->
       exists v, getv t (model_flag_key (split_dots key)) = Ok v /\ truthy v = true).
Proof. exact validated_keys_declared_and_enabled. Qed.
Print Assumptions C08_validated_keys_declared_and_enabled.

(* every sweep key the specification admits — a declared setting or argument, of an ENABLED model if it is a pipeline
   key, the enabled flag itself included — is accepted (repaired C08-enabled-sweep) *)
Theorem C08_enabled_key_accepted :
  forall t key, spec_step_ok t key = true -> validate_steps t [key] = None.
Proof. exact admitted_key_accepted. Qed.
Print Assumptions C08_enabled_key_accepted.

Example C08_validate_nonvacuous :
  validate_steps (ex_proc true) ["detector.geometry.row"; "pipeline.photon_collection.illumination.arguments.level"] = None /\
  validate_steps (ex_proc false) ["detector.geometry.row"; "pipeline.photon_collection.illumination.arguments.level"] = Some ValueError /\
  validate_steps (ex_proc true) ["detector.geometry.row"; "pipeline.photon_collection.illumination.arguments.nope"] = Some KeyError /\
  validate_steps (ex_proc true) ["detector.geometry.rwo"] = Some KeyError /\
  spec_step_ok (ex_proc true) "pipeline.photon_collection.illumination.enabled" = true /\
  validate_steps (ex_proc true) ["pipeline.photon_collection.illumination.enabled"] = None /\
  validate_steps (ex_proc false) ["pipeline.photon_collection.illumination.enabled"] = Some ValueError /\
  model_flag_key (split_dots "pipeline.photon_collection.illumination.arguments.level") =
    ["pipeline"; "photon_collection"; "illumination"; "enabled"].
Proof. repeat split; vm_compute; reflexivity. Qed.

(* The `enabled` flag is a setting like any other: a configuration, a constructor, Processor.set or an override text
   ('1' -> the int 1) can leave any value there.  Two places read it: Observation.validate_steps (is the model a swept
   key addresses enabled?) and ModelGroup.__iter__ (which models run).  Their tests are regenerated from the source on
   every run (src_validate_flag_test, src_exec_flag_test).  They agree on EVERY value the flag can hold ... *)
Theorem C08_flag_readers_agree :
  forall v, flag_holds src_validate_flag_test v = flag_holds src_exec_flag_test v.
Proof. apply flag_tests_agree. vm_compute. reflexivity. Qed.
Print Assumptions C08_flag_readers_agree.

(* ... so every model addressed by a key of a sweep that validation accepts is executed when the pipelines run: an
   accepted sweep over an argument is never a silent no-op because its model is skipped.  (First premise of the lemma:
   the test validate_steps applies in the source is the truthiness test of the model's validate_steps.) *)
Theorem C08_accepted_sweep_model_executes :
  forall t keys key,
    validate_steps t keys = None -> In key keys -> is_pipeline_key (split_dots key) = true ->
    executes src_exec_flag_test t (split_dots key) = true.
Proof. apply (validated_model_executes src_validate_flag_test src_exec_flag_test); vm_compute; reflexivity. Qed.
Print Assumptions C08_accepted_sweep_model_executes.

(* contrapositive: a sweep over anything of a model that does not run is refused, wherever the key stands *)
Theorem C08_not_executed_model_is_refused :
  forall t keys key,
    In key keys -> is_pipeline_key (split_dots key) = true -> executes FTruthy t (split_dots key) = false ->
    exists e, validate_steps t keys = Some e.
Proof. exact not_executed_is_refused. Qed.
Print Assumptions C08_not_executed_model_is_refused.

(* what is at stake: the three tests are pairwise different, and with any executing reader other than validation's
   some accepted, specification-admitted sweep addresses a model that never runs *)
Theorem C08_flag_tests_distinct : forall a b, flagtest_eqb a b = false -> exists v, flag_holds a v <> flag_holds b v.
Proof. exact flag_tests_differ. Qed.
Print Assumptions C08_flag_tests_distinct.

Theorem C08_disagreeing_reader_is_silent_noop :
  forall fte, flagtest_eqb FTruthy fte = false ->
    exists t key, validate_steps t [key] = None /\ spec_step_ok t key = true /\
                  is_pipeline_key (split_dots key) = true /\ executes fte t (split_dots key) = false.
Proof. exact disagreeing_reader_noop. Qed.
Print Assumptions C08_disagreeing_reader_is_silent_noop.

Example C08_flag_nonvacuous :
  let key := "pipeline.photon_collection.illumination.arguments.level" in
  (* enabled: 1 (int) — validation accepts, the truthiness reader runs the model, an `is True` reader would skip it *)
  validate_steps (flag_proc (VInt 1)) [key] = None /\ executes FTruthy (flag_proc (VInt 1)) (split_dots key) = true /\
  executes FIsTrue (flag_proc (VInt 1)) (split_dots key) = false /\
  executes FEqTrue (flag_proc (VDec 5 (-1))) (split_dots key) = false /\
  validate_steps (flag_proc (VStr "yes")) [key] = None /\
  (* enabled: 0 / '' / None — refused, and not executed *)
  validate_steps (flag_proc (VInt 0)) [key] = Some ValueError /\ executes FTruthy (flag_proc (VInt 0)) (split_dots key) = false /\
  validate_steps (flag_proc (VStr "")) [key] = Some ValueError /\ validate_steps (flag_proc VNone) [key] = Some ValueError.
Proof. repeat split; vm_compute; reflexivity. Qed.

(* STILL OPEN (C08-validate-nonsetting): validate_steps relies on has(), which confirms anything that exists, so a
   swept key that names an object, a read-only property or a method is accepted; the assignment is refused later,
   when the first derived processor is built. *)
Definition C08_accepted_key_is_setting_full : Prop :=
  forall t key, validate_steps t [key] = None -> spec_step_ok t key = true.
Theorem C08_accepted_key_is_setting_refuted : ~ C08_accepted_key_is_setting_full.
Proof.
  intros H. specialize (H (ex_proc true) "detector.geometry.to_dict" eq_refl). vm_compute in H. discriminate.
Qed.
Print Assumptions C08_accepted_key_is_setting_refuted.

(* strongest true restriction: what validate_steps accepts is at least confirmed by has() and belongs to an enabled
   model — C08_validated_keys_declared_and_enabled above; and set() refuses it afterwards unless it is a setting: *)
Theorem C08_accepted_key_is_setting_partial :
  forall t key v t', validate_steps t [key] = None -> set t (split_dots key) v = Ok t' -> targets t (split_dots key) = true.
Proof. intros t key v t' _ Hs. exact (proj1 (frame _ _ _ _ Hs)). Qed.
Print Assumptions C08_accepted_key_is_setting_partial.

(* ===================================================================================== literal conversion *)

(* a scalar value rendered as the text a user writes for it — an integer, a decimal written mantissa-e-exponent, a
   boolean, None (repaired C08-literal-none), a bare word — is converted back to exactly that value *)
Theorem C08_literal_roundtrip :
  forall v, lit_wf v = true -> eval_entry (render_lit v) = Ok (lit_val v).
Proof. exact literal_roundtrip. Qed.
Print Assumptions C08_literal_roundtrip.

(* ... and so is every literal text WITH sequences: quoted strings, lists and tuples — nested to any depth — of
   integers, decimals, booleans, None and quoted strings, written the way Python prints them ("[1, 'a', (2, True)]",
   "(1,)", "[]"); inside a sequence a word must be quoted (a bare word there makes the whole text a string) *)
Theorem C08_literal_roundtrip_sequences :
  forall v, lval_wf false v = true -> eval_entry (render_lval v) = Ok (lval_val v).
Proof. exact literal_roundtrip_seq. Qed.
Print Assumptions C08_literal_roundtrip_sequences.

Example C08_literal_nonvacuous :
  lit_wf (LWord "foo") = true /\ lit_wf (LInt (-12)) = true /\ lit_wf (LDec (-25) (-2)) = true /\ lit_wf LNone = true /\
  render_lit (LDec (-25) (-2)) = "-25e-2" /\ render_lit (LInt 1200) = "1200" /\
  (let v := LL [LS (LInt 1); LQ (list_ascii_of_string "a b"); LT [LS (LDec 25 (-1)); LS (LBool true)]; LT [LS LNone]; LL []] in
   lval_wf false v = true /\ render_lval v = "[1, 'a b', (25e-1, True), (None,), []]" /\
   lval_val v = VList [VInt 1; VStr "a b"; VTuple [VDec 25 (-1); VBool true]; VTuple [VNone]; VList []]) /\
  lval_wf false (LL [LS (LWord "abc")]) = false /\
  map eval_entry ["1e3"; "007"; "-12"; "[1, 'a', (2.5, True)]"; "foo"; "'foo'"; "1.50"; "None"; "[1, abc]"] =
  [Ok (VDec 1 3); Ok (VStr "007"); Ok (VInt (-12)); Ok (VList [VInt 1; VStr "a"; VTuple [VDec 25 (-1); VBool true]]);
   Ok (VStr "foo"); Ok (VStr "foo"); Ok (VDec 150 (-2)); Ok VNone; Ok (VStr "[1, abc]")].
Proof. repeat split; vm_compute; reflexivity. Qed.
