(* C08 — a dotted parameter key addresses exactly one existing setting.
   Only statements here; the model is Model/Keys.v, the proofs are in Proofs/Keys*.v.
   A key is the list of its dot-separated components. *)
From Coq Require Import ZArith List Bool String.
From PyxelV Require Import Model.Keys Model.KeysWorld Proofs.Keys Proofs.KeysLit Proofs.KeysWorld.
From PyxelGen Require Import Gen_C08.
Import ListNotations.
Open Scope string_scope.
Open Scope list_scope.

(* ---- concrete trees used as witnesses / non-vacuity examples ---- *)
Definition ex_args : tree :=
  Node NArgs (MCons "values" KClass (Leaf (VOpaque "method"))
             (MCons "level" KItem (Leaf (VInt 1))
             (MCons "values" KItem (Leaf (VInt 3))
             (MCons "d" KItem (Node NDict (MCons "keys" KClass (Leaf (VOpaque "method")) (MCons "k" KItem (Leaf (VInt 1)) MNil))) MNil)))).
Definition ex_model (en : bool) : tree :=
  Node (NObj true) (MCons "name" (KProp false GAny) (Leaf (VStr "illumination"))
                   (MCons "arguments" (KProp false GAny) ex_args
                   (MCons "enabled" KInst (Leaf (VBool en)) MNil))).
Definition ex_geometry : tree :=
  Node (NObj true) (MCons "row" (KProp true (GAbove 0 true)) (Leaf (VInt 3))
                   (MCons "col" (KProp true (GAbove 0 true)) (Leaf (VInt 4))
                   (MCons "shape" (KProp false GAny) (Leaf (VTuple [VInt 3; VInt 4]))
                   (MCons "to_dict" KClass (Leaf (VOpaque "method")) MNil)))).
Definition ex_proc (en : bool) : tree :=
  Node (NObj true)
    (MCons "detector" KInst (Node (NObj true) (MCons "geometry" (KProp false GAny) ex_geometry MNil))
    (MCons "pipeline" KInst
       (Node (NObj true)
          (MCons "photon_collection" (KProp false GAny)
             (Node NGroup (MCons "models" KInst (Leaf (VOpaque "list")) (MCons "illumination" KItem (ex_model en) MNil)))
          (MCons "phasing" (KProp false GAny) (Leaf VNone) MNil))) MNil)).

Definition k_row := ["detector"; "geometry"; "row"].
Definition k_rwo := ["detector"; "geometry"; "rwo"].
Definition k_level := ["pipeline"; "photon_collection"; "illumination"; "arguments"; "level"].
Definition k_enabld := ["pipeline"; "photon_collection"; "illumination"; "enabld"].
Definition k_dict := ["pipeline"; "photon_collection"; "illumination"; "arguments"; "d"; "k"].
Definition k_values := ["pipeline"; "photon_collection"; "illumination"; "arguments"; "values"].

(* ===================================================================================== set then get *)

Definition C08_set_get_full : Prop :=
  forall t k v t', set t k v = Ok t' -> getv t' k = Ok v.

(* Processor.get is operator.attrgetter: an item of a dict-valued argument, which has()/set() accept, cannot be read *)
Theorem C08_set_get_refuted : ~ C08_set_get_full.
Proof.
  intros H. specialize (H (ex_proc true) k_dict (VInt 7) _ eq_refl). vm_compute in H. discriminate.
Qed.
Print Assumptions C08_set_get_refuted.

(* ... and an argument called like a method of the Arguments class reads back as the method *)
Theorem C08_set_get_refuted_shadowed_argument :
  exists t k v t', set t k v = Ok t' /\ getv t' k = Ok (VOpaque "method").
Proof. exists (ex_proc true), k_values, (VInt 7). eexists. split; vm_compute; reflexivity. Qed.
Print Assumptions C08_set_get_refuted_shadowed_argument.

(* strongest true restriction: wherever the walk of _get_obj_att and the walk of attrgetter agree
   (no dict crossed or addressed, argument name not hidden by a class attribute) *)
Theorem C08_set_get_partial :
  forall t k v t', set t k v = Ok t' -> attr_path t k = true -> getv t' k = Ok v.
Proof. exact set_get_partial. Qed.
Print Assumptions C08_set_get_partial.

Example C08_set_get_nonvacuous :
  attr_path (ex_proc true) k_level = true /\ (exists t', set (ex_proc true) k_level (VInt 9) = Ok t') /\
  attr_path (ex_proc true) k_row = true /\ (exists t', set (ex_proc true) k_row (VInt 9) = Ok t') /\
  attr_path (ex_proc true) k_rwo = true /\ (exists t', set (ex_proc true) k_rwo (VInt 9) = Ok t').
Proof. repeat split; try (eexists; vm_compute; reflexivity). Qed.

(* ===================================================================================== frame *)

Definition C08_frame_full : Prop :=
  forall t k v t', set t k v = Ok t' ->
    shape t' = shape t /\ forall k', k' <> k -> getv t' k' = getv t k'.

(* F7: a misspelt last component on an object with an open __dict__ creates a new attribute *)
Theorem C08_frame_refuted : ~ C08_frame_full.
Proof.
  intros H. destruct (H (ex_proc true) k_rwo (VInt 7) _ eq_refl) as [S _]. vm_compute in S. discriminate.
Qed.
Print Assumptions C08_frame_refuted.

Theorem C08_frame_refuted_enabld : exists t' , set (ex_proc true) k_enabld (VBool false) = Ok t' /\ shape t' <> shape (ex_proc true).
Proof. eexists. split; [vm_compute; reflexivity|]. vm_compute. discriminate. Qed.
Print Assumptions C08_frame_refuted_enabld.

(* a truncated key that names an object (has() = True) replaces the object: every setting below disappears *)
Theorem C08_frame_refuted_truncated :
  exists t', set (ex_proc true) ["detector"] (VInt 5) = Ok t' /\ has (ex_proc true) ["detector"] = Ok true /\
             getv (ex_proc true) k_row = Ok (VInt 3) /\ getv t' k_row = Raise AttributeError.
Proof. eexists. repeat split; vm_compute; reflexivity. Qed.
Print Assumptions C08_frame_refuted_truncated.

(* strongest true restriction: the key ends on an existing setting (a leaf held by a property with setter,
   an instance attribute, a dict item or a declared argument) *)
Theorem C08_frame_partial :
  forall t k v t', set t k v = Ok t' -> targets_setting t k = true ->
    shape t' = shape t /\ forall k', k' <> k -> getv t' k' = getv t k'.
Proof. exact frame_partial. Qed.
Print Assumptions C08_frame_partial.

Theorem C08_setting_is_confirmed : forall t k, targets_setting t k = true -> has t k = Ok true.
Proof. exact targets_setting_has. Qed.
Print Assumptions C08_setting_is_confirmed.

Example C08_frame_nonvacuous :
  targets_setting (ex_proc true) k_level = true /\ targets_setting (ex_proc true) k_row = true /\
  targets_setting (ex_proc true) k_dict = true /\ targets_setting (ex_proc true) k_values = true /\
  targets_setting (ex_proc true) ["pipeline"; "photon_collection"; "illumination"; "enabled"] = true /\
  targets_setting (ex_proc true) k_rwo = false /\ targets_setting (ex_proc true) ["detector"] = false /\
  (exists t', set (ex_proc true) k_level (VInt 9) = Ok t' /\ getv t' k_row = Ok (VInt 3)).
Proof. repeat split; try (eexists; split; vm_compute; reflexivity). Qed.

(* ===================================================================================== derived processors *)

(* Sweeps, calibration and Processor.replace assign on a COPY of the processor they are given.  Under the copy policy
   the source states today (src_copy_policy / src_copy_sites are regenerated from Processor.__deepcopy__,
   ModelGroup.__deepcopy__, Processor.replace, create_new_processor, build_processors and update_processor on every
   run) no object is shared between a processor and its copies, and whatever is assigned through whatever key on a
   copy — successfully or not — the processor it was derived from keeps its whole settings tree: every setting, every
   disabled model, every nested argument, every detector sub-object.  The copy itself is a processor with the same
   tree, so C08_frame_partial & co. describe what happens to it. *)
Theorem C08_derived_isolation :
  forall via t k raw,
    alias_paths src_copy_policy (site_mode src_copy_sites via) t = [] /\
    orig_after src_copy_policy (site_mode src_copy_sites via) t k raw = t.
Proof. intros. apply derived_isolated; vm_compute; reflexivity. Qed.
Print Assumptions C08_derived_isolation.

(* what is at stake: as soon as a copy shares the object in which the walk of the key ends, the source sees the assignment *)
Theorem C08_shared_object_leaks :
  forall pol site t k raw t',
    shares_landing (alias_paths pol site t) k = true -> pset t k raw = Ok t' -> orig_after pol site t k raw = t'.
Proof. exact shared_landing_leaks. Qed.
Print Assumptions C08_shared_object_leaks.

(* non-vacuity: a policy that hands the models of a group over as they are shares exactly the models, and an
   assignment on the copy's `enabled` flag then flips the source's flag; the policy of the source shares nothing *)
Example C08_derived_nonvacuous :
  let leaky := mkCPolicy [("detector", Deep); ("pipeline", Deep)] [("models", Alias)] in
  alias_paths leaky Deep (ex_proc false) = [["pipeline"; "photon_collection"; "illumination"]] /\
  getv (orig_after leaky Deep (ex_proc false) ["pipeline"; "photon_collection"; "illumination"; "enabled"] (VBool true))
       ["pipeline"; "photon_collection"; "illumination"; "enabled"] = Ok (VBool true) /\
  orig_after leaky Deep (ex_proc false) k_row (VInt 9) = ex_proc false /\
  alias_paths src_copy_policy (site_mode src_copy_sites "replace") (ex_proc false) = [] /\
  (exists t', pset (ex_proc false) ["pipeline"; "photon_collection"; "illumination"; "enabled"] (VBool true) = Ok t' /\ t' <> ex_proc false).
Proof. repeat split; try (vm_compute; reflexivity). eexists; split; [vm_compute; reflexivity|]. vm_compute. discriminate. Qed.

(* ===================================================================================== unresolved keys *)

Definition C08_unresolved_rejected_full : Prop :=
  forall t k v, has t k <> Ok true -> exists e, set t k v = Raise e.

Theorem C08_unresolved_rejected_refuted : ~ C08_unresolved_rejected_full.
Proof.
  intros H. destruct (H (ex_proc true) k_rwo (VInt 7)) as [e He]; [vm_compute; discriminate|].
  vm_compute in He. discriminate.
Qed.
Print Assumptions C08_unresolved_rejected_refuted.

(* strongest true restriction: unless the walk ends on an object with an open __dict__ ... *)
Theorem C08_unresolved_rejected_partial :
  forall t k v, has t k <> Ok true -> lands_open t k = false -> exists e, set t k v = Raise e.
Proof. exact unresolved_rejected_partial. Qed.
Print Assumptions C08_unresolved_rejected_partial.

(* ... and there the defect always happens: the unconfirmed name is accepted and the shape of the tree changes *)
Theorem C08_unresolved_on_open_object_creates :
  forall t k v, has t k = Ok false -> lands_open t k = true ->
    exists t', set t k v = Ok t' /\ shape t' <> shape t.
Proof. exact unresolved_on_open_creates. Qed.
Print Assumptions C08_unresolved_on_open_object_creates.

Example C08_unresolved_nonvacuous :
  (* an undeclared argument: refused (Arguments refuses unknown keys) *)
  has (ex_proc true) ["pipeline"; "photon_collection"; "illumination"; "arguments"; "nope"] = Ok false /\
  lands_open (ex_proc true) ["pipeline"; "photon_collection"; "illumination"; "arguments"; "nope"] = false /\
  (* an unknown model: KeyError from has and from set *)
  has (ex_proc true) ["pipeline"; "photon_collection"; "nomodel"; "arguments"; "x"] = Raise KeyError /\
  set (ex_proc true) ["pipeline"; "photon_collection"; "nomodel"; "arguments"; "x"] (VInt 1) = Raise KeyError /\
  (* absent group *)
  has (ex_proc true) ["pipeline"; "phasing"; "m"; "enabled"] = Ok false /\
  lands_open (ex_proc true) ["pipeline"; "phasing"; "m"; "enabled"] = false /\
  (* the defect *)
  has (ex_proc true) k_rwo = Ok false /\ lands_open (ex_proc true) k_rwo = true.
Proof. repeat split; vm_compute; reflexivity. Qed.

(* ===================================================================================== validate_steps *)

(* wherever the offending key stands in the list of steps, validation fails (before any pipeline runs) *)
Theorem C08_undeclared_or_disabled_is_error :
  forall t keys key,
    In key keys ->
    (has t (split_dots key) <> Ok true \/
     (contains "pipeline." key = true /\
      forall v, getv t (split_dots (model_prefix key ++ ".enabled")%string) = Ok v -> truthy v = false)) ->
    exists e, validate_steps t keys = Some e.
Proof. exact undeclared_or_disabled_is_error. Qed.
Print Assumptions C08_undeclared_or_disabled_is_error.

Theorem C08_validated_keys_declared_and_enabled :
  forall t keys, validate_steps t keys = None ->
    forall key, In key keys ->
      has t (split_dots key) = Ok true /\
      (contains "pipeline." key = true ->
       exists v, getv t (split_dots (model_prefix key ++ ".enabled")%string) = Ok v /\ truthy v = true).
Proof. exact validated_keys_declared_and_enabled. Qed.
Print Assumptions C08_validated_keys_declared_and_enabled.

Example C08_validate_nonvacuous :
  validate_steps (ex_proc true) ["detector.geometry.row"; "pipeline.photon_collection.illumination.arguments.level"] = None /\
  validate_steps (ex_proc false) ["detector.geometry.row"; "pipeline.photon_collection.illumination.arguments.level"] = Some ValueError /\
  validate_steps (ex_proc true) ["detector.geometry.row"; "pipeline.photon_collection.illumination.arguments.nope"] = Some KeyError /\
  validate_steps (ex_proc true) ["detector.geometry.rwo"] = Some KeyError /\
  model_prefix "pipeline.photon_collection.illumination.arguments.level" = "pipeline.photon_collection.illumination".
Proof. repeat split; vm_compute; reflexivity. Qed.

(* the slicing key[:key.find(".arguments")] drops the last character of a key without ".arguments":
   a sweep over the enabled flag itself of an ENABLED model is refused (with AttributeError) *)
Definition C08_enabled_key_accepted_full : Prop :=
  forall t key, spec_step_ok t key = true -> validate_steps t [key] = None.
Theorem C08_enabled_key_accepted_refuted : ~ C08_enabled_key_accepted_full.
Proof.
  intros H. specialize (H (ex_proc true) "pipeline.photon_collection.illumination.enabled" eq_refl).
  vm_compute in H. discriminate.
Qed.
Print Assumptions C08_enabled_key_accepted_refuted.

(* ===================================================================================== literal conversion *)

Definition C08_literal_roundtrip_full : Prop :=
  forall v, eval_entry (render_lit v) = Ok (lit_val v).

(* eval_entry("None") trips the assert instead of returning None *)
Theorem C08_literal_roundtrip_refuted : ~ C08_literal_roundtrip_full.
Proof. intros H. specialize (H LNone). vm_compute in H. discriminate. Qed.
Print Assumptions C08_literal_roundtrip_refuted.

Theorem C08_literal_roundtrip_partial :
  forall v, lit_ok v = true -> eval_entry (render_lit v) = Ok (lit_val v).
Proof. exact literal_roundtrip_partial. Qed.
Print Assumptions C08_literal_roundtrip_partial.

Example C08_literal_nonvacuous :
  lit_ok (LWord "foo") = true /\ lit_ok (LBool true) = true /\
  map eval_entry ["1e3"; "007"; "-12"; "[1, 'a', (2.5, True)]"; "foo"; "'foo'"; "1.50"] =
  [Ok (VDec 1 3); Ok (VStr "007"); Ok (VInt (-12)); Ok (VList [VInt 1; VStr "a"; VTuple [VDec 25 (-1); VBool true]]);
   Ok (VStr "foo"); Ok (VStr "foo"); Ok (VDec 150 (-2))].
Proof. repeat split; vm_compute; reflexivity. Qed.
