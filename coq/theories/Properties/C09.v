(* C09 — a failing model always fails the run, with its identity attached.
   Only statements here; proofs live in Proofs/Failure.v, the executable model in Model/Failure.v.

   Reading guide.  `beh` is what the user's model functions do: beh run step key = Some (class, payload)
   iff that call raises.  It is universally quantified, so the theorems cover every fault position,
   every class, and any number of faulting positions (the first one in execution order wins).
   `sched_*` is the flat list of calls a mode makes; "pre ++ fe :: post with nothing faulting in pre and
   fe faulting" says that fe is the fault.  No bound on runs, steps, groups, models.
   The class `c` ranges over ALL classes of the model, including those that are not `Exception`
   subclasses (KeyboardInterrupt, SystemExit, a custom BaseException): propagation, "no result" and "no
   later call" hold for them too; the identity notes are attached by `except Exception` handlers and are
   therefore stated for `is_exception c = true` (C09_base_exception_untouched says what happens otherwise).
   Round 2 (second half of the file): the public entry points around the running modes and every construct
   that can drop an exception on the paths from them to a model call. *)
From Coq Require Import List String Bool Arith.
From PyxelV Require Import Model.Failure Proofs.Failure Proofs.FailureEntry Proofs.FailureDebug.
From PyxelGen Require Import Gen_C09.
Import ListNotations.
Open Scope list_scope.

Definition is_fault (beh : behaviour) (evs pre : list event) (fe : event) (c : ecls) (p : string) : Prop :=
  (exists post, evs = pre ++ fe :: post) /\ (forall ev, In ev pre -> ev_fault beh ev = None)
  /\ ev_fault beh fe = Some (c, p).

(* ---- propagation: the driver raises, with the original class and message; never a result ---- *)

Theorem C09_propagates_exposure :
  forall beh r pl n pre fe c p,
    is_fault beh (sched_expo r pl n) pre fe c p ->
    exists e, fst (exposure beh r pl n) = Raise e /\ cls e = c /\ msg e = py_str c p.
Proof.
  intros beh r pl n pre fe c p H. apply first_fault_some in H.
  rewrite exposure_spec, H. eexists. split; [reflexivity|].
  unfold exn_of. split; [apply exn_of_fault_cls|apply exn_of_fault_msg].
Qed.
Print Assumptions C09_propagates_exposure.

Theorem C09_propagates :
  forall beh pl n runs pre fe c p,
    is_fault beh (sched_obs pl n runs) pre fe c p ->
    exists e, fst (obs_seq beh pl n runs) = Raise e /\ cls e = c /\ msg e = py_str c p.
Proof.
  intros beh pl n runs pre fe c p H. apply first_fault_some in H.
  destruct (obs_seq_fault beh pl n runs pre fe c p H) as (rpre & r & rpost & _ & _ & _ & E).
  rewrite E. eexists. split; [reflexivity|].
  unfold obs_exn, exn_of. rewrite annotate_cls, annotate_msg.
  split; [apply exn_of_fault_cls|apply exn_of_fault_msg].
Qed.
Print Assumptions C09_propagates.

(* conversely the drivers fail ONLY when a model fails (they are not trivially raising) *)
Theorem C09_no_fault_result :
  forall beh pl n runs,
    (forall ev, In ev (sched_obs pl n runs) -> ev_fault beh ev = None) ->
    obs_seq beh pl n runs = (Ok (map (fun r => (r_id r, seq 0 n)) runs), sched_obs pl n runs).
Proof. intros beh pl n runs H. apply obs_seq_ok. apply first_fault_none. exact H. Qed.
Print Assumptions C09_no_fault_result.

(* ---- identity: group and model of the faulting call, and every key: value of the faulting run ---- *)

Theorem C09_identity :
  forall beh pl n runs pre fe c p,
    is_fault beh (sched_obs pl n runs) pre fe c p -> is_exception c = true ->
    exists e rpre r rpost,
      fst (obs_seq beh pl n runs) = Raise e /\
      (* the run that was executing: the first one with a fault *)
      runs = rpre ++ r :: rpost /\ r_id r = ev_run fe /\
      (forall ev, In ev (sched_obs pl n rpre) -> ev_fault beh ev = None) /\
      In (note_text (ev_group fe) (ev_model fe) (ev_func fe)) (notes e) /\
      substrb (ev_group fe) (note_text (ev_group fe) (ev_model fe) (ev_func fe)) = true /\
      substrb (ev_model fe) (note_text (ev_group fe) (ev_model fe) (ev_func fe)) = true /\
      (forall kv, In kv (r_params r) ->
                  In (param_note kv) (notes e) /\ substrb (fst kv) (param_note kv) = true
                  /\ substrb (snd kv) (param_note kv) = true).
Proof.
  intros beh pl n runs pre fe c p H Hex. apply first_fault_some in H.
  destruct (obs_seq_fault beh pl n runs pre fe c p H) as (rpre & r & rpost & Hr & Hid & Hn & E).
  exists (obs_exn r fe c p), rpre, r, rpost. rewrite E.
  assert (Hnotes : notes (obs_exn r fe c p) =
                   [note_of_event fe] ++ obs_header :: map param_note (r_params r)).
  { unfold obs_exn, exn_of. rewrite annotate_notes_exc by (rewrite exn_of_fault_cls; exact Hex).
    rewrite exn_of_fault_notes by exact Hex. reflexivity. }
  split; [reflexivity|]. split; [exact Hr|]. split; [exact Hid|].
  split; [apply first_fault_none; exact Hn|].
  split; [rewrite Hnotes; simpl; left; reflexivity|].
  split; [apply note_mentions_group|]. split; [apply note_mentions_model|].
  intros kv Hkv. split.
  - rewrite Hnotes. simpl. right. right. apply in_map. exact Hkv.
  - split; [apply param_note_mentions_key|apply param_note_mentions_value].
Qed.
Print Assumptions C09_identity.

Theorem C09_identity_exposure :
  forall beh r pl n pre fe c p,
    is_fault beh (sched_expo r pl n) pre fe c p -> is_exception c = true ->
    exists e, fst (exposure beh r pl n) = Raise e /\
              notes e = [note_text (ev_group fe) (ev_model fe) (ev_func fe)].
Proof.
  intros beh r pl n pre fe c p H Hex. apply first_fault_some in H.
  rewrite exposure_spec, H. eexists. split; [reflexivity|].
  unfold exn_of. rewrite exn_of_fault_notes by exact Hex. reflexivity.
Qed.
Print Assumptions C09_identity_exposure.

(* a class that is not an Exception subclass (KeyboardInterrupt, SystemExit, ...) is not caught by the
   `except Exception` handlers: it reaches the caller exactly as raised - same object, nothing attached *)
Theorem C09_base_exception_untouched :
  forall beh pl n runs pre fe c p,
    is_fault beh (sched_obs pl n runs) pre fe c p -> is_exception c = false ->
    fst (obs_seq beh pl n runs) = Raise (raise_of c p) /\ snd (obs_seq beh pl n runs) = pre ++ [fe].
Proof.
  intros beh pl n runs pre fe c p H Hb. apply first_fault_some in H.
  destruct (obs_seq_fault beh pl n runs pre fe c p H) as (rpre & r & rpost & _ & _ & _ & E).
  rewrite E. simpl. split; [|reflexivity]. f_equal.
  unfold obs_exn, exn_of. rewrite exn_of_fault_base by exact Hb.
  apply annotate_base. exact Hb.
Qed.
Print Assumptions C09_base_exception_untouched.

(* ---- no later runs: the calls made are exactly those before the fault, then the faulting one ---- *)

Theorem C09_no_later_runs :
  forall beh pl n runs pre fe c p,
    is_fault beh (sched_obs pl n runs) pre fe c p ->
    snd (obs_seq beh pl n runs) = pre ++ [fe].
Proof.
  intros beh pl n runs pre fe c p H. apply first_fault_some in H.
  destruct (obs_seq_fault beh pl n runs pre fe c p H) as (rpre & r & rpost & _ & _ & _ & E).
  rewrite E. reflexivity.
Qed.
Print Assumptions C09_no_later_runs.

Theorem C09_no_later_steps :
  forall beh r pl n pre fe c p,
    is_fault beh (sched_expo r pl n) pre fe c p ->
    snd (exposure beh r pl n) = pre ++ [fe].
Proof.
  intros beh r pl n pre fe c p H. apply first_fault_some in H.
  rewrite exposure_spec, H. reflexivity.
Qed.
Print Assumptions C09_no_later_steps.

(* every behaviour either has no fault on the schedule or has a (unique first) fault: the two
   theorems above and C09_no_fault_result cover all cases *)
Theorem C09_fault_or_not :
  forall beh evs,
    (forall ev, In ev evs -> ev_fault beh ev = None) \/ exists pre fe c p, is_fault beh evs pre fe c p.
Proof.
  intros beh evs. destruct (first_fault beh evs) as [[[[pre fe] c] p]|] eqn:E.
  - right. exists pre, fe, c, p. apply first_fault_some. exact E.
  - left. apply first_fault_none. exact E.
Qed.
Print Assumptions C09_fault_or_not.

(* ---- parallel observation: under "compute forces every cell", a fault in any run surfaces when the
   tree is built (first run) or at the latest at load, as the exception of a faulting run's first
   fault (original class, message, group/model note); data come back only if no run faults ---- *)

Definition compute_forces_all (compute : list (res (list nat)) -> res (list (list nat))) : Prop :=
  (forall ds, compute (map Ok ds) = Ok ds) /\
  (forall ts e0, In (Raise e0) ts -> exists e, In (Raise e) ts /\ compute ts = Raise e).

Theorem C09_parallel_surfaces :
  forall compute, compute_forces_all compute ->
  forall beh pl n runs r pre0 fe0 c0 p0,
    In r runs -> is_fault beh (sched_expo (r_id r) pl n) pre0 fe0 c0 p0 ->
    exists r' pre fe c p,
      In r' runs /\ is_fault beh (sched_expo (r_id r') pl n) pre fe c p /\
      (* original class and message; the group/model note if c is an Exception subclass *)
      let e := exn_of_fault fe c p in
      obs_par beh compute pl n runs = ParBuildRaise e \/
      obs_par beh compute pl n runs = ParLoaded (Raise e).
Proof.
  intros compute [Hok Hraise] beh pl n runs r pre0 fe0 c0 p0 Hin H. apply first_fault_some in H.
  assert (Hne : first_fault beh (sched_expo (r_id r) pl n) <> None) by congruence.
  destruct (obs_par_surfaces beh compute Hraise pl n runs r Hin Hne)
    as (r' & pre & fe & c & p & Hin' & Hf & Hor).
  exists r', pre, fe, c, p. split; [exact Hin'|]. split; [apply first_fault_some; exact Hf|].
  exact Hor.
Qed.
Print Assumptions C09_parallel_surfaces.

Theorem C09_parallel_data_only_if_no_fault :
  forall compute, compute_forces_all compute ->
  forall beh pl n runs,
    (forall r ev, In r runs -> In ev (sched_expo (r_id r) pl n) -> ev_fault beh ev = None) ->
    obs_par beh compute pl n runs = ParLoaded (Ok (map (fun _ => seq 0 n) runs)).
Proof.
  intros compute [Hok Hraise] beh pl n runs H. apply (obs_par_ok beh compute Hok).
  intros r Hin. apply first_fault_none. intros ev Hev. exact (H r ev Hin Hev).
Qed.
Print Assumptions C09_parallel_data_only_if_no_fault.

(* ---- calibration: a faulting candidate in the initial population re-raises the original exception
   (plus the fitting note); in a later evolution the optimiser's exception carries the original
   message and the group/model note in its text (class not preserved: pygmo raises its own) ---- *)

Definition transport_keeps_text (transport : exn -> exn) : Prop :=
  (forall e, substrb (msg e) (msg (transport e)) = true) /\
  (forall e nt, In nt (notes e) -> substrb nt (msg (transport e)) = true).

Theorem C09_calibration_surfaces :
  forall compute transport, compute_forces_all compute -> transport_keeps_text transport ->
  forall beh pl n init gens cand,
    (In cand init \/ exists g, In g gens /\ In cand g) ->
    first_fault beh (sched_expo cand pl n) <> None ->
    exists e', calib beh compute transport pl n init gens = Raise e' /\
      exists cand' pre fe c p,
        first_fault beh (sched_expo cand' pl n) = Some (pre, fe, c, p) /\
        ((In cand' init /\
          (* StopIteration crosses the generator that creates the islands: CPython replaces it (PEP 479) *)
          (if is_stop_iteration c then cls e' = RuntimeError
           else cls e' = c /\ msg e' = py_str c p /\
                (is_exception c = true -> In (note_text (ev_group fe) (ev_model fe) (ev_func fe)) (notes e'))))
         \/
         (In cand' (List.concat gens) /\ substrb (py_str c p) (msg e') = true /\
          (is_exception c = true ->
           substrb (note_text (ev_group fe) (ev_model fe) (ev_func fe)) (msg e') = true))).
Proof.
  intros compute transport [Hok Hraise] [Hm Hn] beh pl n init gens cand Hw Hf.
  destruct (calib_surfaces beh compute Hok Hraise transport Hm Hn pl n init gens cand Hw Hf)
    as (e' & He & [Hs|Hs]); exists e'; (split; [exact He|]);
    destruct Hs as (cd & pre & fe & c & p & Hin & Hff & Hs); exists cd, pre, fe, c, p; (split; [exact Hff|]).
  - left. subst e'. split; [exact Hin|]. unfold exn_of, pep479.
    rewrite annotate_cls, exn_of_fault_cls.
    destruct (is_stop_iteration c); [reflexivity|].
    split; [rewrite annotate_cls; apply exn_of_fault_cls|].
    split; [rewrite annotate_msg; apply exn_of_fault_msg|].
    intros Hex. rewrite annotate_notes_exc by (rewrite exn_of_fault_cls; exact Hex).
    rewrite exn_of_fault_notes by exact Hex. simpl. left. reflexivity.
  - right. destruct Hs as [H1 H2]. auto.
Qed.
Print Assumptions C09_calibration_surfaces.

(* ---- the source, as it is now (Gen_C09 is regenerated on every run): every handler that can
   intercept a model's exception ends in a bare re-raise; the three note-adding handlers of the model
   exist; run_evolve calls wait_check() after evolve() ---- *)

Theorem C09_src_handlers_reraise : handlers_reraise src_handlers = true.
Proof. vm_compute. reflexivity. Qed.
Print Assumptions C09_src_handlers_reraise.

Theorem C09_src_note_handlers :
  has_note_handler src_handlers "ModelGroup.run" = true /\
  has_note_handler src_handlers "Observation._run_single_pipeline" = true /\
  has_note_handler src_handlers "ModelFittingDataTree.fitness" = true.
Proof. vm_compute. repeat split. Qed.
Print Assumptions C09_src_note_handlers.

Theorem C09_src_wait_check : src_wait_check = true.
Proof. vm_compute. reflexivity. Qed.
Print Assumptions C09_src_wait_check.

(* ================================================================================================ *)
(* Round 2: entry points, and every construct that can drop an exception between a model and the caller *)

(* ---- the source, as it is now: for EVERY public entry point that starts a simulation (pyxel.run_mode,
   pyxel.run(file), the `pyxel run` command, the methods Exposure.run_exposure / Observation.run_pipelines /
   Calibration.run_calibration, the deprecated pyxel.exposure_mode / observation_mode / calibration_mode) and EVERY
   running mode, every function on every path down to the model call exists, refers to the next one, and
   contains no `except` handler that does not end in a bare re-raise, no `finally` block that can be left by
   return/break/continue, no suppressing context manager ---- *)

Theorem C09_src_paths_ok : source_ok src_constructs src_refs = true.
Proof. vm_compute. reflexivity. Qed.
Print Assumptions C09_src_paths_ok.

(* the three note-adding handlers catch (at least) every Exception, add a note and re-raise *)
Theorem C09_src_note_handlers_scope :
  note_handler_ok src_constructs "ModelGroup.run" = true /\
  note_handler_ok src_constructs "Observation._run_single_pipeline" = true /\
  note_handler_ok src_constructs "ModelFittingDataTree.fitness" = true.
Proof. vm_compute. repeat split. Qed.
Print Assumptions C09_src_note_handlers_scope.

Theorem C09_src_wait_check_old : src_wait_check_old = true.
Proof. vm_compute. reflexivity. Qed.
Print Assumptions C09_src_wait_check_old.

(* ---- generic: a stack of constructs none of which can drop an exception hands an exception in flight to
   its caller - as the exception itself (class and message unchanged, notes only extended) or, when a clean-up
   step (`finally` body, __exit__) raised on top of it, in the __context__ chain of what surfaces.  For ANY
   run-time behaviour `ev` of the clean-up steps, any number of constructs. ---- *)

Theorem C09_constructs_propagate :
  forall A (dflt : A) ev ss i e ctx,
    forallb shape_propagates ss = true ->
    kept e (through_all dflt ev i ss (XRaise e ctx)).
Proof.
  intros A dflt ev ss i e ctx Hs. apply through_all_kept; [exact Hs|].
  simpl. left. apply same_exc_refl.
Qed.
Print Assumptions C09_constructs_propagate.

(* if no clean-up step raises, what surfaces IS the exception (and its context is untouched) *)
Theorem C09_constructs_propagate_quiet :
  forall A (dflt : A) ev ss i e ctx,
    forallb shape_propagates ss = true -> (forall j, env_cleanup ev j = None) ->
    exists e', through_all dflt ev i ss (XRaise e ctx : xres A) = XRaise e' ctx /\ same_exc e e'.
Proof. intros. apply through_all_quiet; assumption. Qed.
Print Assumptions C09_constructs_propagate_quiet.

(* the check is sharp: each of the three constructs, when it does not propagate, loses the exception *)
Theorem C09_swallowing_constructs_lose :
  forall A (dflt : A) e ctx,
    through dflt env_quiet 0 (SFinally true) (XRaise e ctx) = XOk dflt /\
    through dflt env_quiet 0 (SWith true) (XRaise e ctx) = XOk dflt /\
    through dflt env_quiet 0 (SExcept ScAll true false) (XRaise e ctx) = XOk dflt /\
    (is_exception (cls e) = true ->
     through dflt env_quiet 0 (SExcept ScException false false) (XRaise e ctx) = XOk dflt).
Proof.
  intros A dflt e ctx. repeat split.
  intros H. apply handler_exception_swallows. exact H.
Qed.
Print Assumptions C09_swallowing_constructs_lose.

(* ---- ...instantiated with the source: along every path of every entry point, in every running mode ---- *)

Theorem C09_entry_paths_propagate :
  forall p, In p all_entry_paths ->
  forall A (dflt : A) ev e ctx,
    kept e (through_all dflt ev 0 (stack_of src_constructs p) (XRaise e ctx)).
Proof.
  intros p Hp A dflt ev e ctx. apply C09_constructs_propagate.
  apply (source_ok_stack src_constructs src_refs p C09_src_paths_ok Hp).
Qed.
Print Assumptions C09_entry_paths_propagate.

Theorem C09_entry_paths_propagate_quiet :
  forall p, In p all_entry_paths ->
  forall A (dflt : A) ev e ctx, (forall j, env_cleanup ev j = None) ->
    exists e', through_all dflt ev 0 (stack_of src_constructs p) (XRaise e ctx : xres A) = XRaise e' ctx
               /\ same_exc e e'.
Proof.
  intros p Hp A dflt ev e ctx Hq. apply C09_constructs_propagate_quiet; [|exact Hq].
  apply (source_ok_stack src_constructs src_refs p C09_src_paths_ok Hp).
Qed.
Print Assumptions C09_entry_paths_propagate_quiet.

(* all 5 entry points x 4 modes are covered by all_entry_paths (nothing is vacuous) *)
Theorem C09_entry_paths_cover :
  forall ep m, In ep all_entries -> In m all_modes ->
    entry_paths ep m <> [] /\ forall p, In p (entry_paths ep m) -> In p all_entry_paths.
Proof.
  intros ep m Hep Hm. split.
  - destruct ep, m; discriminate.
  - intros p Hp. unfold all_entry_paths. apply in_flat_map. exists ep. split; [exact Hep|].
    apply in_flat_map. exists m. split; [exact Hm|exact Hp].
Qed.
Print Assumptions C09_entry_paths_cover.

(* ---- pyxel.run(file) and the `pyxel run` command, with or without an `outputs` section (`files`), with the
   constructs of run() as they are in the source now: a failing model makes both raise - never `None`, never
   the command's own "No output filename(s) generated" error - and, unless the clean-up of run()'s `finally`
   block fails too, what they raise is the model's exception with its class, message and notes; if the
   clean-up fails, the model's exception is the context of the clean-up's exception ---- *)

Theorem C09_run_file_propagates :
  forall beh pl n runs pre fe c p ss,
    lookup src_constructs "run.run" = Some ss ->
    is_fault beh (sched_obs pl n runs) pre fe c p ->
    exists e, fst (obs_seq beh pl n runs) = Raise e /\ cls e = c /\ msg e = py_str c p /\
      forall ev files,
        kept e (run_file ev ss files (fst (obs_seq beh pl n runs))) /\
        kept e (cli_run ev ss files (fst (obs_seq beh pl n runs))) /\
        ((forall j, env_cleanup ev j = None) ->
         exists e', same_exc e e' /\
                    run_file ev ss files (fst (obs_seq beh pl n runs)) = XRaise e' [] /\
                    cli_run ev ss files (fst (obs_seq beh pl n runs)) = XRaise e' []).
Proof.
  intros beh pl n runs pre fe c p ss Hss H.
  destruct (C09_propagates beh pl n runs pre fe c p H) as (e & He & Hc & Hm).
  exists e. split; [exact He|]. split; [exact Hc|]. split; [exact Hm|].
  assert (Hprop : forallb shape_propagates ss = true).
  { assert (Hp : In ("run.run" :: run_mode_wrap MObsSeq ++
                     ["Observation.run_pipelines"; "Observation._run_single_pipeline"] ++ path_pipeline)
                    all_entry_paths) by (vm_compute; tauto).
    destruct (source_ok_fn src_constructs src_refs _ "run.run" C09_src_paths_ok Hp (or_introl eq_refl))
      as (ss' & Hl & Hok). congruence. }
  intros ev files. rewrite He. split; [apply run_file_kept; exact Hprop|].
  split; [apply cli_run_kept; exact Hprop|].
  intros Hq. destruct (run_file_quiet (list (nat * list nat)) ev ss files e Hprop Hq) as (e' & Hr & Hs).
  exists e'. split; [exact Hs|]. split; [exact Hr|]. unfold cli_run. rewrite Hr. reflexivity.
Qed.
Print Assumptions C09_run_file_propagates.

(* without a failing model pyxel.run returns (None without outputs) and the command raises its own error
   exactly when there is nothing to report: the entry points are not trivially raising *)
Theorem C09_run_file_no_fault :
  forall beh pl n runs ss ev files,
    lookup src_constructs "run.run" = Some ss ->
    (forall ev', In ev' (sched_obs pl n runs) -> ev_fault beh ev' = None) ->
    (forall j, env_cleanup ev j = None) ->
    run_file ev ss files (fst (obs_seq beh pl n runs)) = XOk (if files then Some tt else None) /\
    cli_run ev ss files (fst (obs_seq beh pl n runs))
      = if files then XOk tt else XRaise (raise_of RuntimeError no_output_msg) [].
Proof.
  intros beh pl n runs ss ev files Hss Hnf Hq.
  rewrite (C09_no_fault_result beh pl n runs Hnf). simpl.
  assert (Hprop : forallb shape_propagates ss = true).
  { assert (Hp : In ("run.run" :: run_mode_wrap MObsSeq ++
                     ["Observation.run_pipelines"; "Observation._run_single_pipeline"] ++ path_pipeline)
                    all_entry_paths) by (vm_compute; tauto).
    destruct (source_ok_fn src_constructs src_refs _ "run.run" C09_src_paths_ok Hp (or_introl eq_refl))
      as (ss' & Hl & Hok). congruence. }
  split; [apply run_file_ok; assumption|apply cli_run_ok; assumption].
Qed.
Print Assumptions C09_run_file_no_fault.

(* ---- the deprecated pyxel.observation_mode ----
   Sequential (after fix-c09: the runs are evaluated by a list comprehension instead of list(map(..))): the
   first fault ends the observation with the exception exactly as it left ModelGroup.run - class, message,
   group/model note - and no later run is executed.  What the deprecated path does NOT do is attach the
   parameters of the failing run (finding C09-dep-params, open): the full statement is kept and refuted. *)

Theorem C09_deprecated_observation :
  forall beh pl n runs pre fe c p,
    is_fault beh (sched_obs pl n runs) pre fe c p ->
    obs_seq_old beh pl n runs = (Raise (exn_of_fault fe c p), pre ++ [fe]) /\
    cls (exn_of_fault fe c p) = c /\ msg (exn_of_fault fe c p) = py_str c p /\
    (is_exception c = true ->
     notes (exn_of_fault fe c p) = [note_text (ev_group fe) (ev_model fe) (ev_func fe)]).
Proof.
  intros beh pl n runs pre fe c p H. apply first_fault_some in H.
  split; [apply obs_seq_old_fault; exact H|].
  split; [apply exn_of_fault_cls|]. split; [apply exn_of_fault_msg|].
  intros Hex. apply exn_of_fault_notes. exact Hex.
Qed.
Print Assumptions C09_deprecated_observation.

Definition C09_deprecated_parameters_full : Prop :=
  forall beh pl n runs pre fe c p,
    is_fault beh (sched_obs pl n runs) pre fe c p -> is_exception c = true ->
    exists e, fst (obs_seq_old beh pl n runs) = Raise e /\
              forall kv, In kv (r_params (run_by_id runs (ev_run fe))) -> In (param_note kv) (notes e).

(* dask.bag (deprecated path with dask enabled): `compute_forces_all` is FALSE of it - a run whose model
   raises StopIteration is dropped silently (finding C09-dep-stopiter-dask, open); it holds for every list
   of cells in which no cell raises StopIteration *)
Definition C09_deprecated_bag_full : Prop := compute_forces_all compute_bag.

Theorem C09_deprecated_bag_refuted : ~ C09_deprecated_bag_full.
Proof.
  intros [_ H].
  destruct (H [Raise (raise_of StopIteration "x"); Ok [0]] (raise_of StopIteration "x") (or_introl eq_refl))
    as (e & _ & Hc).
  vm_compute in Hc. discriminate.
Qed.
Print Assumptions C09_deprecated_bag_refuted.

Theorem C09_deprecated_bag_partial :
  (forall ds, compute_bag (map Ok ds) = Ok ds) /\
  (forall ts e0, existsb bag_drops ts = false -> In (Raise e0) ts ->
                 exists e, In (Raise e) ts /\ compute_bag ts = Raise e).
Proof.
  split.
  - intros ds. rewrite compute_bag_no_stop; [apply compute_seq_ok|].
    induction ds as [|d ds IH]; [reflexivity|exact IH].
  - intros ts e0 Hn Hin. rewrite compute_bag_no_stop by exact Hn. apply (compute_seq_raise ts e0 Hin).
Qed.
Print Assumptions C09_deprecated_bag_partial.

(* ---- exposure with debug=True: after every model call the detector is captured, outside the try
   statement.  `cap` (universally quantified) says which captures fail.  Whatever comes first in execution order
   - a model that raises, or a capture that fails after a model that returned - ends the exposure: no result, no
   later call; a model's exception arrives with class, message and (Exception subclasses) its group/model note,
   the capture's exception exactly as raised.  Without capture failures debug mode behaves like normal mode. ---- *)

Theorem C09_debug_propagates :
  forall beh cap r pl n pre fe e,
    (exists post, sched_expo r pl n = pre ++ fe :: post) ->
    (forall ev, In ev pre -> ev_stop beh cap ev = None) -> ev_stop beh cap fe = Some e ->
    exposure_dbg beh cap r pl n = (Raise e, pre ++ [fe]) /\
    (forall c p, ev_fault beh fe = Some (c, p) -> e = exn_of_fault fe c p) /\
    (forall c p, ev_fault beh fe = None -> cap (ev_run fe) (ev_step fe) (ev_key fe) = Some (c, p) ->
                 e = raise_of c p).
Proof.
  intros beh cap r pl n pre fe e Hs Hpre Hfe.
  split; [rewrite exposure_dbg_spec, (first_stop_complete beh cap _ pre fe e Hs Hpre Hfe); reflexivity|].
  unfold ev_stop in Hfe. split.
  - intros c p Hf. rewrite Hf in Hfe. inversion Hfe. reflexivity.
  - intros c p Hf Hc. rewrite Hf, Hc in Hfe. inversion Hfe. reflexivity.
Qed.
Print Assumptions C09_debug_propagates.

Theorem C09_debug_no_stop_result :
  forall beh cap r pl n,
    (forall ev, In ev (sched_expo r pl n) -> ev_stop beh cap ev = None) ->
    exposure_dbg beh cap r pl n = (Ok (seq 0 n), sched_expo r pl n).
Proof.
  intros beh cap r pl n H. rewrite exposure_dbg_spec.
  rewrite (proj2 (first_stop_none beh cap _) H). reflexivity.
Qed.
Print Assumptions C09_debug_no_stop_result.

Theorem C09_debug_conservative :
  forall beh r pl n, exposure_dbg beh no_capture_failure r pl n = exposure beh r pl n.
Proof. exact exposure_dbg_no_cap. Qed.
Print Assumptions C09_debug_conservative.

(* ---- non-vacuity ---- *)

Definition ex_pl : list group :=
  [ {| g_name := "photon_collection";
       g_models := [ {| m_name := "a0"; m_func := "f"; m_enabled := true; m_key := 0 |};
                     {| m_name := "a1"; m_func := "f"; m_enabled := false; m_key := 1 |};
                     {| m_name := "a2"; m_func := "f"; m_enabled := true; m_key := 2 |} ] |};
    {| g_name := "charge_generation";
       g_models := [ {| m_name := "b0"; m_func := "f"; m_enabled := true; m_key := 3 |} ] |} ].
Definition ex_runs : list run :=
  [ {| r_id := 0; r_params := [("detector.environment.temperature", "100")] |};
    {| r_id := 1; r_params := [("detector.environment.temperature", "101")] |};
    {| r_id := 2; r_params := [("detector.environment.temperature", "102")] |} ].
(* run 1, step 1, model a2 raises KeyError('boom'); so would run 2 at step 0 *)
Definition ex_beh : behaviour := beh_of [(1, 1, 2, KeyError, "boom"); (2, 0, 0, ValueError, "later")].

Example C09_example_fault_exists :
  exists pre fe, is_fault ex_beh (sched_obs ex_pl 2 ex_runs) pre fe KeyError "boom"
                 /\ List.length pre = 10 /\ ev_run fe = 1 /\ ev_step fe = 1 /\ ev_model fe = "a2"%string.
Proof.
  destruct (first_fault ex_beh (sched_obs ex_pl 2 ex_runs)) as [[[[pre fe] c] p]|] eqn:E;
    vm_compute in E; [|discriminate].
  inversion E; subst. eexists. eexists. split; [apply first_fault_some; vm_compute; reflexivity|].
  repeat split.
Qed.

Example C09_example_run :
  obs_seq ex_beh ex_pl 2 ex_runs =
  (Raise {| cls := KeyError; msg := "'boom'";
            notes := ["This error is raised in group 'photon_collection' at model 'a2' (f).";
                      "This error occurred in 'Observation' mode with the following parameters:";
                      "  - 'detector.environment.temperature': 101"]%string |},
   map (fun x => match x with (r, s, g, m, k) =>
                   {| ev_run := r; ev_step := s; ev_group := g; ev_model := m; ev_func := "f"; ev_key := k |} end)
       [ (0, 0, "photon_collection", "a0", 0); (0, 0, "photon_collection", "a2", 2); (0, 0, "charge_generation", "b0", 3);
         (0, 1, "photon_collection", "a0", 0); (0, 1, "photon_collection", "a2", 2); (0, 1, "charge_generation", "b0", 3);
         (1, 0, "photon_collection", "a0", 0); (1, 0, "photon_collection", "a2", 2); (1, 0, "charge_generation", "b0", 3);
         (1, 1, "photon_collection", "a0", 0); (1, 1, "photon_collection", "a2", 2) ]%string).
Proof. vm_compute. reflexivity. Qed.

(* the hypotheses about dask and pygmo are satisfiable *)
Example C09_example_compute : compute_forces_all compute_seq.
Proof. split; [exact compute_seq_ok|exact compute_seq_raise]. Qed.

Example C09_example_transport : transport_keeps_text transport_model.
Proof. split; [exact transport_model_msg|exact transport_model_notes]. Qed.

Example C09_example_parallel :
  obs_par ex_beh compute_seq ex_pl 2 ex_runs =
  ParLoaded (Raise {| cls := KeyError; msg := "'boom'";
                      notes := ["This error is raised in group 'photon_collection' at model 'a2' (f)."]%string |}).
Proof. vm_compute. reflexivity. Qed.

Example C09_example_calibration_evolution :
  exists e', calib ex_beh compute_seq transport_model ex_pl 2 [0] [[1; 2]] = Raise e' /\
             cls e' = RuntimeError /\ substrb "'boom'" (msg e') = true /\
             substrb "photon_collection" (msg e') = true /\ substrb "'a2'" (msg e') = true.
Proof. eexists. split; [vm_compute; reflexivity|]. repeat split. Qed.

(* round 2 *)
Example C09_example_run_file_shapes : exists ss, lookup src_constructs "run.run" = Some ss /\ ss <> [].
Proof. eexists. split; [vm_compute; reflexivity|discriminate]. Qed.

(* a `return` in the `finally` block of pyxel.run: the failing run of C09_example_run returns None *)
Example C09_example_finally_return :
  run_file env_quiet [SExcept ScException false true; SFinally true] false (fst (obs_seq ex_beh ex_pl 2 ex_runs))
  = XOk None.
Proof. vm_compute. reflexivity. Qed.

(* the same run through the constructs as they are: KeyError('boom') with its three notes; and when moving
   the log file fails on top of it, the OSError surfaces with the KeyError as its context *)
Example C09_example_run_file :
  exists e', run_file env_quiet run_file_shapes true (fst (obs_seq ex_beh ex_pl 2 ex_runs)) = XRaise e' []
             /\ cls e' = KeyError /\ msg e' = "'boom'"%string /\ List.length (notes e') = 3.
Proof. eexists. split; [vm_compute; reflexivity|]. repeat split. Qed.

Example C09_example_cleanup_fails :
  exists e0, run_file env_cleanup_fails run_file_shapes true (fst (obs_seq ex_beh ex_pl 2 ex_runs))
             = XRaise (raise_of OSError cleanup_msg) [e0] /\ cls e0 = KeyError /\ msg e0 = "'boom'"%string.
Proof. eexists. split; [vm_compute; reflexivity|]. split; reflexivity. Qed.

(* KeyboardInterrupt raised by a model: no note, same trace *)
Example C09_example_keyboard_interrupt :
  obs_seq (beh_of [(1, 0, 0, KeyboardInterrupt, "stop")]) ex_pl 2 ex_runs =
  (Raise {| cls := KeyboardInterrupt; msg := "stop"; notes := [] |},
   map (fun x => match x with (r, s, g, m, k) =>
                   {| ev_run := r; ev_step := s; ev_group := g; ev_model := m; ev_func := "f"; ev_key := k |} end)
       [ (0, 0, "photon_collection", "a0", 0); (0, 0, "photon_collection", "a2", 2); (0, 0, "charge_generation", "b0", 3);
         (0, 1, "photon_collection", "a0", 0); (0, 1, "photon_collection", "a2", 2); (0, 1, "charge_generation", "b0", 3);
         (1, 0, "photon_collection", "a0", 0) ]%string).
Proof. vm_compute. reflexivity. Qed.

Example C09_example_paths : List.length all_entry_paths = 37 /\
  In ["run.run_config"; "run.run"; "run.run_mode"; "Observation.run_pipelines"; "Observation._run_single_pipeline";
      "exposure.run_pipeline"; "Processor.run_pipeline"; "ModelGroup.run"; "ModelFunction.__call__"]%string all_entry_paths.
Proof. split; [vm_compute; reflexivity|vm_compute; tauto]. Qed.

(* the deprecated sequential observation attaches no parameters: run 1 of C09_example_run fails with one note only *)
Theorem C09_deprecated_parameters_refuted : ~ C09_deprecated_parameters_full.
Proof.
  intros H.
  destruct C09_example_fault_exists as (pre & fe & Hf & _ & Hr & _ & _).
  destruct (H ex_beh ex_pl 2 ex_runs pre fe KeyError "boom"%string Hf eq_refl) as (e & He & Hk).
  rewrite Hr in Hk.
  specialize (Hk ("detector.environment.temperature", "101")%string (or_introl eq_refl)).
  vm_compute in He. inversion He; subst e. vm_compute in Hk.
  destruct Hk as [Hk|[]]. discriminate.
Qed.
Print Assumptions C09_deprecated_parameters_refuted.

Example C09_example_deprecated_run :
  fst (obs_seq_old ex_beh ex_pl 2 ex_runs) =
  Raise {| cls := KeyError; msg := "'boom'";
           notes := ["This error is raised in group 'photon_collection' at model 'a2' (f)."]%string |}.
Proof. vm_compute. reflexivity. Qed.

(* debug mode: model a0 returns at step 1 but the capture after it fails: nothing runs after it *)
Example C09_example_debug_capture :
  exposure_dbg (beh_of []) (fun r s k => if Nat.eqb s 1 && Nat.eqb k 0 then Some (ValueError, "capture") else None)
               0 ex_pl 2 =
  (Raise {| cls := ValueError; msg := "capture"; notes := [] |},
   map (fun x => match x with (r, s, g, m, k) =>
                   {| ev_run := r; ev_step := s; ev_group := g; ev_model := m; ev_func := "f"; ev_key := k |} end)
       [ (0, 0, "photon_collection", "a0", 0); (0, 0, "photon_collection", "a2", 2); (0, 0, "charge_generation", "b0", 3);
         (0, 1, "photon_collection", "a0", 0) ]%string).
Proof. vm_compute. reflexivity. Qed.
