(* C09 — a failing model always fails the run, with its identity attached.
   Only statements here; proofs live in Proofs/Failure.v, the executable model in Model/Failure.v.

   Reading guide.  `beh` is what the user's model functions do: beh run step key = Some (class, payload)
   iff that call raises.  It is universally quantified, so the theorems cover every fault position,
   every class, and any number of faulting positions (the first one in execution order wins).
   `sched_*` is the flat list of calls a mode makes; "pre ++ fe :: post with nothing faulting in pre and
   fe faulting" says that fe is the fault.  No bound on runs, steps, groups, models. *)
From Coq Require Import List String Bool Arith.
From PyxelV Require Import Model.Failure Proofs.Failure.
From PyxelGen Require Import Gen_C09.
Import ListNotations.
Open Scope list_scope.

Definition is_fault (beh : behaviour) (evs pre : list event) (fe : event) (c : ecls) (p : string) : Prop :=
  (exists post, evs = pre ++ fe :: post) /\ (forall ev, In ev pre -> ev_fault beh ev = None)
  /\ ev_fault beh fe = Some (c, p).

(* ---- propagation: the driver raises, with the original class and message; never a result ---- *)

Theorem C09_propagates_exposure :
  forall beh r pl n pre fe c p,
    is_fault beh (sched_expo r pl n) pre fe c p ->
    exists e, fst (exposure beh r pl n) = Raise e /\ cls e = c /\ msg e = py_str c p.
Proof.
  intros beh r pl n pre fe c p H. apply first_fault_some in H.
  rewrite exposure_spec, H. eexists. split; [reflexivity|]. split; reflexivity.
Qed.
Print Assumptions C09_propagates_exposure.

Theorem C09_propagates :
  forall beh pl n runs pre fe c p,
    is_fault beh (sched_obs pl n runs) pre fe c p ->
    exists e, fst (obs_seq beh pl n runs) = Raise e /\ cls e = c /\ msg e = py_str c p.
Proof.
  intros beh pl n runs pre fe c p H. apply first_fault_some in H.
  destruct (obs_seq_fault beh pl n runs pre fe c p H) as (rpre & r & rpost & _ & _ & _ & E).
  rewrite E. eexists. split; [reflexivity|]. split; reflexivity.
Qed.
Print Assumptions C09_propagates.

(* conversely the drivers fail ONLY when a model fails (they are not trivially raising) *)
Theorem C09_no_fault_result :
  forall beh pl n runs,
    (forall ev, In ev (sched_obs pl n runs) -> ev_fault beh ev = None) ->
    obs_seq beh pl n runs = (Ok (map (fun r => (r_id r, seq 0 n)) runs), sched_obs pl n runs).
Proof. intros beh pl n runs H. apply obs_seq_ok. apply first_fault_none. exact H. Qed.
Print Assumptions C09_no_fault_result.

(* ---- identity: group and model of the faulting call, and every key: value of the faulting run ---- *)

Theorem C09_identity :
  forall beh pl n runs pre fe c p,
    is_fault beh (sched_obs pl n runs) pre fe c p ->
    exists e rpre r rpost,
      fst (obs_seq beh pl n runs) = Raise e /\
      (* the run that was executing: the first one with a fault *)
      runs = rpre ++ r :: rpost /\ r_id r = ev_run fe /\
      (forall ev, In ev (sched_obs pl n rpre) -> ev_fault beh ev = None) /\
      In (note_text (ev_group fe) (ev_model fe) (ev_func fe)) (notes e) /\
      substrb (ev_group fe) (note_text (ev_group fe) (ev_model fe) (ev_func fe)) = true /\
      substrb (ev_model fe) (note_text (ev_group fe) (ev_model fe) (ev_func fe)) = true /\
      (forall kv, In kv (r_params r) ->
                  In (param_note kv) (notes e) /\ substrb (fst kv) (param_note kv) = true
                  /\ substrb (snd kv) (param_note kv) = true).
Proof.
  intros beh pl n runs pre fe c p H. apply first_fault_some in H.
  destruct (obs_seq_fault beh pl n runs pre fe c p H) as (rpre & r & rpost & Hr & Hid & Hn & E).
  exists (obs_exn r fe c p), rpre, r, rpost. rewrite E.
  split; [reflexivity|]. split; [exact Hr|]. split; [exact Hid|].
  split; [apply first_fault_none; exact Hn|].
  split; [simpl; left; reflexivity|].
  split; [apply note_mentions_group|]. split; [apply note_mentions_model|].
  intros kv Hkv. split.
  - simpl. right. right. apply in_map. exact Hkv.
  - split; [apply param_note_mentions_key|apply param_note_mentions_value].
Qed.
Print Assumptions C09_identity.

Theorem C09_identity_exposure :
  forall beh r pl n pre fe c p,
    is_fault beh (sched_expo r pl n) pre fe c p ->
    exists e, fst (exposure beh r pl n) = Raise e /\
              notes e = [note_text (ev_group fe) (ev_model fe) (ev_func fe)].
Proof.
  intros beh r pl n pre fe c p H. apply first_fault_some in H.
  rewrite exposure_spec, H. eexists. split; reflexivity.
Qed.
Print Assumptions C09_identity_exposure.

(* ---- no later runs: the calls made are exactly those before the fault, then the faulting one ---- *)

Theorem C09_no_later_runs :
  forall beh pl n runs pre fe c p,
    is_fault beh (sched_obs pl n runs) pre fe c p ->
    snd (obs_seq beh pl n runs) = pre ++ [fe].
Proof.
  intros beh pl n runs pre fe c p H. apply first_fault_some in H.
  destruct (obs_seq_fault beh pl n runs pre fe c p H) as (rpre & r & rpost & _ & _ & _ & E).
  rewrite E. reflexivity.
Qed.
Print Assumptions C09_no_later_runs.

Theorem C09_no_later_steps :
  forall beh r pl n pre fe c p,
    is_fault beh (sched_expo r pl n) pre fe c p ->
    snd (exposure beh r pl n) = pre ++ [fe].
Proof.
  intros beh r pl n pre fe c p H. apply first_fault_some in H.
  rewrite exposure_spec, H. reflexivity.
Qed.
Print Assumptions C09_no_later_steps.

(* every behaviour either has no fault on the schedule or has a (unique first) fault: the two
   theorems above and C09_no_fault_result cover all cases *)
Theorem C09_fault_or_not :
  forall beh evs,
    (forall ev, In ev evs -> ev_fault beh ev = None) \/ exists pre fe c p, is_fault beh evs pre fe c p.
Proof.
  intros beh evs. destruct (first_fault beh evs) as [[[[pre fe] c] p]|] eqn:E.
  - right. exists pre, fe, c, p. apply first_fault_some. exact E.
  - left. apply first_fault_none. exact E.
Qed.
Print Assumptions C09_fault_or_not.

(* ---- parallel observation: under "compute forces every cell", a fault in any run surfaces when the
   tree is built (first run) or at the latest at load, as the exception of a faulting run's first
   fault (original class, message, group/model note); data come back only if no run faults ---- *)

Definition compute_forces_all (compute : list (res (list nat)) -> res (list (list nat))) : Prop :=
  (forall ds, compute (map Ok ds) = Ok ds) /\
  (forall ts e0, In (Raise e0) ts -> exists e, In (Raise e) ts /\ compute ts = Raise e).

Theorem C09_parallel_surfaces :
  forall compute, compute_forces_all compute ->
  forall beh pl n runs r pre0 fe0 c0 p0,
    In r runs -> is_fault beh (sched_expo (r_id r) pl n) pre0 fe0 c0 p0 ->
    exists r' pre fe c p,
      In r' runs /\ is_fault beh (sched_expo (r_id r') pl n) pre fe c p /\
      let e := {| cls := c; msg := py_str c p;
                  notes := [note_text (ev_group fe) (ev_model fe) (ev_func fe)] |} in
      obs_par beh compute pl n runs = ParBuildRaise e \/
      obs_par beh compute pl n runs = ParLoaded (Raise e).
Proof.
  intros compute [Hok Hraise] beh pl n runs r pre0 fe0 c0 p0 Hin H. apply first_fault_some in H.
  assert (Hne : first_fault beh (sched_expo (r_id r) pl n) <> None) by congruence.
  destruct (obs_par_surfaces beh compute Hraise pl n runs r Hin Hne)
    as (r' & pre & fe & c & p & Hin' & Hf & Hor).
  exists r', pre, fe, c, p. split; [exact Hin'|]. split; [apply first_fault_some; exact Hf|].
  exact Hor.
Qed.
Print Assumptions C09_parallel_surfaces.

Theorem C09_parallel_data_only_if_no_fault :
  forall compute, compute_forces_all compute ->
  forall beh pl n runs,
    (forall r ev, In r runs -> In ev (sched_expo (r_id r) pl n) -> ev_fault beh ev = None) ->
    obs_par beh compute pl n runs = ParLoaded (Ok (map (fun _ => seq 0 n) runs)).
Proof.
  intros compute [Hok Hraise] beh pl n runs H. apply (obs_par_ok beh compute Hok).
  intros r Hin. apply first_fault_none. intros ev Hev. exact (H r ev Hin Hev).
Qed.
Print Assumptions C09_parallel_data_only_if_no_fault.

(* ---- calibration: a faulting candidate in the initial population re-raises the original exception
   (plus the fitting note); in a later evolution the optimiser's exception carries the original
   message and the group/model note in its text (class not preserved: pygmo raises its own) ---- *)

Definition transport_keeps_text (transport : exn -> exn) : Prop :=
  (forall e, substrb (msg e) (msg (transport e)) = true) /\
  (forall e nt, In nt (notes e) -> substrb nt (msg (transport e)) = true).

Theorem C09_calibration_surfaces :
  forall compute transport, compute_forces_all compute -> transport_keeps_text transport ->
  forall beh pl n init gens cand,
    (In cand init \/ exists g, In g gens /\ In cand g) ->
    first_fault beh (sched_expo cand pl n) <> None ->
    exists e', calib beh compute transport pl n init gens = Raise e' /\
      exists cand' pre fe c p,
        first_fault beh (sched_expo cand' pl n) = Some (pre, fe, c, p) /\
        ((In cand' init /\ cls e' = c /\ msg e' = py_str c p /\
          In (note_text (ev_group fe) (ev_model fe) (ev_func fe)) (notes e'))
         \/
         (In cand' (List.concat gens) /\ substrb (py_str c p) (msg e') = true /\
          substrb (note_text (ev_group fe) (ev_model fe) (ev_func fe)) (msg e') = true)).
Proof.
  intros compute transport [Hok Hraise] [Hm Hn] beh pl n init gens cand Hw Hf.
  destruct (calib_surfaces beh compute Hok Hraise transport Hm Hn pl n init gens cand Hw Hf)
    as (e' & He & [Hs|Hs]); exists e'; (split; [exact He|]);
    destruct Hs as (cd & pre & fe & c & p & Hin & Hff & Hs); exists cd, pre, fe, c, p; (split; [exact Hff|]).
  - left. subst e'. split; [exact Hin|]. split; [reflexivity|]. split; [reflexivity|].
    simpl. left. reflexivity.
  - right. destruct Hs as [H1 H2]. auto.
Qed.
Print Assumptions C09_calibration_surfaces.

(* ---- the source, as it is now (Gen_C09 is regenerated on every run): every handler that can
   intercept a model's exception ends in a bare re-raise; the three note-adding handlers of the model
   exist; run_evolve calls wait_check() after evolve() ---- *)

Theorem C09_src_handlers_reraise : handlers_reraise src_handlers = true.
Proof. vm_compute. reflexivity. Qed.
Print Assumptions C09_src_handlers_reraise.

Theorem C09_src_note_handlers :
  has_note_handler src_handlers "ModelGroup.run" = true /\
  has_note_handler src_handlers "Observation._run_single_pipeline" = true /\
  has_note_handler src_handlers "ModelFittingDataTree.fitness" = true.
Proof. vm_compute. repeat split. Qed.
Print Assumptions C09_src_note_handlers.

Theorem C09_src_wait_check : src_wait_check = true.
Proof. vm_compute. reflexivity. Qed.
Print Assumptions C09_src_wait_check.

(* ---- non-vacuity ---- *)

Definition ex_pl : list group :=
  [ {| g_name := "photon_collection";
       g_models := [ {| m_name := "a0"; m_func := "f"; m_enabled := true; m_key := 0 |};
                     {| m_name := "a1"; m_func := "f"; m_enabled := false; m_key := 1 |};
                     {| m_name := "a2"; m_func := "f"; m_enabled := true; m_key := 2 |} ] |};
    {| g_name := "charge_generation";
       g_models := [ {| m_name := "b0"; m_func := "f"; m_enabled := true; m_key := 3 |} ] |} ].
Definition ex_runs : list run :=
  [ {| r_id := 0; r_params := [("detector.environment.temperature", "100")] |};
    {| r_id := 1; r_params := [("detector.environment.temperature", "101")] |};
    {| r_id := 2; r_params := [("detector.environment.temperature", "102")] |} ].
(* run 1, step 1, model a2 raises KeyError('boom'); so would run 2 at step 0 *)
Definition ex_beh : behaviour := beh_of [(1, 1, 2, KeyError, "boom"); (2, 0, 0, ValueError, "later")].

Example C09_example_fault_exists :
  exists pre fe, is_fault ex_beh (sched_obs ex_pl 2 ex_runs) pre fe KeyError "boom"
                 /\ List.length pre = 10 /\ ev_run fe = 1 /\ ev_step fe = 1 /\ ev_model fe = "a2"%string.
Proof.
  destruct (first_fault ex_beh (sched_obs ex_pl 2 ex_runs)) as [[[[pre fe] c] p]|] eqn:E;
    vm_compute in E; [|discriminate].
  inversion E; subst. eexists. eexists. split; [apply first_fault_some; vm_compute; reflexivity|].
  repeat split.
Qed.

Example C09_example_run :
  obs_seq ex_beh ex_pl 2 ex_runs =
  (Raise {| cls := KeyError; msg := "'boom'";
            notes := ["This error is raised in group 'photon_collection' at model 'a2' (f).";
                      "This error occurred in 'Observation' mode with the following parameters:";
                      "  - 'detector.environment.temperature': 101"]%string |},
   map (fun x => match x with (r, s, g, m, k) =>
                   {| ev_run := r; ev_step := s; ev_group := g; ev_model := m; ev_func := "f"; ev_key := k |} end)
       [ (0, 0, "photon_collection", "a0", 0); (0, 0, "photon_collection", "a2", 2); (0, 0, "charge_generation", "b0", 3);
         (0, 1, "photon_collection", "a0", 0); (0, 1, "photon_collection", "a2", 2); (0, 1, "charge_generation", "b0", 3);
         (1, 0, "photon_collection", "a0", 0); (1, 0, "photon_collection", "a2", 2); (1, 0, "charge_generation", "b0", 3);
         (1, 1, "photon_collection", "a0", 0); (1, 1, "photon_collection", "a2", 2) ]%string).
Proof. vm_compute. reflexivity. Qed.

(* the hypotheses about dask and pygmo are satisfiable *)
Example C09_example_compute : compute_forces_all compute_seq.
Proof. split; [exact compute_seq_ok|exact compute_seq_raise]. Qed.

Example C09_example_transport : transport_keeps_text transport_model.
Proof. split; [exact transport_model_msg|exact transport_model_notes]. Qed.

Example C09_example_parallel :
  obs_par ex_beh compute_seq ex_pl 2 ex_runs =
  ParLoaded (Raise {| cls := KeyError; msg := "'boom'";
                      notes := ["This error is raised in group 'photon_collection' at model 'a2' (f)."]%string |}).
Proof. vm_compute. reflexivity. Qed.

Example C09_example_calibration_evolution :
  exists e', calib ex_beh compute_seq transport_model ex_pl 2 [0] [[1; 2]] = Raise e' /\
             cls e' = RuntimeError /\ substrb "'boom'" (msg e') = true /\
             substrb "photon_collection" (msg e') = true /\ substrb "'a2'" (msg e') = true.
Proof. eexists. split; [vm_compute; reflexivity|]. repeat split. Qed.
