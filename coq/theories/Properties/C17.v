(* C17 — splitting an exposure into more readouts does not change collected charge.
   Only statements here; the model is Model/Flux.v, the proofs are in Proofs/Flux.v.
   Everything is stated for ONE pixel; the listed models act element-wise, so a detector is a list of
   such pixels (that the real models are element-wise with the stated rate is what the correspondence
   leg of ./check C17 establishes against /repo on every run).
   Quantifiers are unbounded: any number of readouts, any rational times, any number of models. *)
From Coq Require Import QArith List Bool.
From Coq Require Import String.
From PyxelV Require Import Model.Flux Proofs.Flux Model.FluxExpr Proofs.FluxExpr Model.FluxDet Proofs.FluxDet.
From PyxelGen Require Import Gen_C17.
Import ListNotations.
Open Scope Q_scope.

(* ---- calculate_steps: the steps of any schedule sum to (end - start) *)
Theorem C17_steps_sum_to_interval :
  forall (ts : list Q) (start : Q), qsum (diffs start ts) == last ts start - start.
Proof. exact diffs_telescope. Qed.
Print Assumptions C17_steps_sum_to_interval.

(* ---- non-destructive mode: for every well-formed pipeline of flux-integrating models (any number of
   photon-rate models, expectation-value conversions, charge-rate models, one simple collection) and
   any two accepted schedules with the same start and the same last time, the final pixel charge is
   (total rate) * (t_end - start) and therefore the same for both schedules. *)
Theorem C17_partition_independent :
  forall (ops : list mop) (start : Q) (ts1 ts2 : list Q) (tr1 tr2 : list st),
  wf_ops ops = true ->
  run_exposure true ops start ts1 = Some tr1 ->
  run_exposure true ops start ts2 = Some tr2 ->
  last ts1 start == last ts2 start ->
  pixel (last tr1 st0) == Ktot ops * (last ts1 start - start) /\
  pixel (last tr1 st0) == pixel (last tr2 st0).
Proof. exact partition_independent. Qed.
Print Assumptions C17_partition_independent.

(* ---- stronger: EVERY readout i of a non-destructive exposure holds (total rate) * (t_i - start) *)
Theorem C17_nondestructive_every_readout :
  forall (ops : list mop) (start : Q) (ts : list Q) (tr : list st),
  wf_ops ops = true -> run_exposure true ops start ts = Some tr ->
  Forall2 Qeq (map pixel tr) (nd_closed (Ktot ops) start ts).
Proof. exact nd_every_readout. Qed.
Print Assumptions C17_nondestructive_every_readout.

(* ---- destructive mode: frame i = (total rate) * (t_i - t_(i-1)), and a schedule (any start) whose
   every interval is c times the corresponding interval yields frames that are c times the frames *)
Theorem C17_destructive_proportional :
  forall (ops : list mop) (start : Q) (ts : list Q) (tr : list st),
  wf_ops ops = true -> run_exposure false ops start ts = Some tr ->
  Forall2 Qeq (map pixel tr) (d_closed (Ktot ops) start ts) /\
  forall (c start' : Q) (ts' : list Q) (tr' : list st),
    run_exposure false ops start' ts' = Some tr' ->
    Forall2 (fun d' d => d' == c * d) (diffs start' ts') (diffs start ts) ->
    Forall2 (fun p' p => p' == c * p) (map pixel tr') (map pixel tr).
Proof. exact destructive_proportional. Qed.
Print Assumptions C17_destructive_proportional.

(* ---- the accepted schedules are exactly: non-empty, first time non-zero, all steps positive
   (start < t_0 < t_1 < ...); everything else is refused before any model runs *)
Theorem C17_valid_schedule_meaning :
  forall (start : Q) (ts : list Q),
  valid_schedule start ts = true <->
  (exists t0 r, ts = t0 :: r /\ ~ t0 == 0) /\ Forall (fun d => 0 < d) (diffs start ts).
Proof. exact valid_schedule_meaning. Qed.
Print Assumptions C17_valid_schedule_meaning.

Theorem C17_invalid_schedule_refused :
  forall (nd : bool) (ops : list mop) (start : Q) (ts : list Q),
  valid_schedule start ts = false -> run_exposure nd ops start ts = None.
Proof. exact invalid_schedule_refused. Qed.
Print Assumptions C17_invalid_schedule_refused.

(* ---- the executable specification that judges the implementation's observed pixel values inside Coq
   (exp_spec, tolerance 0) is the right-hand side of the two theorems above, and the tolerance-0
   comparison is equality of rationals *)
Theorem C17_spec_is_theorem_rhs :
  forall (nd : bool) (ops : list mop) (start : Q) (ts : list Q) (tr : list st),
  wf_ops ops = true -> run_exposure nd ops start ts = Some tr ->
  close_list 0 (if nd then nd_closed (Ktot ops) start ts else d_closed (Ktot ops) start ts) (map pixel tr) = true.
Proof. exact exp_spec_sound_for_model. Qed.
Print Assumptions C17_spec_is_theorem_rhs.

Theorem C17_exact_comparison : forall a b : Q, close 0 a b = true <-> a == b.
Proof. exact close_zero_iff. Qed.
Print Assumptions C17_exact_comparison.

(* ---- non-vacuity: an ordinary pipeline (two illuminations, QE 3/4, a dark current, a loaded charge
   profile, simple collection) and two partitions of [1/4, 3] into 3 and 1 readouts meet every
   hypothesis, and the conclusion is not trivial (rate 73/4, final charge 803/16) *)
Definition ex_ops : list mop :=
  [PhotonRate 16; PhotonRate (5 # 2); Convert (3 # 4); ChargeRate (3 # 8); ChargeRate 4; Collect].

Example C17_hyps_satisfiable :
  wf_ops ex_ops = true /\ Ktot ex_ops == 73 # 4 /\
  valid_schedule (1 # 4) [1 # 2; 1; 3] = true /\ valid_schedule (1 # 4) [3] = true /\
  option_map (map (fun s => Qred (pixel s))) (run_exposure true ex_ops (1 # 4) [1 # 2; 1; 3])
    = Some [73 # 16; 219 # 16; 803 # 16] /\
  option_map (map (fun s => Qred (pixel s))) (run_exposure true ex_ops (1 # 4) [3]) = Some [803 # 16] /\
  option_map (map (fun s => Qred (pixel s))) (run_exposure false ex_ops (1 # 4) [1 # 2; 1; 3])
    = Some [73 # 16; 73 # 8; 73 # 2].
Proof. vm_compute. repeat split; reflexivity. Qed.

(* the well-formedness hypothesis matters: collecting before converting loses the photo-electrons,
   and the schedule guard matters: a first time of 0, a start at/after the first time, or a repeated
   time is refused *)
Example C17_hyps_needed :
  wf_ops [PhotonRate 16; Collect; Convert (3 # 4)] = false /\
  option_map (map (fun s => Qred (pixel s))) (run_exposure true [PhotonRate 16; Collect; Convert (3 # 4)] 0 [1])
    = Some [0] /\
  valid_schedule (-1) [0; 1] = false /\ valid_schedule 1 [1; 2] = false /\
  valid_schedule 0 [1; 1] = false /\ valid_schedule 0 [] = false /\ valid_schedule (-2) [-1; 1] = true.
Proof. vm_compute. repeat split; reflexivity. Qed.

(* ==== the tie to the source: Gen_C17.v is regenerated on every run by translator/c17.py ==================

   ---- every function under pyxel/models that reads the exposure clock (time_step, time, absolute_time,
   is_first_readout, pipeline_count, ...) or takes a time_scale is classified: time-integrating (then it
   is exercised by the correspondence leg, and has rows in rate_table if it is expression-shaped) or
   excluded with a reason; an integrating model is never also excluded *)
Theorem C17_time_readers_classified :
  readers_classified time_readers integrating_models excluded_models = true
  /\ expr_models_covered rate_table expr_models = true
  /\ forallb (fun m => mem_str m integrating_models) expr_models = true.
Proof. vm_compute. repeat split; reflexivity. Qed.
Print Assumptions C17_time_readers_classified.

(* ---- for every option branch of every expression-shaped time-integrating model that draws no random
   numbers, the quantity the source adds to the detector bucket is (its value at unit time step) * time_step,
   for all values of all arguments and detector attributes: no branch forgets, squares, or replaces the step *)
Theorem C17_rate_rows_linear :
  forall r, In r rate_table -> has_random (rr_expr r) = false ->
  forall (env : string -> Q) (step : Q), eval env step (rr_expr r) == rate_of env r * step.
Proof. apply rows_linear. vm_compute. reflexivity. Qed.
Print Assumptions C17_rate_rows_linear.

(* ---- hence the per-model form of the property: one call with step s1 + s2 adds what two calls with s1 and s2 add *)
Theorem C17_rate_rows_split_additive :
  forall r, In r rate_table -> has_random (rr_expr r) = false ->
  forall (env : string -> Q) (s1 s2 : Q),
  eval env (s1 + s2) (rr_expr r) == eval env s1 (rr_expr r) + eval env s2 (rr_expr r).
Proof. apply rows_split_additive. vm_compute. reflexivity. Qed.
Print Assumptions C17_rate_rows_split_additive.

(* ---- and each such row IS a rate op of the exposure model above (PhotonRate / ChargeRate with the row's
   value at unit step as rate): the theorems about pipelines of mop apply to the source's expressions *)
Theorem C17_rate_rows_are_model_ops :
  forall r, In r rate_table -> has_random (rr_expr r) = false ->
  forall (env : string -> Q) (step : Q) (s : st),
  match rr_sink r with
  | SPhoton => let s' := apply_op step s (PhotonRate (rate_of env r)) in
               photon s' == photon s + eval env step (rr_expr r) /\ charge s' = charge s /\ pixel s' = pixel s
  | SCharge => let s' := apply_op step s (ChargeRate (rate_of env r)) in
               charge s' == charge s + eval env step (rr_expr r) /\ photon s' = photon s /\ pixel s' = pixel s
  end.
Proof. apply rows_are_rate_ops. vm_compute. reflexivity. Qed.
Print Assumptions C17_rate_rows_are_model_ops.

(* ---- the refusals of Readout.__init__ found in the source accept exactly the schedules of valid_schedule
   (used by every theorem above): non-empty, first time non-zero, start < first time, strictly increasing *)
Theorem C17_readout_guards_are_valid_schedule :
  forall (start : Q) (ts : list Q),
  accepted readout_empty_refused readout_guards start ts = valid_schedule start ts.
Proof. apply accepted_is_valid_schedule. vm_compute. reflexivity. Qed.
Print Assumptions C17_readout_guards_are_valid_schedule.

(* ---- every run goes through Detector.set_readout -> ReadoutProperties.__init__, which has its own copy of
   the refusals (it is the only gate for a schedule given through the `times` setter of Readout, which does not
   check monotonicity): on non-empty schedules they too accept exactly valid_schedule *)
Theorem C17_detector_guards_are_valid_schedule :
  forall (start t0 : Q) (r : list Q),
  accepted false detector_readout_guards start (t0 :: r) = valid_schedule start (t0 :: r).
Proof.
  intros start t0 r.
  change (accepted false detector_readout_guards start (t0 :: r))
    with (accepted true detector_readout_guards start (t0 :: r)).
  apply accepted_is_valid_schedule. vm_compute. reflexivity.
Qed.
Print Assumptions C17_detector_guards_are_valid_schedule.

(* ---- non-vacuity: the table has deterministic rows; a concrete expression of the shape found in load_image
   (ADU -> photon conversion) is linear with the expected rate, and the ways of getting it wrong are rejected:
   the step forgotten in one branch, the clock used instead of the step, the step squared, a floor on the step *)
Definition ex_env (n : string) : Q :=
  if String.eqb n "image" then 12 else if String.eqb n "adc" then 16 else if String.eqb n "bits" then 8
  else if String.eqb n "gain" then 1 # 4 else if String.eqb n "time_scale" then 2 else 3.
Definition ex_expr : texpr :=
  TMul (TMul (TDiv (TMul (TVar "image") (TDiv (TPow (TConst 2) (TVar "adc")) (TPow (TConst 2) (TVar "bits")))) (TVar "gain"))
             (TDiv TStep (TVar "time_scale"))) (TVar "multiplier").

Example C17_rows_nonvacuous :
  (2 <=? List.length (det_rows rate_table))%nat = true /\
  lin ex_expr = true /\ Qred (eval ex_env 1 ex_expr) = 18432 /\ Qred (eval ex_env (5 # 2) ex_expr) = 46080 /\
  lin (TMul (TVar "image") (TDiv (TVar "adc") (TVar "gain"))) = false /\
  lin (TMul (TVar "rate") (TBad BClock "detector.time")) = false /\
  lin (TMul (TMul (TVar "rate") TStep) TStep) = false /\
  lin (TMul (TVar "rate") (TBad BNonlin "max(step, 0.25)")) = false /\
  lin (TAdd (TMul (TVar "rate") TStep) (TVar "offset")) = false /\
  (* dropping a guard is noticed: without the monotonicity check a decreasing schedule would be accepted *)
  guards_complete true [GFirstZero; GStartGeFirst] = false /\
  accepted true [GFirstZero; GStartGeFirst] 0 [2; 1] = true /\ valid_schedule 0 [2; 1] = false.
Proof. vm_compute. repeat split; reflexivity. Qed.

(* ==== the conversion and collection models (conv_table, regenerated from photoelectrons.py / collection.py) ====

   ---- for every option branch of simple_conversion / conversion_with_qe_map that draws no random numbers, what
   the source adds to the charge bucket is (a factor that depends neither on the photons nor on the time step) *
   photon: it IS the op Convert of the exposure model; what simple_collection adds to the pixel bucket is the
   charge bucket itself: it IS the op Collect.  No branch truncates, offsets, squares or re-scales by the step *)
Theorem C17_conversion_rows_are_model_ops :
  forall r, In r conv_table -> has_random (cr_expr r) = false ->
  forall (env : string -> Q) (step : Q) (s : st),
  if cr_identity r
  then cr_src r = BkCharge /\ cr_sink r = BkPixel /\
       (let s' := apply_op step s Collect in
        pixel s' == pixel s + eval env (charge s) (cr_expr r) /\ photon s' = photon s /\ charge s' = charge s)
  else cr_src r = BkPhoton /\ cr_sink r = BkCharge /\
       (let s' := apply_op step s (Convert (qe_of env r)) in
        charge s' == charge s + eval env (photon s) (cr_expr r) /\ photon s' = photon s /\ pixel s' = pixel s).
Proof. apply conv_rows_are_ops. vm_compute. reflexivity. Qed.
Print Assumptions C17_conversion_rows_are_model_ops.

Theorem C17_conversion_rows_linear :
  forall r, In r conv_table -> has_random (cr_expr r) = false ->
  forall (env : string -> Q) (x : Q), eval env x (cr_expr r) == qe_of env r * x.
Proof. apply conv_rows_step_free. vm_compute. reflexivity. Qed.
Print Assumptions C17_conversion_rows_linear.

(* ---- non-vacuity: each of the three models has a deterministic row; and what the check rejects: a photon count
   truncated to an integer before the QE is applied, a conversion scaled by the time step, a collection that adds
   a multiple of the charge, a collection that reads the photon bucket *)
Example C17_conversion_rows_nonvacuous :
  conv_models_covered conv_table conv_models = true /\ (3 <=? List.length conv_models)%nat = true /\
  conv_row_ok {| cr_model := "m"; cr_path := ""; cr_src := BkPhoton; cr_sink := BkCharge; cr_identity := false;
                 cr_expr := TMul TStep (TVar "qe") |} = true /\
  conv_row_ok {| cr_model := "m"; cr_path := ""; cr_src := BkPhoton; cr_sink := BkCharge; cr_identity := false;
                 cr_expr := TMul (TBad BNonlin "array.astype(int)") (TVar "qe") |} = false /\
  conv_row_ok {| cr_model := "m"; cr_path := ""; cr_src := BkPhoton; cr_sink := BkCharge; cr_identity := false;
                 cr_expr := TMul (TMul TStep (TVar "qe")) (TBad BClock "detector.time_step") |} = false /\
  conv_row_ok {| cr_model := "m"; cr_path := ""; cr_src := BkCharge; cr_sink := BkPixel; cr_identity := true;
                 cr_expr := TMul TStep (TConst 2) |} = false /\
  conv_row_ok {| cr_model := "m"; cr_path := ""; cr_src := BkPhoton; cr_sink := BkPixel; cr_identity := true;
                 cr_expr := TStep |} = false.
Proof. vm_compute. repeat split; reflexivity. Qed.

(* ==== the lifecycle of the buckets, per detector type and per readout loop (tables regenerated by
   translator/c17_life.py from pyxel/detectors/** and from every function that calls detector.empty) =========

   ---- for EVERY class of the Detector family found in the source (CCD, CMOS, MKID, APD, ...: with its own
   `empty` or an inherited one, whatever it forwards to its parent), for EVERY function that runs the readouts
   (run_pipeline, the deprecated copy), both readout modes, and ANY bucket content left in the detector by
   earlier use: the exposure is the one of Model/Flux.v — photon and charge are emptied at every readout, pixel
   exactly when the readout is destructive, and the exposure starts from an empty detector *)
Theorem C17_bucket_lifecycle_every_detector :
  forall c lp, In c det_table -> In lp loop_table ->
  forall (nd : bool) (ops : list mop) (s_init : st) (start : Q) (ts : list Q),
  run_exposure_of det_table (dc_name c) lp nd ops s_init start ts = run_exposure nd ops start ts.
Proof. apply lifecycle_run_exposure. vm_compute. reflexivity. Qed.
Print Assumptions C17_bucket_lifecycle_every_detector.

(* ---- hence the property itself on every detector type, by every loop, from any initial content: the final
   pixel charge of a non-destructive exposure is (total rate) * (t_end - start) for any partition *)
Theorem C17_partition_independent_every_detector :
  forall c lp, In c det_table -> In lp loop_table ->
  forall (ops : list mop) (s1 s2 : st) (start : Q) (ts1 ts2 : list Q) (tr1 tr2 : list st),
  wf_ops ops = true ->
  run_exposure_of det_table (dc_name c) lp true ops s1 start ts1 = Some tr1 ->
  run_exposure_of det_table (dc_name c) lp true ops s2 start ts2 = Some tr2 ->
  last ts1 start == last ts2 start ->
  pixel (last tr1 st0) == Ktot ops * (last ts1 start - start) /\
  pixel (last tr1 st0) == pixel (last tr2 st0).
Proof.
  intros c lp Hc Hlp ops s1 s2 start ts1 ts2 tr1 tr2 Hwf H1 H2 Hl.
  rewrite (C17_bucket_lifecycle_every_detector c lp Hc Hlp) in H1, H2.
  exact (partition_independent ops start ts1 ts2 tr1 tr2 Hwf H1 H2 Hl).
Qed.
Print Assumptions C17_partition_independent_every_detector.

(* ---- and in destructive mode every frame is (total rate) * (its own duration), on every detector type *)
Theorem C17_destructive_frames_every_detector :
  forall c lp, In c det_table -> In lp loop_table ->
  forall (ops : list mop) (s_init : st) (start : Q) (ts : list Q) (tr : list st),
  wf_ops ops = true ->
  run_exposure_of det_table (dc_name c) lp false ops s_init start ts = Some tr ->
  Forall2 Qeq (map pixel tr) (d_closed (Ktot ops) start ts).
Proof.
  intros c lp Hc Hlp ops s_init start ts tr Hwf H.
  rewrite (C17_bucket_lifecycle_every_detector c lp Hc Hlp) in H.
  exact (proj1 (destructive_proportional ops start ts tr Hwf H)).
Qed.
Print Assumptions C17_destructive_frames_every_detector.

(* ---- non-vacuity: the regenerated table has the four detector types and both loops; a class that overrides
   `empty` is among them.  What the statement excludes, on a hand-written table: an override that calls the
   parent's empty WITHOUT the flag (so that the parent's default True applies) wipes the pixel bucket of that
   type at every readout — the final frame of a 3-readout non-destructive exposure then holds the last interval
   only (rate 2 over [0,3] read at 1, 2, 3 gives 2 instead of 6); so does a loop that passes the wrong flag *)
Definition ex_root : det_class :=
  {| dc_name := "Detector"; dc_parent := "";
     dc_empty := Some {| ed_default := Some true;
                         ed_true := {| ec_super := None; ec_clears := ["photon"; "charge"; "pixel"]; ec_may := [] |};
                         ed_false := {| ec_super := None; ec_clears := ["photon"; "charge"]; ec_may := [] |} |} |}.
Definition ex_sub (on_false : option bool) : det_class :=
  {| dc_name := "Sub"; dc_parent := "Detector";
     dc_empty := Some {| ed_default := Some true;
                         ed_true := {| ec_super := Some true; ec_clears := []; ec_may := ["phase"] |};
                         ed_false := {| ec_super := on_false; ec_clears := []; ec_may := [] |} |} |}.
Definition ex_loop (a_nd : earg) : loop_def := {| lp_name := "loop"; lp_pre := [EDefault]; lp_nd := a_nd; lp_d := EBool true |}.

Example C17_lifecycle_nonvacuous :
  (4 <=? List.length det_table)%nat = true /\ (2 <=? List.length loop_table)%nat = true /\
  existsb (fun c => match dc_empty c with Some _ => negb (String.eqb (dc_parent c) "") | None => false end) det_table = true /\
  existsb (fun c => match dc_empty c with None => true | Some _ => false end) det_table = true /\
  lifecycle_ok [ex_root; ex_sub (Some false)] [ex_loop (EBool false)] = true /\
  lifecycle_ok [ex_root; ex_sub (Some true)] [ex_loop (EBool false)] = false /\
  bad_classes [ex_root; ex_sub (Some true)] = ["Sub"] /\
  lifecycle_ok [ex_root; ex_sub None] [ex_loop (EBool false)] = false /\
  lifecycle_ok [ex_root; ex_sub (Some false)] [ex_loop EDefault] = false /\
  bad_loops [ex_root; ex_sub (Some false)] [ex_loop EDefault] = ["loop"] /\
  lifecycle_ok [ex_root; ex_sub (Some false)] [{| lp_name := "l"; lp_pre := []; lp_nd := EBool false; lp_d := EBool true |}] = false /\
  option_map (map (fun s => Qred (pixel s)))
    (run_exposure_of [ex_root; ex_sub (Some false)] "Sub" (ex_loop (EBool false)) true [ChargeRate 2; Collect] (mkst 9 9 9) 0 [1; 2; 3])
    = Some [2; 4; 6] /\
  option_map (map (fun s => Qred (pixel s)))
    (run_exposure_of [ex_root; ex_sub (Some true)] "Sub" (ex_loop (EBool false)) true [ChargeRate 2; Collect] (mkst 9 9 9) 0 [1; 2; 3])
    = Some [2; 2; 2] /\
  option_map (map (fun s => Qred (pixel s)))
    (run_exposure_of [ex_root; ex_sub (Some false)] "Sub" {| lp_name := "l"; lp_pre := []; lp_nd := EBool false; lp_d := EBool true |}
                     true [ChargeRate 2; Collect] (mkst 9 9 9) 0 [1; 2; 3])
    = Some [11; 13; 15].
Proof. vm_compute. repeat split; reflexivity. Qed.
