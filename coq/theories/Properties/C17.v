(* C17 — splitting an exposure into more readouts does not change collected charge.
   Only statements here; the model is Model/Flux.v, the proofs are in Proofs/Flux.v.
   Everything is stated for ONE pixel; the listed models act element-wise, so a detector is a list of
   such pixels (that the real models are element-wise with the stated rate is what the correspondence
   leg of ./check C17 establishes against /repo on every run).
   Quantifiers are unbounded: any number of readouts, any rational times, any number of models. *)
From Coq Require Import QArith List Bool.
From PyxelV Require Import Model.Flux Proofs.Flux.
Import ListNotations.
Open Scope Q_scope.

(* ---- calculate_steps: the steps of any schedule sum to (end - start) *)
Theorem C17_steps_sum_to_interval :
  forall (ts : list Q) (start : Q), qsum (diffs start ts) == last ts start - start.
Proof. exact diffs_telescope. Qed.
Print Assumptions C17_steps_sum_to_interval.

(* ---- non-destructive mode: for every well-formed pipeline of flux-integrating models (any number of
   photon-rate models, expectation-value conversions, charge-rate models, one simple collection) and
   any two accepted schedules with the same start and the same last time, the final pixel charge is
   (total rate) * (t_end - start) and therefore the same for both schedules. *)
Theorem C17_partition_independent :
  forall (ops : list mop) (start : Q) (ts1 ts2 : list Q) (tr1 tr2 : list st),
  wf_ops ops = true ->
  run_exposure true ops start ts1 = Some tr1 ->
  run_exposure true ops start ts2 = Some tr2 ->
  last ts1 start == last ts2 start ->
  pixel (last tr1 st0) == Ktot ops * (last ts1 start - start) /\
  pixel (last tr1 st0) == pixel (last tr2 st0).
Proof. exact partition_independent. Qed.
Print Assumptions C17_partition_independent.

(* ---- stronger: EVERY readout i of a non-destructive exposure holds (total rate) * (t_i - start) *)
Theorem C17_nondestructive_every_readout :
  forall (ops : list mop) (start : Q) (ts : list Q) (tr : list st),
  wf_ops ops = true -> run_exposure true ops start ts = Some tr ->
  Forall2 Qeq (map pixel tr) (nd_closed (Ktot ops) start ts).
Proof. exact nd_every_readout. Qed.
Print Assumptions C17_nondestructive_every_readout.

(* ---- destructive mode: frame i = (total rate) * (t_i - t_(i-1)), and a schedule (any start) whose
   every interval is c times the corresponding interval yields frames that are c times the frames *)
Theorem C17_destructive_proportional :
  forall (ops : list mop) (start : Q) (ts : list Q) (tr : list st),
  wf_ops ops = true -> run_exposure false ops start ts = Some tr ->
  Forall2 Qeq (map pixel tr) (d_closed (Ktot ops) start ts) /\
  forall (c start' : Q) (ts' : list Q) (tr' : list st),
    run_exposure false ops start' ts' = Some tr' ->
    Forall2 (fun d' d => d' == c * d) (diffs start' ts') (diffs start ts) ->
    Forall2 (fun p' p => p' == c * p) (map pixel tr') (map pixel tr).
Proof. exact destructive_proportional. Qed.
Print Assumptions C17_destructive_proportional.

(* ---- the accepted schedules are exactly: non-empty, first time non-zero, all steps positive
   (start < t_0 < t_1 < ...); everything else is refused before any model runs *)
Theorem C17_valid_schedule_meaning :
  forall (start : Q) (ts : list Q),
  valid_schedule start ts = true <->
  (exists t0 r, ts = t0 :: r /\ ~ t0 == 0) /\ Forall (fun d => 0 < d) (diffs start ts).
Proof. exact valid_schedule_meaning. Qed.
Print Assumptions C17_valid_schedule_meaning.

Theorem C17_invalid_schedule_refused :
  forall (nd : bool) (ops : list mop) (start : Q) (ts : list Q),
  valid_schedule start ts = false -> run_exposure nd ops start ts = None.
Proof. exact invalid_schedule_refused. Qed.
Print Assumptions C17_invalid_schedule_refused.

(* ---- the executable specification that judges the implementation's observed pixel values inside Coq
   (exp_spec, tolerance 0) is the right-hand side of the two theorems above, and the tolerance-0
   comparison is equality of rationals *)
Theorem C17_spec_is_theorem_rhs :
  forall (nd : bool) (ops : list mop) (start : Q) (ts : list Q) (tr : list st),
  wf_ops ops = true -> run_exposure nd ops start ts = Some tr ->
  close_list 0 (if nd then nd_closed (Ktot ops) start ts else d_closed (Ktot ops) start ts) (map pixel tr) = true.
Proof. exact exp_spec_sound_for_model. Qed.
Print Assumptions C17_spec_is_theorem_rhs.

Theorem C17_exact_comparison : forall a b : Q, close 0 a b = true <-> a == b.
Proof. exact close_zero_iff. Qed.
Print Assumptions C17_exact_comparison.

(* ---- non-vacuity: an ordinary pipeline (two illuminations, QE 3/4, a dark current, a loaded charge
   profile, simple collection) and two partitions of [1/4, 3] into 3 and 1 readouts meet every
   hypothesis, and the conclusion is not trivial (rate 73/4, final charge 803/16) *)
Definition ex_ops : list mop :=
  [PhotonRate 16; PhotonRate (5 # 2); Convert (3 # 4); ChargeRate (3 # 8); ChargeRate 4; Collect].

Example C17_hyps_satisfiable :
  wf_ops ex_ops = true /\ Ktot ex_ops == 73 # 4 /\
  valid_schedule (1 # 4) [1 # 2; 1; 3] = true /\ valid_schedule (1 # 4) [3] = true /\
  option_map (map (fun s => Qred (pixel s))) (run_exposure true ex_ops (1 # 4) [1 # 2; 1; 3])
    = Some [73 # 16; 219 # 16; 803 # 16] /\
  option_map (map (fun s => Qred (pixel s))) (run_exposure true ex_ops (1 # 4) [3]) = Some [803 # 16] /\
  option_map (map (fun s => Qred (pixel s))) (run_exposure false ex_ops (1 # 4) [1 # 2; 1; 3])
    = Some [73 # 16; 73 # 8; 73 # 2].
Proof. vm_compute. repeat split; reflexivity. Qed.

(* the well-formedness hypothesis matters: collecting before converting loses the photo-electrons,
   and the schedule guard matters: a first time of 0, a start at/after the first time, or a repeated
   time is refused *)
Example C17_hyps_needed :
  wf_ops [PhotonRate 16; Collect; Convert (3 # 4)] = false /\
  option_map (map (fun s => Qred (pixel s))) (run_exposure true [PhotonRate 16; Collect; Convert (3 # 4)] 0 [1])
    = Some [0] /\
  valid_schedule (-1) [0; 1] = false /\ valid_schedule 1 [1; 2] = false /\
  valid_schedule 0 [1; 1] = false /\ valid_schedule 0 [] = false /\ valid_schedule (-2) [-1; 1] = true.
Proof. vm_compute. repeat split; reflexivity. Qed.
