(* C19 — output files are complete, correctly attributed and never clobbered.
   Only statements here; proofs live in Proofs/OutputsDir.v, Proofs/OutputsFiles.v and Proofs/OutputsHist.v.
   Gen_C19 (src_mkdir_exclusive, src_tables) is regenerated on every run from
   pyxel/outputs/outputs.py, pyxel/outputs/utils.py and the save_to_files call of exposure.py. *)
From Coq Require Import List Bool Arith ZArith String Lia.
From PyxelV Require Import Model.Outputs Model.OutputsHist Proofs.OutputsDir Proofs.OutputsFiles Proofs.OutputsHist.
From PyxelGen Require Import Gen_C19.
Import ListNotations.
Open Scope string_scope.

(* ---------------------------------------------------------------- the output directory *)

(* For EVERY finite file system and base name: the retry loop as coded (atomic mkdir with the
   generated exist_ok flag) terminates within |fs| + 1 attempts, returns a directory that was not
   there, adds exactly that directory, and it is the first free candidate base, base_1, base_2 ... *)
Theorem C19_dir_fresh : forall fs base,
  exists p k,
    create_dir src_mkdir_exclusive fs base = Some (p, p :: fs, k) /\
    ~ In p fs /\ p = cand base k /\
    (forall j, j < k -> In (cand base j) fs) /\ k <= List.length fs.
Proof. exact create_dir_fresh. Qed.
Print Assumptions C19_dir_fresh.

(* For EVERY schedule (interleaving of atomic mkdir attempts) of N creators, with the same
   timestamp or not: the returned directories are pairwise distinct, none existed before, all
   exist afterwards, and nothing that existed is lost. *)
Theorem C19_dirs_distinct : forall fs0 bases sched ps fs,
  run_sched src_mkdir_exclusive sched (init_creators bases) fs0 = (ps, fs) ->
  (forall i j p q, i <> j ->
     nth_error (results ps) i = Some (Some p) -> nth_error (results ps) j = Some (Some q) -> p <> q) /\
  (forall i p, nth_error (results ps) i = Some (Some p) -> ~ In p fs0 /\ In p fs) /\
  incl fs0 fs.
Proof. exact dirs_distinct. Qed.
Print Assumptions C19_dirs_distinct.

(* For EVERY schedule: no creator fails more than |fs0| + N times; all candidates below its counter
   are occupied; what it returns is the candidate at its counter.  With C19_creator_progress (a
   scheduled unfinished creator returns or advances its counter) every creator returns after at
   most |fs0| + N + 1 of its own steps. *)
Theorem C19_creators_bounded : forall fs0 bases sched ps fs,
  run_sched src_mkdir_exclusive sched (init_creators bases) fs0 = (ps, fs) ->
  forall i c, nth_error ps i = Some c ->
    c_count c <= List.length fs0 + List.length bases /\
    (forall j, j < c_count c -> In (cand (c_base c) j) fs) /\
    (forall p, c_res c = Some p -> p = cand (c_base c) (c_count c)).
Proof. exact creators_bounded. Qed.
Print Assumptions C19_creators_bounded.

Theorem C19_creator_progress : forall c fs c' fs',
  step_creator src_mkdir_exclusive c fs = (c', fs') -> c_res c = None ->
  c_res c' <> None \/ c_count c' = S (c_count c).
Proof. exact creator_progress. Qed.
Print Assumptions C19_creator_progress.

(* non-vacuity: two creators with the same timestamp racing into a folder that already holds it *)
Example C19_ex_sched :
  let '(ps, fs) := run_sched src_mkdir_exclusive [0; 1; 1; 0; 0; 1]
                     (init_creators ["run_20240102_030405"; "run_20240102_030405"])
                     ["run_20240102_030405"] in
  results ps = [Some "run_20240102_030405_2"; Some "run_20240102_030405_1"] /\ List.length fs = 3.
Proof. vm_compute. auto. Qed.

Example C19_ex_create :
  create_dir src_mkdir_exclusive ["t_1"; "t"; "other"] "t" = Some ("t_2", ["t_2"; "t_1"; "t"; "other"], 2).
Proof. vm_compute. reflexivity. Qed.

(* ---------------------------------------------------------------- file names *)

(* both renderings are injective on (bucket, run suffix, extension) *)
Theorem C19_names_injective :
  (forall b s f b' s' f', render_new b s f = render_new b' s' f' -> b = b' /\ s = s' /\ f = f') /\
  (forall b r e b' r' e', render_old b r e = render_old b' r' e' -> b = b' /\ r = r' /\ e = e').
Proof. split; [exact render_new_inj | exact render_old_inj]. Qed.
Print Assumptions C19_names_injective.

Example C19_ex_names :
  render_new Image (Some 12) Fits = "detector_image_12.fits" /\
  render_new Pixel None Npy = "detector_pixel.npy" /\
  render_old Image 0 "fits" = "detector_image_array_1.fits".
Proof. vm_compute. auto. Qed.

(* ---------------------------------------------------------------- never clobbered *)

(* FULL statement: whatever a writer of outputs/utils.py is asked to write, every file that exists
   keeps its content. *)
Definition C19_never_clobbers_full : Prop :=
  forall (w : string) (b : on_exists), In (w, b) (t_writers src_tables) -> never_clobbers b.

(* refuted on the unchanged tree: to_txt (also to_csv, to_hdf) has no existence test *)
Theorem C19_never_clobbers_refuted : ~ C19_never_clobbers_full.
Proof. apply (not_all_safe_refutes _ "to_txt"). vm_compute. tauto. Qed.
Print Assumptions C19_never_clobbers_refuted.

(* the strongest true restriction: every other writer, by the regenerated table *)
Theorem C19_never_clobbers_partial :
  forall w, In w ["to_fits"; "to_npy"; "to_png"; "to_jpg"; "write_to_fits"; "write_to_npy"; "write_to_jpg"] ->
  never_clobbers (beh src_tables w).
Proof.
  intros w H. apply never_clobbers_iff. simpl in H.
  repeat (destruct H as [<-|H]; [vm_compute; discriminate|]). contradiction.
Qed.
Print Assumptions C19_never_clobbers_partial.

(* and therefore the exposure flow and the parallel-observation flow (all buckets, formats, runs,
   pre-existing files, including the runs that end in an exception) leave every existing file as it was *)
Theorem C19_flows_never_clobber :
  (forall ep req fs fs' rep e, flow_exposure src_tables ep req fs = (fs', rep, e) ->
     forall f x, lookup f fs = Some x -> lookup f fs' = Some x) /\
  (forall ep req n fs fs' rep e, flow_dask src_tables ep req n fs = (fs', rep, e) ->
     forall f x, lookup f fs = Some x -> lookup f fs' = Some x).
Proof.
  assert (S : safe_new src_tables = true) by (vm_compute; reflexivity).
  split.
  - intros ep req fs fs' rep e H. exact (save_new_preserves _ S _ _ _ _ _ _ _ _ _ H).
  - intros ep req n fs fs' rep e H. apply flow_dask_cases in H. destruct H as [(-> & _ & _)|H]; [auto|].
    exact (flow_dask_from_preserves _ S _ _ _ _ _ _ _ _ _ H).
Qed.
Print Assumptions C19_flows_never_clobber.

(* ---------------------------------------------------------------- attribution *)

(* FULL statement: every reported name holds the content of the run it is attributed to *)
Definition C19_reported_own_run_full : Prop :=
  forall ep req fs fs' rep e, flow_exposure src_tables ep req fs = (fs', rep, e) -> attributed ep rep fs'.

(* refuted on the unchanged tree: the new writers skip an existing file silently, and
   save_to_files reports the name all the same *)
Theorem C19_reported_own_run_refuted : ~ C19_reported_own_run_full.
Proof.
  intro H.
  specialize (H 0 [[(Image, [Npy])]] [("detector_image.npy", 99%Z)] _ _ _ eq_refl 0 Image Npy "detector_image.npy").
  vm_compute in H. assert (X : Some 99%Z = Some 20%Z) by (apply H; auto). discriminate X.
Qed.
Print Assumptions C19_reported_own_run_refuted.

(* the strongest true restriction: in a directory without colliding names (in particular the fresh
   directory of C19_dir_fresh) every reported file holds its own run's bucket — for every request,
   duplicates included, every number of runs, whatever the writers do on existing files *)
Theorem C19_reported_own_run_partial :
  (forall ep req fs fs' rep e, fresh fs -> flow_exposure src_tables ep req fs = (fs', rep, e) -> attributed ep rep fs') /\
  (forall ep req n fs fs' rep e, fresh fs -> flow_dask src_tables ep req n fs = (fs', rep, e) -> attributed ep rep fs').
Proof.
  split.
  - intros ep req fs fs' rep e F H.
    apply (save_new_attributed ep src_tables (items req) None fs [] fs' rep e); auto.
    + now apply fresh_good.
    + intros r b f n [].
  - intros ep req n fs fs' rep e F H. apply flow_dask_cases in H.
    destruct H as [(_ & -> & _)|H]; [intros r b f m []|].
    apply (flow_dask_from_attributed ep src_tables req n 0 fs [] fs' rep e); auto.
    + now apply fresh_good.
    + intros r b f m [].
Qed.
Print Assumptions C19_reported_own_run_partial.

Example C19_ex_fresh : fresh [] /\ fresh [("pyxel.log", 0%Z)].
Proof. split; intros b s f; [reflexivity|]. destruct b, s, f; reflexivity. Qed.

(* ---------------------------------------------------------------- completeness *)

(* exposure and parallel observation: when the flow returns normally, the reported files are exactly
   one per requested (bucket, format, run), under the name of that combination, and nothing else *)
Theorem C19_complete :
  (forall ep req fs fs' rep, flow_exposure src_tables ep req fs = (fs', rep, None) ->
     forall r b f n, In (r, b, f, n) rep <-> r = 0 /\ In (b, f) (items req) /\ n = render_new b None f) /\
  (forall ep req nruns fs fs' rep, flow_dask src_tables ep req nruns fs = (fs', rep, None) ->
     forall r b f n, In (r, b, f, n) rep <->
       r < nruns /\ In (b, f) (items req) /\ n = render_new b (Some r) f).
Proof.
  split.
  - intros ep req fs fs' rep H r b f n. apply save_new_complete in H. subst rep. simpl.
    apply in_new_entries.
  - intros ep req nruns fs fs' rep H r b f n. apply flow_dask_cases in H.
    destruct H as [(_ & _ & X)|H]; [congruence|].
    apply flow_dask_from_complete in H. subst rep. simpl.
    rewrite in_flat_map. split.
    + intros [x [Hx Hin]]. apply in_seq in Hx. apply in_new_entries in Hin.
      destruct Hin as (-> & Hin & ->). repeat split; auto; lia.
    + intros (Hr & Hin & ->). exists r. split; [apply in_seq; lia | now apply in_new_entries].
Qed.
Print Assumptions C19_complete.

Example C19_ex_complete :
  flow_dask src_tables 0 [[(Image, [Fits; Npy]); (Pixel, [Npy])]] 2 [] =
  ([("detector_image_0.fits", 20%Z); ("detector_image_0.npy", 20%Z); ("detector_pixel_0.npy", 18%Z);
    ("detector_image_1.fits", 36%Z); ("detector_image_1.npy", 36%Z); ("detector_pixel_1.npy", 34%Z)],
   [(0, Image, Fits, "detector_image_0.fits"); (0, Image, Npy, "detector_image_0.npy");
    (0, Pixel, Npy, "detector_pixel_0.npy"); (1, Image, Fits, "detector_image_1.fits");
    (1, Image, Npy, "detector_image_1.npy"); (1, Pixel, Npy, "detector_pixel_1.npy")], None).
Proof. vm_compute. reflexivity. Qed.

(* FULL statement for the sequential observation *)
Definition C19_complete_seq_full : Prop :=
  forall ep req nruns fs fs' rep, flow_seq src_tables ep req nruns fs = (fs', rep, None) ->
    forall r b f, r < nruns -> In (b, f) (items req) -> exists n, In (r, b, f, n) rep.

(* refuted on the unchanged tree: Outputs.save_to_file uses only the first entry of each dict *)
Theorem C19_complete_seq_refuted : ~ C19_complete_seq_full.
Proof.
  intro H.
  specialize (H 0 [[(Image, [Fits]); (Pixel, [Npy])]] 1 [] _ _ eq_refl 0 Pixel Npy).
  destruct H as [n Hn]; [auto | vm_compute; auto |].
  vm_compute in Hn. destruct Hn as [E|[]]. discriminate E.
Qed.
Print Assumptions C19_complete_seq_refuted.

(* ---------------------------------------------------------------- histories on ONE configuration object
   run_mode is called again and again on one running-mode / Outputs object; between the calls the
   request (in place or by assignment), the folder and the prefix are edited.  [sims] lists, independently
   of the save machinery, what each call was asked for: the request, folder and prefix in force when it
   started.  [plain]: every simulation is computed when it is started (Edit | Run). *)

(* For EVERY sequence of edits and runs, every mode, every world: each run is exactly the standalone
   save flow on the request in force at that time, in a directory that did not exist and is a candidate
   of the folder/prefix of that time; the directories are pairwise distinct; every directory that
   existed keeps its files; what a run left is still there at the end; every run is recorded.
   (Induction over the operation sequence, Proofs/OutputsHist.v hist_main.) *)
Theorem C19_history_standalone : forall m ts ops c w wf recs,
  plain ops ->
  run_hist m src_tables src_mkdir_exclusive ts ops (init_state c) w 0 = (wf, recs) ->
  (forall r, In r recs -> exists s, In s (sims ts ops c 0) /\ rec_of_sim m src_tables r s) /\
  NoDup (map r_dir recs) /\
  (forall r, In r recs -> ~ In (r_dir r) (wdirs w)) /\
  (forall d fs, wget d w = Some fs -> wget d wf = Some fs) /\
  (forall r, In r recs -> wget (r_dir r) wf = Some (r_files r)) /\
  (forall s, In s (sims ts ops c 0) -> sm_lazy s = false -> exists r, In r recs /\ r_ep r = sm_ep s).
Proof. intros m ts ops c w wf recs P H. exact (hist_sound m src_tables ts ops c w wf recs (or_intror P) H). Qed.
Print Assumptions C19_history_standalone.

(* completeness per run, judged against the request AT THAT TIME (exposure and parallel observation):
   the reported entries of every run that returned normally are exactly one per (bucket, format, run)
   of the request in force when it started, under that combination's name — nothing of an earlier or
   later request *)
Theorem C19_history_complete : forall m ts ops c w wf recs,
  m <> MSeq -> plain ops ->
  run_hist m src_tables src_mkdir_exclusive ts ops (init_state c) w 0 = (wf, recs) ->
  forall r, In r recs -> r_err r = None ->
  exists s, In s (sims ts ops c 0) /\ sm_ep s = r_ep r /\
    forall x b f n, In (x, b, f, n) (r_rep r) <->
      x < nruns_of m (sm_n s) /\ In (b, f) (items (sm_req s)) /\ n = spec_name m x b f.
Proof.
  intros m ts ops c w wf recs Nm P H r Hr He.
  destruct (hist_lift m src_tables ts ops c w wf recs (or_intror P) H r Hr) as (s & Hs & E & _ & _ & _ & _ & Fl).
  exists s. split; [exact Hs|]. split; [exact E|].
  unfold eff_mode in Fl. rewrite (plain_sims_eager _ _ _ _ _ P Hs) in Fl. rewrite He in Fl.
  destruct m; [apply (flow_complete_exposure _ _ _ _ _ _ _ Fl) | congruence | apply (flow_complete_dask _ _ _ _ _ _ _ Fl)].
Qed.
Print Assumptions C19_history_complete.

(* never clobbered, over the whole history (exposure and parallel observation): every directory that
   existed before keeps its files, and whatever was in a run's new directory before its first write is
   still there, unchanged, at the END of the history — later runs included *)
Theorem C19_history_never_clobbers : forall m ts ops c w wf recs,
  m <> MSeq -> plain ops ->
  run_hist m src_tables src_mkdir_exclusive ts ops (init_state c) w 0 = (wf, recs) ->
  (forall d fs, wget d w = Some fs -> wget d wf = Some fs) /\
  (forall r, In r recs -> exists s fs, In s (sims ts ops c 0) /\ sm_ep s = r_ep r /\
     wget (r_dir r) wf = Some fs /\ forall f x, lookup f (sm_pre s) = Some x -> lookup f fs = Some x).
Proof.
  intros m ts ops c w wf recs Nm P H.
  assert (S : safe_new src_tables = true) by (vm_compute; reflexivity).
  split; [exact (proj1 (proj2 (proj2 (proj2 (hist_sound m src_tables ts ops c w wf recs (or_intror P) H)))))|].
  intros r Hr.
  destruct (hist_lift m src_tables ts ops c w wf recs (or_intror P) H r Hr) as (s & Hs & E & _ & _ & _ & W & Fl).
  exists s, (r_files r). split; [exact Hs|]. split; [exact E|]. split; [exact W|].
  unfold eff_mode in Fl. rewrite (plain_sims_eager _ _ _ _ _ P Hs) in Fl.
  destruct m; [exact (flow_exposure_preserves _ S _ _ _ _ _ _ Fl) | congruence | exact (flow_dask_preserves _ S _ _ _ _ _ _ _ Fl)].
Qed.
Print Assumptions C19_history_never_clobbers.

(* attribution at the END of the history (exposure and parallel observation; new directories without
   colliding names): every file a run reported still holds the bucket of THAT run of THAT simulation *)
Theorem C19_history_attributed_partial : forall m ts ops c w wf recs,
  m <> MSeq -> plain ops -> (forall n pre, In (Run n pre) ops -> fresh pre) ->
  run_hist m src_tables src_mkdir_exclusive ts ops (init_state c) w 0 = (wf, recs) ->
  forall r, In r recs -> exists fs, wget (r_dir r) wf = Some fs /\ attributed (r_ep r) (r_rep r) fs.
Proof.
  intros m ts ops c w wf recs Nm P Fr H r Hr.
  destruct (hist_lift m src_tables ts ops c w wf recs (or_intror P) H r Hr) as (s & Hs & E & _ & _ & _ & W & Fl).
  exists (r_files r). split; [exact W|].
  pose proof (plain_sims_eager _ _ _ _ _ P Hs) as Lz.
  unfold eff_mode in Fl. rewrite Lz in Fl. rewrite <- E.
  pose proof (Fr _ _ (sims_run_in _ _ _ _ _ Hs Lz)) as F.
  destruct m; [exact (flow_exposure_attributed _ _ _ _ _ _ _ F Fl) | congruence | exact (flow_dask_attributed _ _ _ _ _ _ _ _ F Fl)].
Qed.
Print Assumptions C19_history_attributed_partial.

(* non-vacuity: the request grows in place between two exposures on one object; the second run is judged
   against the grown request (and reports exactly its three files), the first against the original one *)
Example C19_ex_history :
  let c := {| c_req := [[(Image, [Fits])]]; c_folder := "out"; c_prefix := "" |} in
  let ops := [Run 1 []; Edit (EAppendDict [(Pixel, [Npy])]); Edit (EAppendFmt 0 Image Npy); Run 1 []] in
  plain ops /\
  map sm_req (sims "T" ops c 0) = [[[(Image, [Fits])]]; [[(Image, [Fits; Npy])]; [(Pixel, [Npy])]]] /\
  let '(wf, recs) := run_hist MExposure src_tables src_mkdir_exclusive "T" ops (init_state c) [("out/run_T", [("keep", 7%Z)])] 0 in
  map r_dir recs = ["out/run_T_1"; "out/run_T_2"] /\
  map (fun r => List.length (r_rep r)) recs = [1; 3] /\
  wget "out/run_T" wf = Some [("keep", 7%Z)].
Proof. vm_compute. repeat split; reflexivity. Qed.

(* FULL statement for lazily computed parallel observations: whatever the order of starts, edits and
   computes, every observation writes into the directory it created *)
Definition C19_history_lazy_full : Prop :=
  forall ts ops c w wf recs,
    run_hist MDask src_tables src_mkdir_exclusive ts ops (init_state c) w 0 = (wf, recs) ->
    forall r, In r recs -> r_at r = r_dir r.

(* refuted on the unchanged tree: the lazy graph holds the SHARED outputs object and reads its folder
   (and request) when it is computed: start, start, compute the first -> it writes into the second's
   directory *)
Theorem C19_history_lazy_refuted : ~ C19_history_lazy_full.
Proof.
  intro H.
  specialize (H "T" [Start 1 []; Start 1 []; Compute 0]
                {| c_req := [[(Image, [Npy])]]; c_folder := "out"; c_prefix := "" |} [] _ _ eq_refl).
  vm_compute in H. specialize (H _ (or_introl eq_refl)). discriminate H.
Qed.
Print Assumptions C19_history_lazy_refuted.
