(* C19 — output files are complete, correctly attributed and never clobbered.
   Only statements here; proofs live in Proofs/OutputsDir.v, OutputsFiles.v, OutputsSeq.v and OutputsHist.v.
   Gen_C19 (src_mkdir_exclusive, src_tables) is regenerated on every run from
   pyxel/outputs/outputs.py, pyxel/outputs/utils.py, the save_to_files call of exposure.py, the
   run_pipeline call of Observation._run_single_pipeline and the apply_ufunc kwargs of
   run_pipelines_with_dask.  The theorems below hold for what the code says NOW: each one discharges
   a boolean condition on the regenerated tables by vm_compute and fails if the code stops meeting it.
   (Round 2: C19-F17a/b/c/d repaired — the former _refuted/_partial statements are proved in full.) *)
From Coq Require Import List Bool Arith ZArith String Lia.
From PyxelV Require Import Model.Outputs Model.OutputsHist Proofs.OutputsDir Proofs.OutputsFiles Proofs.OutputsSeq
  Proofs.OutputsHist Proofs.OutputsAuto.
From PyxelGen Require Import Gen_C19.
Import ListNotations.
Open Scope string_scope.

(* ---------------------------------------------------------------- the output directory *)

(* For EVERY finite file system and base name: the retry loop as coded (atomic mkdir with the
   generated exist_ok flag) terminates within |fs| + 1 attempts, returns a directory that was not
   there, adds exactly that directory, and it is the first free candidate base, base_1, base_2 ... *)
Theorem C19_dir_fresh : forall fs base,
  exists p k,
    create_dir src_mkdir_exclusive fs base = Some (p, p :: fs, k) /\
    ~ In p fs /\ p = cand base k /\
    (forall j, j < k -> In (cand base j) fs) /\ k <= List.length fs.
Proof. exact create_dir_fresh. Qed.
Print Assumptions C19_dir_fresh.

(* For EVERY schedule (interleaving of atomic mkdir attempts) of N creators, with the same
   timestamp or not: the returned directories are pairwise distinct, none existed before, all
   exist afterwards, and nothing that existed is lost. *)
Theorem C19_dirs_distinct : forall fs0 bases sched ps fs,
  run_sched src_mkdir_exclusive sched (init_creators bases) fs0 = (ps, fs) ->
  (forall i j p q, i <> j ->
     nth_error (results ps) i = Some (Some p) -> nth_error (results ps) j = Some (Some q) -> p <> q) /\
  (forall i p, nth_error (results ps) i = Some (Some p) -> ~ In p fs0 /\ In p fs) /\
  incl fs0 fs.
Proof. exact dirs_distinct. Qed.
Print Assumptions C19_dirs_distinct.

(* For EVERY schedule: no creator fails more than |fs0| + N times; all candidates below its counter
   are occupied; what it returns is the candidate at its counter.  With C19_creator_progress (a
   scheduled unfinished creator returns or advances its counter) every creator returns after at
   most |fs0| + N + 1 of its own steps. *)
Theorem C19_creators_bounded : forall fs0 bases sched ps fs,
  run_sched src_mkdir_exclusive sched (init_creators bases) fs0 = (ps, fs) ->
  forall i c, nth_error ps i = Some c ->
    c_count c <= List.length fs0 + List.length bases /\
    (forall j, j < c_count c -> In (cand (c_base c) j) fs) /\
    (forall p, c_res c = Some p -> p = cand (c_base c) (c_count c)).
Proof. exact creators_bounded. Qed.
Print Assumptions C19_creators_bounded.

Theorem C19_creator_progress : forall c fs c' fs',
  step_creator src_mkdir_exclusive c fs = (c', fs') -> c_res c = None ->
  c_res c' <> None \/ c_count c' = S (c_count c).
Proof. exact creator_progress. Qed.
Print Assumptions C19_creator_progress.

(* non-vacuity: two creators with the same timestamp racing into a folder that already holds it *)
Example C19_ex_sched :
  let '(ps, fs) := run_sched src_mkdir_exclusive [0; 1; 1; 0; 0; 1]
                     (init_creators ["run_20240102_030405"; "run_20240102_030405"])
                     ["run_20240102_030405"] in
  results ps = [Some "run_20240102_030405_2"; Some "run_20240102_030405_1"] /\ List.length fs = 3.
Proof. vm_compute. auto. Qed.

Example C19_ex_create :
  create_dir src_mkdir_exclusive ["t_1"; "t"; "other"] "t" = Some ("t_2", ["t_2"; "t_1"; "t"; "other"], 2).
Proof. vm_compute. reflexivity. Qed.

(* ---------------------------------------------------------------- file names *)

(* both renderings are injective on (bucket, run suffix, extension) *)
Theorem C19_names_injective :
  (forall b s f b' s' f', render_new b s f = render_new b' s' f' -> b = b' /\ s = s' /\ f = f') /\
  (forall b r e b' r' e', render_old b r e = render_old b' r' e' -> b = b' /\ r = r' /\ e = e').
Proof. split; [exact render_new_inj | exact render_old_inj]. Qed.
Print Assumptions C19_names_injective.

Example C19_ex_names :
  render_new Image (Some 12) Fits = "detector_image_12.fits" /\
  render_new Pixel None Npy = "detector_pixel.npy" /\
  render_old Image 0 "fits" = "detector_image_array_1.fits".
Proof. vm_compute. auto. Qed.

(* ---------------------------------------------------------------- never clobbered *)

(* whatever a writer of outputs/utils.py is asked to write, every file that exists keeps its content
   (all seven to_* and the three write_to_* writers, by the regenerated behaviour table) *)
Theorem C19_never_clobbers :
  forall (w : string) (b : on_exists), In (w, b) (t_writers src_tables) -> never_clobbers b.
Proof. apply all_safe_sound. vm_compute. reflexivity. Qed.
Print Assumptions C19_never_clobbers.

Example C19_ex_writers :
  In ("to_txt", Raise) (t_writers src_tables) /\ In ("write_to_npy", Raise) (t_writers src_tables) /\
  List.length (t_writers src_tables) = 10.
Proof. vm_compute. tauto. Qed.

(* and therefore the exposure flow, the parallel-observation flow and the sequential-observation flow
   (all buckets, formats, runs, pre-existing files, including the runs that end in an exception)
   leave every existing file as it was *)
Theorem C19_flows_never_clobber :
  (forall ep req fs fs' rep e, flow_exposure src_tables ep req fs = (fs', rep, e) ->
     forall f x, lookup f fs = Some x -> lookup f fs' = Some x) /\
  (forall ep req n fs fs' rep e, flow_dask src_tables ep req n fs = (fs', rep, e) ->
     forall f x, lookup f fs = Some x -> lookup f fs' = Some x) /\
  (forall ep req n fs fs' rep e, flow_seq src_tables ep req n fs = (fs', rep, e) ->
     forall f x, lookup f fs = Some x -> lookup f fs' = Some x).
Proof.
  assert (S : clobber_ok src_tables = true) by (vm_compute; reflexivity).
  split; [|split].
  - intros ep req fs fs' rep e H. exact (flow_preserves_all _ MExposure S ep req 0 fs fs' rep e H).
  - intros ep req n fs fs' rep e H. exact (flow_preserves_all _ MDask S ep req n fs fs' rep e H).
  - intros ep req n fs fs' rep e H. exact (flow_preserves_all _ MSeq S ep req n fs fs' rep e H).
Qed.
Print Assumptions C19_flows_never_clobber.

(* ---------------------------------------------------------------- attribution *)

(* every reported name holds the content of the run it is attributed to — in ANY directory, whatever
   was there before (a colliding name is refused with FileExistsError, never reported), for every
   request, duplicates included, every number of runs, all three flows, also when the flow ends in an
   exception *)
Theorem C19_reported_own_run :
  (forall ep req fs fs' rep e, flow_exposure src_tables ep req fs = (fs', rep, e) -> attributed ep rep fs') /\
  (forall ep req n fs fs' rep e, flow_dask src_tables ep req n fs = (fs', rep, e) -> attributed ep rep fs') /\
  (forall ep req n fs fs' rep e, flow_seq src_tables ep req n fs = (fs', rep, e) -> attributed ep rep fs').
Proof.
  assert (S : attr_ok src_tables = true) by (vm_compute; reflexivity).
  split; [|split].
  - intros ep req fs fs' rep e H. exact (flow_attributed_all _ MExposure S ep req 0 fs fs' rep e I H).
  - intros ep req n fs fs' rep e H. exact (flow_attributed_all _ MDask S ep req n fs fs' rep e I H).
  - intros ep req n fs fs' rep e H. exact (flow_attributed_all _ MSeq S ep req n fs fs' rep e I H).
Qed.
Print Assumptions C19_reported_own_run.

(* non-vacuity, and the former counterexample: a colliding name in the directory is refused *)
Example C19_ex_collision :
  flow_exposure src_tables 0 [[(Image, [Npy])]] [("detector_image.npy", 99%Z)] =
  ([("detector_image.npy", 99%Z)], [], Some EFileExists).
Proof. vm_compute. reflexivity. Qed.

(* ---------------------------------------------------------------- completeness *)

(* when a flow returns normally, the reported files are exactly one per requested (bucket, format, run),
   under the name of that combination, and nothing else — exposure, parallel and sequential observation *)
Theorem C19_complete :
  (forall ep req fs fs' rep, flow_exposure src_tables ep req fs = (fs', rep, None) ->
     forall r b f n, In (r, b, f, n) rep <-> r = 0 /\ In (b, f) (items req) /\ n = render_new b None f) /\
  (forall ep req nruns fs fs' rep, flow_dask src_tables ep req nruns fs = (fs', rep, None) ->
     forall r b f n, In (r, b, f, n) rep <->
       r < nruns /\ In (b, f) (items req) /\ n = render_new b (Some r) f) /\
  (forall ep req nruns fs fs' rep, flow_seq src_tables ep req nruns fs = (fs', rep, None) ->
     forall r b f n, In (r, b, f, n) rep <->
       r < nruns /\ In (b, f) (items req) /\ n = render_old b r (old_ext_spec f)).
Proof.
  split; [|split].
  - intros ep req fs fs' rep H. exact (flow_exposure_complete _ _ _ _ _ _ H).
  - intros ep req nruns fs fs' rep H. exact (flow_dask_complete _ _ _ _ _ _ _ H).
  - intros ep req nruns fs fs' rep H.
    exact (flow_seq_complete src_tables eq_refl eq_refl eq_refl _ _ _ _ _ _ H).
Qed.
Print Assumptions C19_complete.

Example C19_ex_complete :
  flow_dask src_tables 0 [[(Image, [Fits; Npy]); (Pixel, [Npy])]] 2 [] =
  ([("detector_image_0.fits", 20%Z); ("detector_image_0.npy", 20%Z); ("detector_pixel_0.npy", 18%Z);
    ("detector_image_1.fits", 36%Z); ("detector_image_1.npy", 36%Z); ("detector_pixel_1.npy", 34%Z)],
   [(0, Image, Fits, "detector_image_0.fits"); (0, Image, Npy, "detector_image_0.npy");
    (0, Pixel, Npy, "detector_pixel_0.npy"); (1, Image, Fits, "detector_image_1.fits");
    (1, Image, Npy, "detector_image_1.npy"); (1, Pixel, Npy, "detector_pixel_1.npy")], None).
Proof. vm_compute. reflexivity. Qed.

(* the former counterexample of the sequential observation: the second entry of a dict, and a bucket
   named by two dicts, are saved and reported for every run; no stray un-numbered file *)
Example C19_ex_complete_seq :
  flow_seq src_tables 0 [[(Image, [Fits]); (Pixel, [Npy])]; [(Image, [Npy])]] 2 [] =
  ([("detector_image_array_1.fits", 20%Z); ("detector_pixel_array_1.npy", 18%Z); ("detector_image_array_1.npy", 20%Z);
    ("detector_image_array_2.fits", 36%Z); ("detector_pixel_array_2.npy", 34%Z); ("detector_image_array_2.npy", 36%Z)],
   [(0, Pixel, Npy, "detector_pixel_array_1.npy"); (0, Image, Fits, "detector_image_array_1.fits");
    (0, Image, Npy, "detector_image_array_1.npy"); (1, Pixel, Npy, "detector_pixel_array_2.npy");
    (1, Image, Fits, "detector_image_array_2.fits"); (1, Image, Npy, "detector_image_array_2.npy")], None).
Proof. vm_compute. reflexivity. Qed.

(* ---------------------------------------------------------------- histories on ONE configuration object
   run_mode is called again and again on one running-mode / Outputs object; between the calls the
   request (in place or by assignment), the folder and the prefix are edited; a dask observation may be
   started (Start) and computed later (Compute), after other simulations have been started and the
   outputs edited.  [sims] lists, independently of the save machinery, what each call was asked for: the
   request, folder and prefix in force when it STARTED. *)

(* For EVERY sequence of Edit | Run | Start | Compute, every mode, every world: each simulation is exactly
   the standalone save flow on the request in force when it started, in a directory that did not exist,
   that it created itself (r_at = r_dir) and that is a candidate of the folder/prefix of that time; the
   directories are pairwise distinct; every directory that existed keeps its files; what a simulation
   left is still there at the end; every non-lazy run_mode call is recorded.
   (Induction over the operation sequence with an invariant over the pending lazy results,
   Proofs/OutputsHist.v hist_main.) *)
Theorem C19_history_standalone : forall m ts ops c w wf recs,
  run_hist m src_tables src_mkdir_exclusive ts ops (init_state c) w 0 = (wf, recs) ->
  (forall r, In r recs -> exists s, In s (sims ts ops c 0) /\ rec_of_sim m src_tables r s) /\
  NoDup (map r_dir recs) /\
  (forall r, In r recs -> ~ In (r_dir r) (wdirs w)) /\
  (forall d fs, wget d w = Some fs -> wget d wf = Some fs) /\
  (forall r, In r recs -> wget (r_dir r) wf = Some (r_files r)) /\
  (forall s, In s (sims ts ops c 0) -> sm_lazy s = false -> exists r, In r recs /\ r_ep r = sm_ep s).
Proof.
  intros m ts ops c w wf recs H.
  exact (hist_sound m src_tables ts ops c w wf recs (or_introl eq_refl) H).
Qed.
Print Assumptions C19_history_standalone.

(* a lazily computed observation writes into the directory IT created, whatever was started or edited
   in between (the former C19_history_lazy_full) *)
Theorem C19_history_lazy : forall ts ops c w wf recs,
  run_hist MDask src_tables src_mkdir_exclusive ts ops (init_state c) w 0 = (wf, recs) ->
  forall r, In r recs -> r_at r = r_dir r.
Proof.
  intros ts ops c w wf recs H r Hr.
  destruct (hist_lift MDask src_tables ts ops c w wf recs (or_introl eq_refl) H r Hr) as (s & _ & _ & E & _).
  exact E.
Qed.
Print Assumptions C19_history_lazy.

(* completeness per simulation, judged against the request AT THAT TIME, all modes: the reported entries
   of every simulation that returned normally are exactly one per (bucket, format, run) of the request
   in force when it started, under that combination's name — nothing of an earlier or later request *)
Theorem C19_history_complete : forall m ts ops c w wf recs,
  run_hist m src_tables src_mkdir_exclusive ts ops (init_state c) w 0 = (wf, recs) ->
  forall r, In r recs -> r_err r = None ->
  exists s, In s (sims ts ops c 0) /\ sm_ep s = r_ep r /\
    forall x b f n, In (x, b, f, n) (r_rep r) <->
      x < nruns_of (eff_mode m s) (sm_n s) /\ In (b, f) (items (sm_req s)) /\
      n = spec_name (eff_mode m s) x b f.
Proof.
  intros m ts ops c w wf recs H.
  exact (hist_complete m src_tables ts ops c w wf recs eq_refl (or_introl eq_refl) H).
Qed.
Print Assumptions C19_history_complete.

(* never clobbered, over the whole history, all modes: every directory that existed before keeps its
   files, and whatever was in a simulation's new directory before its first write is still there,
   unchanged, at the END of the history — later simulations included *)
Theorem C19_history_never_clobbers : forall m ts ops c w wf recs,
  run_hist m src_tables src_mkdir_exclusive ts ops (init_state c) w 0 = (wf, recs) ->
  (forall d fs, wget d w = Some fs -> wget d wf = Some fs) /\
  (forall r, In r recs -> exists s fs, In s (sims ts ops c 0) /\ sm_ep s = r_ep r /\
     wget (r_dir r) wf = Some fs /\ forall f x, lookup f (sm_pre s) = Some x -> lookup f fs = Some x).
Proof.
  intros m ts ops c w wf recs H.
  exact (hist_never_clobbers m src_tables ts ops c w wf recs eq_refl (or_introl eq_refl) H).
Qed.
Print Assumptions C19_history_never_clobbers.

(* attribution at the END of the history, all modes, whatever was put into the new directories: every
   file a simulation reported still holds the bucket of THAT run of THAT simulation *)
Theorem C19_history_attributed : forall m ts ops c w wf recs,
  run_hist m src_tables src_mkdir_exclusive ts ops (init_state c) w 0 = (wf, recs) ->
  forall r, In r recs -> exists fs, wget (r_dir r) wf = Some fs /\ attributed (r_ep r) (r_rep r) fs.
Proof.
  intros m ts ops c w wf recs H.
  exact (hist_attributed m src_tables ts ops c w wf recs eq_refl (or_introl eq_refl) H).
Qed.
Print Assumptions C19_history_attributed.

(* non-vacuity: the request grows in place between two exposures on one object; the second run is judged
   against the grown request (and reports exactly its three files), the first against the original one *)
Example C19_ex_history :
  let c := {| c_req := [[(Image, [Fits])]]; c_folder := "out"; c_prefix := "" |} in
  let ops := [Run 1 []; Edit (EAppendDict [(Pixel, [Npy])]); Edit (EAppendFmt 0 Image Npy); Run 1 []] in
  map sm_req (sims "T" ops c 0) = [[[(Image, [Fits])]]; [[(Image, [Fits; Npy])]; [(Pixel, [Npy])]]] /\
  let '(wf, recs) := run_hist MExposure src_tables src_mkdir_exclusive "T" ops (init_state c) [("out/run_T", [("keep", 7%Z)])] 0 in
  map r_dir recs = ["out/run_T_1"; "out/run_T_2"] /\
  map (fun r => List.length (r_rep r)) recs = [1; 3] /\
  wget "out/run_T" wf = Some [("keep", 7%Z)].
Proof. vm_compute. repeat split; reflexivity. Qed.

(* non-vacuity, and the former counterexample: two observations started before either is computed, the
   request and the folder edited in between — each writes its own request into its own directory *)
Example C19_ex_history_lazy :
  let c := {| c_req := [[(Image, [Npy])]]; c_folder := "out"; c_prefix := "" |} in
  let ops := [Start 1 []; Edit (EAppendFmt 0 Image Fits); Edit (ESetFolder "new"); Start 1 []; Compute 1; Compute 0] in
  let '(wf, recs) := run_hist MDask src_tables src_mkdir_exclusive "T" ops (init_state c) [] 0 in
  map (fun r => (r_ep r, r_dir r, r_at r, List.length (r_rep r))) recs =
    [(1, "new/run_T", "new/run_T", 2); (0, "out/run_T", "out/run_T", 1)] /\
  wget "out/run_T" wf = Some [("detector_image_0.npy", 20%Z)].
Proof. vm_compute. repeat split; reflexivity. Qed.

(* ---------------------------------------------------------------- automatic numbering
   apply_run_number(run_number=None): the glob finds the matching names, the new file gets the largest
   trailing number + the step of the source (regenerated: src_auto).  For EVERY set of matching names:
   the new name is not one of them — so the writer's own existence test never fires and nothing that
   exists is replaced — and no existing name carries a number above it. *)
Theorem C19_auto_number_fresh : forall mids,
  ~ In (auto_mid src_auto mids) mids /\
  (forall m, In m mids -> get_number m < next_number src_auto mids).
Proof.
  intro mids. split.
  - apply auto_fresh. vm_compute. lia.
  - intros m Hin. destruct (auto_above_all src_auto mids m Hin) as [H|H]; [|exact H|vm_compute in H; discriminate H].
    intros ->. contradiction.
Qed.
Print Assumptions C19_auto_number_fresh.

Example C19_ex_auto :
  auto_mid src_auto ["9"; "10"; "x"; "007"] = "11" /\ auto_mid src_auto [] = "1" /\ get_number "run12" = 12 /\
  get_number "" = 0.
Proof. vm_compute. auto. Qed.
