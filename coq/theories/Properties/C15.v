(* C15 — charge-handling models neither create nor lose charge unaccountably.
   Only statements here; proofs live in Proofs/Conservation*.v.  Gen_C15 is regenerated on every run from
   inter_pixel_capacitance.py (ipc_kernel guards + 3x3 literal), collection.py, full_well.py and
   photoelectrons.py (apply_qe), so the theorems over src_* are re-proved against the current source. *)
From Coq Require Import QArith Qround Qminmax ZArith List Bool Lia Btauto Reals Psatz.
From PyxelV Require Import Model.Conservation Proofs.ConservationBasic Proofs.ConservationPersist
  Proofs.ConservationCdm Proofs.ConservationReal Proofs.ConservationExt.
From PyxelGen Require Import Gen_C15.
Import ListNotations.
Open Scope Q_scope.

(* ------------------------------------------------------------------------------------------ collection *)
(* the statement found in simple_collection adds exactly the generated charge *)
Theorem C15_collection_exact : forall pixel charge,
  src_collect pixel charge == pixel + charge /\ src_collect pixel charge == collect pixel charge.
Proof. intros. unfold src_collect, collect. split; ring. Qed.
Print Assumptions C15_collection_exact.

Theorem C15_collection_frame_total : forall px ch, length px = length ch ->
  qsum (qadd_list px ch) == qsum px + qsum ch /\ length (qadd_list px ch) = length px.
Proof. exact collect_frame_exact. Qed.
Print Assumptions C15_collection_frame_total.

(* the generated charge may be held as arrays (add_charge_array), as particles (add_charge: cosmic rays, charge
   deposition) or both, in any order: `Charge.array` re-bins the particle frame, and collection adds exactly the
   generated charge - per pixel what the container's array holds, in total every array entry and every particle *)
Theorem C15_collection_any_representation : forall rows cols sv sh pixel ops,
  length pixel = (rows * cols)%nat -> forallb (op_ok rows cols sv sh) ops = true ->
  collect_ops cols sv sh pixel ops
    = qadd_list pixel (charge_array cols sv sh ops (map (fun _ => 0) pixel))
  /\ qsum (collect_ops cols sv sh pixel ops) == qsum pixel + ops_total ops
  /\ length (collect_ops cols sv sh pixel ops) = length pixel.
Proof. intros. split; [reflexivity | apply (collect_ops_exact rows); assumption]. Qed.
Print Assumptions C15_collection_any_representation.

(* a particle is binned into the pixel that contains its position *)
Theorem C15_particle_binning : forall pos size, 0 < size ->
  inject_Z (bin_idx pos size) * size <= pos /\ pos < (inject_Z (bin_idx pos size) + 1) * size.
Proof. exact bin_idx_spec. Qed.
Print Assumptions C15_particle_binning.

(* ------------------------------------------------------------------------------------------ QE *)
(* sampling off: exactly efficiency times photons, between zero and the photon count *)
Theorem C15_qe_bounds : forall q p, 0 <= q <= 1 -> 0 <= p ->
  src_qe_off q p == q * p /\ 0 <= src_qe_off q p <= p /\ src_qe_off q p == qe_off q p.
Proof.
  intros q p Hq Hp. assert (E : src_qe_off q p == qe_off q p) by (unfold src_qe_off, qe_off; ring).
  rewrite E. split; [apply qe_off_exact|]. split; [apply qe_off_bounds; assumption | reflexivity].
Qed.
Print Assumptions C15_qe_bounds.

(* sampling on: for ANY draw function with the range of a binomial variate the charge is an integer
   in [0, floor(photons)] (in particular never more than the photons) *)
Theorem C15_qe_sampling_bounds : forall binom : Z -> Q -> Z,
  (forall n q, (0 <= n)%Z -> 0 <= q <= 1 -> (0 <= binom n q <= n)%Z) ->
  forall q p, 0 <= q <= 1 -> 0 <= p ->
  0 <= qe_on binom q p <= inject_Z (Qfloor p) /\ qe_on binom q p <= p
  /\ qe_on binom q p == inject_Z (Qfloor (qe_on binom q p)).
Proof. exact qe_on_bounds. Qed.
Print Assumptions C15_qe_sampling_bounds.

(* a draw with success probability 1 (0) returns all (none) of its trials: exactly floor(photons) (zero) *)
Theorem C15_qe_sampling_degenerate : forall binom : Z -> Q -> Z,
  (forall n, (0 <= n)%Z -> binom n 1 = n) -> (forall n, (0 <= n)%Z -> binom n 0 = 0%Z) ->
  forall p, 0 <= p -> qe_on binom 1 p = inject_Z (Qfloor p) /\ qe_on binom 0 p = 0.
Proof. exact qe_on_degenerate. Qed.
Print Assumptions C15_qe_sampling_degenerate.

(* simple_conversion, as read from the source: the model argument, when given - 0.0 included -, is the efficiency;
   otherwise the characteristics'; the accepted range is [0, 1] *)
Theorem C15_qe_sources : forall arg char,
  src_qe_select arg char = select_arg arg char
  /\ (forall a, src_qe_select (Some a) char = Some a)
  /\ src_qe_select None char = char
  /\ (forall q, src_qe_range q = true <-> 0 <= q <= 1)
  /\ (forall q, (if src_qe_range q then Some q else None) = qe_select (Some q) None).
Proof.
  intros. split; [destruct arg; reflexivity|]. split; [reflexivity|]. split; [reflexivity|]. split.
  - intros q. unfold src_qe_range. rewrite ?andb_true_iff, ?Qle_bool_iff. tauto.   (* any order / nesting of the two bounds *)
  - intros q. reflexivity.
Qed.
Print Assumptions C15_qe_sources.

(* conversion_with_qe_map: the per-pixel range check read from the source is 0 <= q <= 1; an accepted map
   converts every pixel with its own efficiency (exactly q*p, between zero and the photons of THAT pixel); a map
   with a value outside [0, 1] is refused *)
Theorem C15_qe_map : forall qs photon,
  (forall q, src_qe_map_range q = true <-> 0 <= q <= 1)
  /\ (forall out, length qs = length photon -> nonneg photon -> qe_map_model qs photon = Some out ->
       Forall (fun q => 0 <= q <= 1) qs
       /\ Forall2 (fun qp o => o == fst qp * snd qp /\ 0 <= o <= snd qp) (combine qs photon) out)
  /\ (qe_map_model qs photon = None <-> ~ Forall (fun q => 0 <= q <= 1) qs).
Proof.
  intros. split.
  - intros q. unfold src_qe_map_range. rewrite ?andb_true_iff, ?Qle_bool_iff. tauto.
  - split; [intros out; apply qe_map_bounds | apply qe_map_refused].
Qed.
Print Assumptions C15_qe_map.

(* ------------------------------------------------------------------------------------------ full well *)
Theorem C15_fullwell : forall c x,
  src_full_well c x == Qmin x c
  /\ src_full_well c (src_full_well c x) = src_full_well c x
  /\ src_full_well c x = full_well c x.
Proof.
  intros. assert (E : forall y, src_full_well c y = full_well c y) by reflexivity.
  rewrite !E. split; [apply full_well_min|]. split; [apply full_well_idem | reflexivity].
Qed.
Print Assumptions C15_fullwell.

Theorem C15_fullwell_guard : forall c xs,
  (c < 0 -> simple_full_well c xs = None) /\ (0 <= c -> simple_full_well c xs = Some (map (full_well c) xs)).
Proof. exact simple_full_well_guard. Qed.
Print Assumptions C15_fullwell_guard.

(* simple_full_well, as read from the source: the argument, when given, IS the capacity (it overrides the
   characteristics, in every order relation of the two); otherwise the characteristics'; below zero raises *)
Theorem C15_fullwell_sources : forall arg char xs,
  src_fw_select arg char = select_arg arg char
  /\ (forall c, src_fw_raises c = Qltb c 0)
  /\ (forall a, arg = Some a -> simple_full_well_sel arg char xs = simple_full_well a xs)
  /\ (arg = None -> forall c, char = Some c -> simple_full_well_sel arg char xs = simple_full_well c xs)
  /\ (arg = None -> char = None -> simple_full_well_sel arg char xs = None).
Proof.
  intros. split; [destruct arg; reflexivity|]. split; [reflexivity|]. apply full_well_sel_spec.
Qed.
Print Assumptions C15_fullwell_sources.

(* ------------------------------------------------------------------------------------------ IPC *)
(* the nine weights of the kernel literal found in the source sum to one, for ALL couplings *)
Theorem C15_ipc_weights : forall c d a, qsum (kernel_list (src_ipc_weights c d a)) == 1.
Proof. intros. unfold kernel_list, src_ipc_weights; simpl. ring. Qed.
Print Assumptions C15_ipc_weights.

(* the hand-written model used in the correspondence leg is the kernel and the guards of the source *)
Theorem C15_ipc_source_is_model : forall c d a,
  qeqs (kernel_list (src_ipc_weights c d a)) (kernel_list (ipc_weights c d a)) = true
  /\ src_ipc_guard c d a = ipc_guard c d a.
Proof.
  intros. split.
  - unfold qeqs, kernel_list, src_ipc_weights, ipc_weights; simpl.
    repeat (apply andb_true_iff; split); try reflexivity; apply Qeq_bool_iff; ring.
  - unfold src_ipc_guard, ipc_guard. btauto.
Qed.
Print Assumptions C15_ipc_source_is_model.

(* compute_ipc_convolution, as read from the source: ONE convolution of the WHOLE frame with the kernel of ipc_kernel,
   the edges extended with the mean of the frame - which is what ipc_conv models (a frame convolved in pieces, on a
   slice, in a loop, or with another boundary rule is not this model: the translator refuses it or says false here) *)
Theorem C15_ipc_convolution_source : src_ipc_conv_whole_frame = true /\ src_ipc_conv_mean_fill = true.
Proof. split; reflexivity. Qed.
Print Assumptions C15_ipc_convolution_source.

(* a constant frame of any shape is a fixed point (fill value = mean = the constant); shape preserved *)
Theorem C15_ipc_uniform : forall c d a v fr,
  concat fr <> [] -> uniform v fr ->
  uniform v (ipc_conv (src_ipc_weights c d a) fr)
  /\ map (@length Q) (ipc_conv (src_ipc_weights c d a) fr) = map (@length Q) fr.
Proof.
  intros c d a v fr NE U. split; [|apply ipc_conv_shape].
  apply ipc_uniform; [apply C15_ipc_weights | exact U | exact NE].
Qed.
Print Assumptions C15_ipc_uniform.

(* ------------------------------------------------------------------------------------------ persistence *)
(* The full statement of the property (refuted in round 1 by the faithful model of the then code - finding C15-F14,
   repaired by `fix: persistence returns the clipped charge of every trap species to the pixel`; the model is the
   repaired code): pixel' + sum trapped' = pixel + sum trapped and trapped' >= 0, for ANY number n >= 1 of trap
   species inside the documented ranges. *)
Theorem C15_persistence_conserves :
  forall sp tr p, length sp = length tr -> sp <> [] ->
    forallb species_ok sp = true -> forallb (Qle_bool 0) tr = true -> 0 <= p ->
    fst (persist_pixel sp tr p) + qsum (snd (persist_pixel sp tr p)) == p + qsum tr
    /\ nonneg (snd (persist_pixel sp tr p)).
Proof.
  intros sp tr p Hl _ Hs Ht Hp. split; [apply persist_conserves; exact Hl|].
  apply (persist_nonneg sp tr p (species_ok_all sp Hs) (nonneg_b tr Ht) Hp).
Qed.
Print Assumptions C15_persistence_conserves.

(* the former failing input (100 e-, two species of densities 1/2 and 1/4, time factor 1, empty traps; the
   unrepaired code returned 40.625 + 18.75 + 9.375 = 68.75) now keeps its 100 e- *)
Definition witness_species : list species :=
  simple_species 1 [1; 1] [1 # 2; 1 # 4] None.

Theorem C15_persistence_witness_values :
  let r := persist_pixel witness_species [0; 0] 100 in
  Qred (fst r) = 575 # 8 /\ map Qred (snd r) = [75 # 4; 75 # 8] /\ Qred (fst r + qsum (snd r)) = 100.
Proof. vm_compute. repeat split. Qed.
Print Assumptions C15_persistence_witness_values.

(* conservation itself needs no range hypothesis: any number of species (zero included), ANY parameters *)
Theorem C15_persistence_conserves_any_parameters : forall sp tr p, length sp = length tr ->
  fst (persist_pixel sp tr p) + qsum (snd (persist_pixel sp tr p)) == p + qsum tr
  /\ length (snd (persist_pixel sp tr p)) = length tr.
Proof. intros. split; [apply persist_conserves | apply persist_length]; assumption. Qed.
Print Assumptions C15_persistence_conserves_any_parameters.

(* trapped charge and the pixel never become negative: any number of species in the documented ranges *)
Theorem C15_persistence_nonneg : forall sp tr p,
  forallb species_ok sp = true -> forallb (Qle_bool 0) tr = true -> 0 <= p -> length sp = length tr ->
  0 <= fst (persist_pixel sp tr p) /\ nonneg (snd (persist_pixel sp tr p))
  /\ length (snd (persist_pixel sp tr p)) = length tr.
Proof.
  intros sp tr p Hs Ht Hp Hl.
  destruct (persist_nonneg sp tr p (species_ok_all sp Hs) (nonneg_b tr Ht) Hp) as [A B].
  repeat split; try assumption. apply persist_length; assumption.
Qed.
Print Assumptions C15_persistence_nonneg.

(* repeated application over any number of readouts, each collecting `add >= 0` electrons first, any number of
   species: invariants kept and the total is EXACTLY what was there plus everything collected *)
Theorem C15_persistence_steps : forall steps tr p,
  Forall (step_ok (length tr)) steps -> nonneg tr -> 0 <= p ->
  0 <= fst (persist_steps steps tr p) /\ nonneg (snd (persist_steps steps tr p))
  /\ length (snd (persist_steps steps tr p)) = length tr
  /\ fst (persist_steps steps tr p) + qsum (snd (persist_steps steps tr p))
     == p + qsum tr + qsum (map fst steps).
Proof. exact persist_steps_inv. Qed.
Print Assumptions C15_persistence_steps.

Theorem C15_persistence_steps_total : forall steps tr p,
  Forall (fun st => length (snd st) = length tr) steps ->
  length (snd (persist_steps steps tr p)) = length tr
  /\ fst (persist_steps steps tr p) + qsum (snd (persist_steps steps tr p))
     == p + qsum tr + qsum (map fst steps).
Proof. exact persist_steps_total. Qed.
Print Assumptions C15_persistence_steps_total.

(* the parameter ranges documented for the two entry points give species inside the ranges used above *)
Theorem C15_persistence_entry_points :
  (forall dt taus ds caps, 0 <= dt -> Forall (fun tau => 0 < tau) taus -> Forall (fun d => 0 <= d <= 1) ds ->
     match caps with Some cs => nonneg cs | None => True end -> length taus = length ds ->
     Forall species_okP (simple_species dt taus ds caps)
     /\ length (simple_species dt taus ds caps) = length taus)
  /\ (forall dt taus props d c, 0 <= dt -> Forall (fun tau => 0 < tau) taus ->
     Forall (fun pr => 0 <= pr <= 1) props -> 0 <= d <= 1 ->
     match c with Some c => 0 <= c | None => True end -> length taus = length props ->
     Forall species_okP (full_species dt taus props d c)
     /\ length (full_species dt taus props d c) = length taus).
Proof.
  split; intros; split;
    auto using simple_species_ok, simple_species_length, full_species_ok, full_species_length.
Qed.
Print Assumptions C15_persistence_entry_points.

(* ------------------------------------------------------------------------------------------ CDM *)
(* _partial: the exponential / power factors are arbitrary numbers in their ranges (bw = a**(beta-1) >= 0,
   pc = 1-exp(..) and r = 1-exp(-t/tr) in [0,1], a**beta taken as a*bw); the arithmetic is exact (Q), not
   binary64.  One capture / release step: 0 <= nc < a; nothing negative; pixel + occupancy does not grow
   and shrinks by less than the 0.01 e- cut. *)
Theorem C15_cdm_step_partial : forall gm bw pc r a no,
  0 <= gm -> (thr < a -> 0 <= bw) -> 0 <= pc <= 1 -> 0 <= r <= 1 -> 0 <= a -> 0 <= no ->
  (0 <= cdm_capture gm bw pc a no /\ (thr < a -> cdm_capture gm bw pc a no < a)
   /\ (a <= thr -> cdm_capture gm bw pc a no = 0))
  /\ 0 <= fst (cdm_step gm bw pc r a no) /\ 0 <= snd (cdm_step gm bw pc r a no)
  /\ fst (cdm_step gm bw pc r a no) + snd (cdm_step gm bw pc r a no) <= a + no
  /\ a + no - thr < fst (cdm_step gm bw pc r a no) + snd (cdm_step gm bw pc r a no).
Proof.
  intros. split; [apply cdm_capture_bounds; assumption | apply cdm_step_ok; assumption].
Qed.
Print Assumptions C15_cdm_step_partial.

(* lifted by induction over species, pixels along the transfer direction and lines: any frame (columns for
   the parallel direction, rows for the serial one), any number of species, traps empty at the start *)
Theorem C15_cdm_partial : forall P : cdm_par,
  (forall i k, 0 <= gam P i k) -> (forall i k a, thr < a -> 0 <= pw P i k a) ->
  (forall i k a, 0 <= pcap P i k a <= 1) -> (forall k, 0 <= rel P k <= 1) ->
  forall nsp lines, Forall nonneg lines ->
  Forall2 (fun li lo => nonneg lo /\ length lo = length li /\ qsum lo <= qsum li) lines (cdm_run P nsp lines)
  /\ qsum (map qsum (cdm_run P nsp lines)) <= qsum (map qsum lines).
Proof.
  intros P H1 H2 H3 H4 nsp lines Hl. split; [apply cdm_run_ok | apply cdm_run_total]; assumption.
Qed.
Print Assumptions C15_cdm_partial.

(* the traps hand charge to LATER packets only: no prefix of a line (in transfer order) ends with more charge
   than that prefix received - the line total is the last prefix *)
Theorem C15_cdm_prefix_partial : forall P : cdm_par,
  (forall i k, 0 <= gam P i k) -> (forall i k a, thr < a -> 0 <= pw P i k a) ->
  (forall i k a, 0 <= pcap P i k a <= 1) -> (forall k, 0 <= rel P k <= 1) ->
  forall nsp lines, Forall nonneg lines ->
  Forall2 (fun li lo => forall m, qsum (firstn m lo) <= qsum (firstn m li)) lines (cdm_run P nsp lines).
Proof. intros P H1 H2 H3 H4 nsp lines Hl. apply cdm_run_prefix; assumption. Qed.
Print Assumptions C15_cdm_prefix_partial.

(* ANY beta, tied to the implementation: the power / exponential factors enter as the table of values numpy
   evaluates at every (packet, species) of every line - whatever they are, as long as they lie in their ranges (which
   the case files check with `table_ok`) - and the bookkeeping is the model's.  Every line: nothing negative, same
   length, and no prefix (hence not the total either) above what it received. *)
Theorem C15_cdm_any_beta_table_partial : forall gs rs inj tbls lines,
  nonneg gs -> Forall (fun r => 0 <= r <= 1) rs -> match inj with Some n => 0 <= n | None => True end ->
  forallb table_ok tbls = true -> length tbls = length lines -> Forall nonneg lines ->
  Forall2 (fun li lo => nonneg lo /\ length lo = length li /\ (forall m, qsum (firstn m lo) <= qsum (firstn m li)))
          lines (cdm_run_each (map (cdm_par_table gs rs inj) tbls) (length gs) lines).
Proof. exact cdm_table_run_ok. Qed.
Print Assumptions C15_cdm_any_beta_table_partial.

(* the range checks of the wrapper, as read from the source (finding C15-cdm-nan, repaired by `fix: cdm rejects a
   zero 'max_electron_volume' and a zero full well capacity`): exactly the documented ranges with the two divisors
   of the capture coefficients strictly positive; the capacity is the argument when given, else the
   characteristics' *)
Theorem C15_cdm_guard : forall vg beta fwc t,
  src_cdm_guard vg beta fwc t = cdm_params_ok vg beta fwc t
  /\ (src_cdm_guard vg beta fwc t = true ->
      0 < 2 * vg /\ 0 < fwc /\ vg <= 1 /\ fwc <= 10000000 /\ 0 <= beta <= 1 /\ 0 <= t <= 10)
  /\ src_cdm_guard 0 beta fwc t = false /\ src_cdm_guard vg beta 0 t = false
  /\ (forall arg char, src_cdm_fwc_select arg char = select_arg arg char).
Proof.
  intros. assert (E : forall a b c d, src_cdm_guard a b c d = cdm_params_ok a b c d).
  { intros. unfold src_cdm_guard, cdm_params_ok. btauto. }
  rewrite !E. split; [reflexivity|]. split; [apply cdm_params_divisors|].
  destruct (cdm_params_reject_zero beta fwc t vg) as [A B].
  split; [exact A|]. split; [exact B|]. intros [a|] char; reflexivity.
Qed.
Print Assumptions C15_cdm_guard.

(* the real functions approximated by the code meet those ranges (this one uses the real-number axioms) *)
Theorem C15_cdm_real_factors :
  (forall a b, (0 < a)%R -> Rpower a b = (a * Rpower a (b - 1))%R)
  /\ (forall a b, (0 <= Rpower a b)%R)
  /\ (forall x, (0 <= x)%R -> (0 <= 1 - exp (- x) <= 1)%R)
  /\ (forall a beta gamma no pc, (0 < a)%R -> (0 <= gamma)%R -> (0 <= no)%R -> (0 <= pc <= 1)%R ->
        ((gamma * Rpower a beta - no) / (gamma * Rpower a (beta - 1) + 1) * pc < a)%R).
Proof.
  repeat split; try apply one_minus_exp_range; try assumption.
  - intros; apply Rpower_split; assumption.
  - apply Rpower_nonneg.
  - intros; apply cdm_capture_real; assumption.
Qed.
Print Assumptions C15_cdm_real_factors.

(* ------------------------------------------------------------------------------------------ non-vacuity *)
Example ex_binom_hyp_satisfiable :
  forall n q, (0 <= n)%Z -> 0 <= q <= 1 -> (0 <= (fun n (_ : Q) => n) n q <= n)%Z.
Proof. intros; lia. Qed.

Example ex_collect_ops :
  let ops := [OpArray [1; 2; 3; 4]; OpParticles [{| p_ver := 15; p_hor := 5; p_num := 120 |};
                                                 {| p_ver := 0; p_hor := 10; p_num := 7 |}]; OpArray [0; 0; 1 # 2; 0]] in
  forallb (op_ok 2 2 10 10) ops = true
  /\ map Qred (collect_ops 2 10 10 [10; 20; 30; 40] ops) = [11; 29; 307 # 2; 44].
Proof. vm_compute. split; reflexivity. Qed.

Example ex_degenerate_draw_satisfiable :
  let b := fun (n : Z) (q : Q) => if Qeq_bool q 0 then 0%Z else n in
  (forall n, (0 <= n)%Z -> b n 1 = n) /\ (forall n, (0 <= n)%Z -> b n 0 = 0%Z).
Proof. split; intros; reflexivity. Qed.

Example ex_qe_map : qe_map_model [1 # 2; 0; 1] [7 # 2; 9; 5 # 4] = Some [(7 # 2) * (1 # 2); 9 * 0; (5 # 4) * 1]
  /\ qe_map_model [1 # 2; 5 # 4] [3; 3] = None.
Proof. split; reflexivity. Qed.

Example ex_ipc_in_range : ipc_guard (1 # 8) (1 # 16) (1 # 32) = true
  /\ uniform 7 [[7; 7]; [7; 7]] /\ concat [[7; 7]; [7; 7]] <> [].
Proof. split; [reflexivity|]. split; [repeat constructor; reflexivity | discriminate]. Qed.

Example ex_persist_hyps :
  forallb species_ok (simple_species 1 [1; 8; 64] [1 # 2; 1 # 4; 1 # 8] (Some [8; 4; 2])) = true
  /\ step_ok 2 (5, witness_species).
Proof.
  split; [reflexivity|]. unfold step_ok. split; [simpl; lra|]. split; [reflexivity|].
  apply species_ok_all. reflexivity.
Qed.

(* three clipped species with capacities, two readouts: every electron is accounted for *)
Example ex_persist_three_species_clipped :
  let sp := simple_species 2 [1; 1; 4] [1 # 2; 1 # 4; 1 # 8] (Some [8; 4; 2]) in
  let r := persist_steps [(0, sp); (50, sp)] [0; 0; 0] 100 in
  Qred (fst r + qsum (snd r)) = 150 /\ map Qred (snd r) = [8; 4; 2].
Proof. vm_compute. split; reflexivity. Qed.

(* beta = 0.3-like factors for two packets and one species: the table instance runs and obeys the bound *)
Example ex_cdm_table :
  let tbl := [[(1 # 8, 1 # 2)]; [(1 # 4, 1 # 4)]; [(0, 0)]] in
  table_ok tbl = true
  /\ map Qred (hd [] (cdm_run_each [cdm_par_table [1 # 2] [1 # 4] None tbl] 1 [[1000; 10; 0]]))
     = [1000; 235 # 24; 5 # 96].
Proof. vm_compute. split; reflexivity. Qed.

Example ex_cdm_params : cdm_params_ok (1 # 10000000000) (3 # 10) 100000 (1 # 1000) = true
  /\ cdm_params_ok 0 (3 # 10) 100000 0 = false.
Proof. split; reflexivity. Qed.

(* a step that really captures and releases: a = 1000, gamma = 1/2, occupancy 3, pc = 1/2, r = 1/4 *)
Example ex_cdm_step_nontrivial :
  let r := cdm_step (1 # 2) 1 (1 # 2) (1 # 4) 1000 3 in
  Qred (cdm_capture (1 # 2) 1 (1 # 2) 1000 3) = 497 # 3 /\ Qred (fst r) = 1753 # 2 /\ Qred (snd r) = 253 # 2.
Proof. vm_compute. repeat split. Qed.

Example ex_cdm_beta1_hyps : forall nsp lines, Forall nonneg lines ->
  Forall2 (fun li lo => nonneg lo /\ length lo = length li /\ qsum lo <= qsum li) lines
    (cdm_run (cdm_par_beta1 [1 # 4; 1 # 8] [1; 1 # 2] [1 # 2; 0] None) nsp lines).
Proof.
  intros. apply cdm_beta1_ok; try assumption; try exact I; repeat constructor; try lra.
Qed.
