(* C13 — data buckets only ever hold arrays of the detector's shape and unit type.
   Only statements here; proofs live in Proofs/Containers*.v.  Gen_C13.src_tables is regenerated on
   every run from pyxel/data_structure/{array,photon,pixel,signal,image,phase}.py,
   pyxel/detectors/detector.py, pyxel/detectors/mkid/mkid.py and the installed numpy.

   Round 2: the defects C13-F2a/b/c (Photon += / + and the detector's photon setter let unvalidated
   arrays in), C13-F2d (ArrayBase += / + changed the stored array before rejecting the result) and
   C13-F3a/b/c (asymmetric, raising, geometry-blind ==) are repaired in the code; the
   former `_refuted` / `_partial` theorems are replaced by the full statements below.  The translator
   still recognises the old shapes of that code and then emits tables for which `tables_ok` is false,
   so a regression breaks C13_source_tables_ok and everything that depends on it. *)
From Coq Require Import ZArith List Bool.
From PyxelV Require Import Model.Containers Proofs.Containers Proofs.ContainersEq Proofs.ContainersAssign Proofs.ContainersJudge.
From PyxelGen Require Import Gen_C13.
Import ListNotations.

(* The source says what the property needs: every TYPE_LIST within the allowed element types
   (floating point; unsigned for image), every guard of ArrayBase._validate and of the two Photon
   setters present, negative photons clipped, float64 accepted by Pixel (its empty() stores zeros),
   no raw detector setter for ANY bucket, Photon.__iadd__ and Photon.__add__ store through the
   setters on every branch, ArrayBase.__eq__ compares emptiness on both sides and Photon.__eq__
   compares the geometry, every getter (and both __array__ methods) refuses an empty container,
   empty() stores None (float zeros allowed for Pixel only), Detector.empty empties photon, signal,
   image always and pixel at least under reset, MKID.empty zeroes the phase array under reset,
   ArrayBase.__iadd__ / __add__ add on a copy (nothing is changed before the result is validated). *)
Theorem C13_source_tables_ok : tables_ok src_tables = true.
Proof. vm_compute. reflexivity. Qed.
Print Assumptions C13_source_tables_ok.

Definition ex_ok2d := mk_np [2; 3] F32 [1; 2; 3; 4; 5; 6]%Z.
Definition ex_neg2d := mk_np [2; 3] F64 [(-1); 2; 3; 4; 5; 6]%Z.
Definition ex_wrong := mk_np [3; 2] F64 [1; 2; 3; 4; 5; 6]%Z.
Definition ex_3d_ok := mk_xr [0; 1; 2] (Some [400; 420]%Z) [2; 2; 3] F64 [1; 1; 1; 1; 1; 1; 2; 1; 1; 1; 1; 1]%Z.
Definition ex_3d := mk_xr [0; 1; 2] (Some [400; 420]%Z) [2; 2; 3] F64 [1; 1; 1; 1; 1; 1; (-2); 1; 1; 1; 1; 1]%Z.
(* ------------------------------------------------------------------ the invariant *)

(* ALL operation sequences (set, set3d, update, +=, +, empty, reads, ==, detector assignment,
   detector.empty), all buckets, from every state that satisfies the invariant and whose stored array
   is one its own setter accepts (`accepted`: what `self.array += x` relies on — true of the empty
   container and preserved by every operation): every intermediate state and the final state satisfy
   the invariant, and stay accepted.  No operation is excluded. *)
Theorem C13_inv :
  forall (ops : list op) (c : container),
    Inv c -> accepted src_tables c = true ->
    Forall Inv (states src_tables c ops) /\ Inv (run src_tables c ops)
    /\ accepted src_tables (run src_tables c ops) = true.
Proof.
  intros ops c Hc Ha. split; [|split].
  - apply states_inv; [exact C13_source_tables_ok | exact Hc | exact Ha].
  - apply run_inv; [exact C13_source_tables_ok | exact Hc | exact Ha].
  - apply run_accepted; [exact C13_source_tables_ok | exact Ha].
Qed.
Print Assumptions C13_inv.

(* the containers of a fresh detector: any kind, any geometry, any operation sequence *)
Theorem C13_inv_from_empty :
  forall (k : ckind) (r c : nat) (ops : list op),
    Forall Inv (states src_tables (empty_container k r c) ops)
    /\ Inv (run src_tables (empty_container k r c) ops).
Proof.
  intros k r c ops.
  destruct (C13_inv ops (empty_container k r c) (inv_empty k r c) (accepted_empty src_tables k r c)) as [H1 [H2 _]].
  split; assumption.
Qed.
Print Assumptions C13_inv_from_empty.

(* what the invariant says, in words *)
Theorem C13_inv_meaning :
  forall c a, Inv c -> c_content c = Some a ->
    spec_allowed (c_kind c) (a_dt a) = true
    /\ (a_xr a = None -> a_shape a = [c_rows c; c_cols c])
    /\ (a_xr a <> None -> c_kind c = Photon /\ exists w, a_shape a = [w; c_rows c; c_cols c])
    /\ (c_kind c = Photon -> all_nonneg (a_data a) = true).
Proof.
  intros c a Hc Ha. unfold Inv, inv_b in Hc. rewrite Ha in Hc.
  assert (H := Hc). unfold arr_ok in H.
  apply andb_prop in H. destruct H as [H Hnn]. apply andb_prop in H. destruct H as [Hdt Hsh].
  split; [exact Hdt|]. split; [|split].
  - intro Hx. rewrite Hx in Hsh. apply shape_eqb_eq. exact Hsh.
  - intro Hx. destruct (a_xr a) as [xi|] eqn:E; [|congruence].
    apply andb_prop in Hsh. destruct Hsh as [Hsh _]. apply andb_prop in Hsh. destruct Hsh as [Hk _].
    assert (Hk' : c_kind c = Photon) by (destruct (c_kind c); simpl in Hk; try discriminate; reflexivity).
    split; [exact Hk'|]. rewrite Hk' in Hc. apply arr_ok_photon_shape in Hc. rewrite E in Hc. exact Hc.
  - intro Hk. rewrite Hk in Hnn. exact Hnn.
Qed.
Print Assumptions C13_inv_meaning.

(* ------------------------------------------------------------------ failed operations, reads *)

(* after ANY history from an empty container, an operation that raises leaves the state untouched *)
Theorem C13_failed_assign_preserves :
  forall (c0 : container) (ops : list op) (o : op) (c' : container) (e : exc),
    c_content c0 = None ->
    step src_tables (run src_tables c0 ops) o = (c', Raise e) -> c' = run src_tables c0 ops.
Proof. intros c0 ops o c' e H0 H. exact (failed_op_preserves src_tables C13_source_tables_ok c0 ops o c' e H0 H). Qed.
Print Assumptions C13_failed_assign_preserves.

(* reading an empty container raises — through `.array`, `.array_3d` and `np.asarray(container)`; proved from the
   regenerated guard tables of the five getters *)
Theorem C13_read_empty_raises :
  forall c, c_content c = None ->
    (exists e, step src_tables c ORead = (c, Raise e))
    /\ (c_kind c = Photon -> exists e, step src_tables c ORead3D = (c, Raise e))
    /\ (exists e, step src_tables c OAsArray = (c, Raise e)).
Proof.
  intros c H. split; [|split].
  - apply read_empty_raises; [exact C13_source_tables_ok | exact H].
  - intro Hk. apply read3d_empty_raises; [exact C13_source_tables_ok | exact Hk | exact H].
  - apply asarray_empty_raises; [exact C13_source_tables_ok | exact H].
Qed.
Print Assumptions C13_read_empty_raises.

(* ... and, as the source stands, with the explanatory ValueError (TypeError from ArrayBase.__array__) *)
Example C13_ex_read_empty_classes :
  step src_tables (empty_container Signal 2 2) ORead = (empty_container Signal 2 2, Raise ValueError)
  /\ step src_tables (empty_container Photon 2 2) ORead = (empty_container Photon 2 2, Raise ValueError)
  /\ step src_tables (empty_container Photon 2 2) ORead3D = (empty_container Photon 2 2, Raise ValueError)
  /\ step src_tables (empty_container Photon 2 2) OAsArray = (empty_container Photon 2 2, Raise ValueError)
  /\ step src_tables (empty_container Image 2 2) OAsArray = (empty_container Image 2 2, Raise TypeError).
Proof. vm_compute. repeat split; reflexivity. Qed.

(* never stale data: a read that returns, returns the stored array and changes nothing *)
Theorem C13_read_returns_content :
  forall c c' a, (step src_tables c ORead = (c', RetArr a) \/ step src_tables c ORead3D = (c', RetArr a)
                  \/ step src_tables c OAsArray = (c', RetArr a)) ->
    c' = c /\ c_content c = Some a.
Proof. intros. eapply read_returns_content; eauto. Qed.
Print Assumptions C13_read_returns_content.

(* resets leave nothing behind: after empty(), update(None) (ArrayBase classes) and detector.empty(reset=True) the
   container is empty — float zeros for Pixel, zeros (NaN where it was not finite) for the MKID phase —
   whatever it held before; proved from the regenerated tables of empty()/update()/Detector.empty/MKID.empty *)
Theorem C13_reset_leaves_nothing :
  forall c o, (o = OEmpty \/ o = OUpdate None \/ o = ODEmpty true) -> (o = OUpdate None -> c_kind c <> Photon) ->
    reset_ok (c_kind c) o (c_content c) (c_content (fst (step src_tables c o))) = true.
Proof. exact (reset_leaves_nothing src_tables C13_source_tables_ok). Qed.
Print Assumptions C13_reset_leaves_nothing.

Example C13_ex_reset :
  c_content (fst (step src_tables (mk_cont Photon 2 3 (Some ex_3d_ok)) OEmpty)) = None
  /\ c_content (fst (step src_tables (mk_cont Pixel 1 2 (Some (mk_np [1; 2] F32 [5; 6]%Z))) (ODEmpty true)))
     = Some (mk_np [1; 2] F64 [0; 0]%Z)
  /\ c_content (fst (step src_tables (mk_cont Pixel 1 2 (Some (mk_np [1; 2] F32 [5; 6]%Z))) (ODEmpty false)))
     = Some (mk_np [1; 2] F32 [5; 6]%Z)
  /\ c_content (fst (step src_tables (mk_cont Phase 1 2 (Some (mk_np [1; 2] F32 [5; zPInf]%Z))) (ODEmpty true)))
     = Some (mk_np [1; 2] F32 [0; zNaN]%Z)
  /\ reset_ok Signal OEmpty None (Some (mk_np [1; 2] F32 [5; 6]%Z)) = false.
Proof. vm_compute. repeat split; reflexivity. Qed.

(* ------------------------------------------------------------------ assignments *)

(* "An assignment that violates this raises an error and leaves the previous content untouched": for EVERY
   state of the container -- fresh, emptied or already FILLED with any array -- and every way of assigning
   (c.array = a, photon.array_3d = a, c.update(a), `+=` / `+` on an empty container, detector.<bucket> = other),
   an array that is no legal content (element type, ndarray/DataArray, shape, dims, wavelength coordinate) is
   refused with an exception and the container is left exactly as it was.  No hypothesis on the state: what is
   already stored never makes an illegal array acceptable. *)
Theorem C13_illegal_assign_raises :
  forall (c : container) (o : op) (a : arr),
    assignment_of (c_kind c) o (c_content c) = Some (AsgArr a) ->
    arr_form_ok (c_kind c) (c_rows c) (c_cols c) a = false ->
    exists e, step src_tables c o = (c, Raise e).
Proof. exact (illegal_assign_raises src_tables C13_source_tables_ok). Qed.
Print Assumptions C13_illegal_assign_raises.

(* never stale data after an assignment: an assignment that completes leaves exactly the assigned array in the
   container (photons: negatives clipped to 0) whatever was stored before, and `detector.<bucket> = other` with an
   EMPTY `other`, when it completes, leaves the bucket empty *)
Theorem C13_assign_stores :
  forall (c : container) (o : op),
    snd (step src_tables c o) = Done ->
    match assignment_of (c_kind c) o (c_content c) with
    | Some (AsgArr a) => c_content (fst (step src_tables c o)) = Some (stored_form (c_kind c) a)
    | Some AsgEmpty => c_content (fst (step src_tables c o)) = None
    | None => True
    end.
Proof. exact (assign_stores src_tables C13_source_tables_ok). Qed.
Print Assumptions C13_assign_stores.

(* non-vacuity: wrong element types on FILLED containers of every kind, through every entry point; an empty
   Photon assigned to a populated photon bucket (2-D and 3-D); what the judge of the implementation's
   observations (`assign_violations`) says about a silent conversion and about stale photons *)
Definition w_sig_f32 := mk_cont Signal 2 2 (Some (mk_np [2; 2] F32 [1; 2; 3; 4]%Z)).
Definition w_img_u16 := mk_cont Image 2 2 (Some (mk_np [2; 2] U16 [7; 7; 7; 7]%Z)).
Definition w_ph_2d := mk_cont Photon 2 3 (Some ex_ok2d).
Definition w_ph_3d := mk_cont Photon 2 3 (Some ex_3d_ok).

Example C13_ex_assign :
  step src_tables w_sig_f32 (OSet (mk_np [2; 2] I64 [(-3); 0; 1; 2]%Z)) = (w_sig_f32, Raise TypeError)
  /\ step src_tables w_img_u16 (OSet (mk_np [2; 2] F64 [1; 2; 3; 4]%Z)) = (w_img_u16, Raise TypeError)
  /\ step src_tables w_img_u16 (OUpdate (Some (mk_np [2; 2] DBool [1; 0; 1; 1]%Z))) = (w_img_u16, Raise TypeError)
  /\ step src_tables w_img_u16 (ODAssign (mk_cont Image 2 2 (Some (mk_np [2; 2] I32 [(-1); 2; 3; 4]%Z))))
     = (w_img_u16, Raise TypeError)
  /\ step src_tables w_ph_2d (OSet (mk_np [2; 3] C128 [1; 2; 3; 4; 5; 6]%Z)) = (w_ph_2d, Raise ValueError)
  /\ step src_tables w_ph_3d (OSet3D (mk_xr [0; 1; 2] (Some [400; 420]%Z) [2; 2; 3] I16 [1; 1; 1; 1; 1; 1; 1; 1; 1; 1; 1; 1]%Z))
     = (w_ph_3d, Raise ValueError)
  /\ step src_tables w_ph_2d (ODAssign (empty_container Photon 2 3)) = (empty_container Photon 2 3, Done)
  /\ step src_tables w_ph_3d (ODAssign (empty_container Photon 2 3)) = (empty_container Photon 2 3, Done)
  /\ c_content (fst (step src_tables w_ph_3d (ODAssign (mk_cont Photon 2 3 (Some ex_neg2d)))))
     = Some (mk_np [2; 3] F64 [0; 2; 3; 4; 5; 6]%Z)
  (* the judge: a silently converted int64 array on a filled float32 signal is clause 7, stale photons after the
     assignment of an empty Photon are clause 8, a stored array other than the assigned one is clause 8 *)
  /\ assign_violations Signal 2 2 (OSet (mk_np [2; 2] I64 [(-3); 0; 1; 2]%Z)) (c_content w_sig_f32)
       (mk_obs Done (Some (mk_np [2; 2] F32 [(-3); 0; 1; 2]%Z)) [2; 2] (Some F32)) = [7]
  /\ assign_violations Photon 2 3 (ODAssign (empty_container Photon 2 3)) (c_content w_ph_2d)
       (mk_obs Done (c_content w_ph_2d) [2; 3] (Some F32)) = [8]
  /\ assign_violations Signal 2 2 (OSet (mk_np [2; 2] F64 [5; 6; 7; 8]%Z)) (c_content w_sig_f32)
       (mk_obs Done (c_content w_sig_f32) [2; 2] (Some F32)) = [8]
  /\ assign_violations Signal 2 2 (OSet (mk_np [2; 2] F64 [5; 6; 7; 8]%Z)) (c_content w_sig_f32)
       (mk_obs Done (Some (mk_np [2; 2] F64 [5; 6; 7; 8]%Z)) [2; 2] (Some F64)) = [].
Proof. vm_compute. repeat split; reflexivity. Qed.

(* ------------------------------------------------------------------ equality *)

(* for ALL pairs of containers satisfying the invariant (NaN-free contents: numpy and xarray disagree
   on NaN == NaN): `==` returns — never raises — exactly "same kind, same geometry, both empty or
   equal arrays" *)
Theorem C13_eq_spec :
  forall a b, Inv a -> Inv b -> content_nan_free a = true -> content_nan_free b = true ->
    eq_res src_tables a b = RetBool (eq_spec a b).
Proof. exact (eq_res_spec src_tables C13_source_tables_ok). Qed.
Print Assumptions C13_eq_spec.

Theorem C13_eq_sym :
  forall a b, Inv a -> Inv b -> content_nan_free a = true -> content_nan_free b = true ->
    eq_res src_tables a b = eq_res src_tables b a.
Proof. exact (eq_res_sym src_tables C13_source_tables_ok). Qed.
Print Assumptions C13_eq_sym.

(* with an empty operand on either side no hypothesis is needed at all *)
Theorem C13_eq_spec_empty_operand :
  forall a b, c_content a = None \/ c_content b = None -> eq_res src_tables a b = RetBool (eq_spec a b).
Proof. exact (eq_res_spec_some_empty src_tables C13_source_tables_ok). Qed.
Print Assumptions C13_eq_spec_empty_operand.

Theorem C13_eq_spec_symmetric : forall a b, eq_spec a b = eq_spec b a.
Proof. exact eq_spec_sym. Qed.
Print Assumptions C13_eq_spec_symmetric.

(* ------------------------------------------------------------------ non-vacuity and regression witnesses *)

Definition ex_ops_photon : list op :=
  [OIAdd ex_ok2d; ORead; OSet ex_neg2d; OSet ex_wrong; OIAdd ex_neg2d; OAsArray; OEmpty; OSet3D ex_3d; ORead3D;
   OIAdd (mk_xr [0; 1; 2] (Some [400; 420]%Z) [2; 2; 3] F64 [1; 1; 1; 1; 1; 1; 1; 1; 1; 1; 1; (-9)]%Z);
   ODAssign (mk_cont Photon 2 3 (Some ex_ok2d)); ODEmpty true].

(* the inputs that refuted the full statements before the repairs (C13-F2a, F2b, F2c): now rejected or
   clipped — kept here so that a regression is caught by the proof leg as well *)
Definition w_photon := empty_container Photon 2 2.
Definition w_bad := mk_np [3; 1] I16 [(-1); (-2); (-3)]%Z.

Example C13_ex_former_witnesses :
  step src_tables w_photon (OIAdd w_bad) = (w_photon, Raise ValueError)
  /\ step src_tables w_photon (OAdd w_bad) = (w_photon, Raise ValueError)
  /\ c_content (run src_tables (mk_cont Photon 2 2 (Some (mk_np [2; 2] F64 [1; 1; 1; 1]%Z)))
                    [OIAdd (mk_np [2; 2] F64 [(-5); 0; 0; 0]%Z)])
     = Some (mk_np [2; 2] F64 [0; 1; 1; 1]%Z)
  /\ step src_tables w_photon (ODAssign (mk_cont Photon 3 3 (Some (mk_np [3; 3] F64 [1; 1; 1; 1; 1; 1; 1; 1; 1]%Z))))
     = (w_photon, Raise ValueError)
  /\ step src_tables w_photon (ODAssign (mk_cont Image 2 2 (Some (mk_np [2; 2] U16 [1; 1; 1; 1]%Z))))
     = (w_photon, Raise ValueError).
Proof. vm_compute. repeat split; reflexivity. Qed.

(* C13-F2d: `pixel += DataArray` raises and (now) changes nothing; with the former in-place shape of the code the
   same step raised AFTER the stored array had been modified *)
Definition w_pix := mk_cont Pixel 2 3 (Some (mk_np [2; 3] F64 [1; 1; 1; 1; 1; 1]%Z)).
Definition w_da := mk_xr [1; 2] None [2; 3] F64 [5; 5; 5; 5; 5; 5]%Z.

Example C13_ex_former_witness_iadd_dataarray :
  step src_tables w_pix (OIAdd w_da) = (w_pix, Raise TypeError)
  /\ base_iadd src_tables BIInPlace w_pix w_da
     = (mk_cont Pixel 2 3 (Some (mk_np [2; 3] F64 [6; 6; 6; 6; 6; 6]%Z)), Raise TypeError).
Proof. vm_compute. split; reflexivity. Qed.

(* a long photon history: accepted and rejected operations, clipping on assignment AND on +=, 2-D and 3-D *)
Example C13_ex_history :
  run src_tables (empty_container Photon 2 3) [OSet ex_wrong] = empty_container Photon 2 3
  /\ c_content (run src_tables (empty_container Photon 2 3) [OSet ex_neg2d])
     = Some (mk_np [2; 3] F64 [0; 2; 3; 4; 5; 6]%Z)
  /\ c_content (run src_tables (empty_container Photon 2 3) [OIAdd ex_ok2d; OIAdd ex_neg2d])
     = Some (mk_np [2; 3] F32 [0; 4; 6; 8; 10; 12]%Z)
  /\ map (fun c => is_none (c_content c)) (states src_tables (empty_container Photon 2 3) ex_ops_photon)
     = [false; false; false; false; false; false; true; false; false; false; false; true].
Proof. vm_compute. repeat split; reflexivity. Qed.

(* the hypotheses of C13_inv are met by non-empty states of every kind (and `accepted` is not implied by the
   invariant alone only through the TYPE_LIST: it says the setter would take the array again) *)
Example C13_ex_inv_hypotheses :
  Inv (mk_cont Photon 2 3 (Some ex_ok2d)) /\ accepted src_tables (mk_cont Photon 2 3 (Some ex_ok2d)) = true
  /\ Inv (mk_cont Photon 2 3 (Some ex_3d_ok)) /\ accepted src_tables (mk_cont Photon 2 3 (Some ex_3d_ok)) = true
  /\ Inv (mk_cont Image 1 2 (Some (mk_np [1; 2] U8 [250; 3]%Z)))
  /\ accepted src_tables (mk_cont Image 1 2 (Some (mk_np [1; 2] U8 [250; 3]%Z))) = true
  /\ accepted src_tables (mk_cont Photon 2 3 (Some ex_wrong)) = false.
Proof. vm_compute. repeat split; reflexivity. Qed.

(* a rejected operation after a non-empty history (hypothesis of C13_failed_assign_preserves) *)
Example C13_ex_failed_assign :
  exists c' e, step src_tables (run src_tables (empty_container Image 2 3) [OSet (mk_np [2; 3] U16 [1; 2; 3; 4; 5; 6]%Z)])
                    (OIAdd (mk_np [2; 3] I8 [1; 1; 1; 1; 1; 1]%Z)) = (c', Raise e).
Proof. eexists. eexists. vm_compute. reflexivity. Qed.

(* equality: the former refutation witnesses (C13-F3a, F3b, F3c) and ordinary cases *)
Definition w_sig_empty := empty_container Signal 2 2.
Definition w_sig_init := mk_cont Signal 2 2 (Some (mk_np [2; 2] F64 [1; 2; 3; 4]%Z)).

Example C13_ex_eq :
  eq_res src_tables w_sig_empty w_sig_init = RetBool false
  /\ eq_res src_tables w_sig_init w_sig_empty = RetBool false
  /\ eq_res src_tables (empty_container Photon 2 3) (empty_container Photon 3 3) = RetBool false
  /\ eq_res src_tables (empty_container Photon 2 3) (empty_container Photon 2 3) = RetBool true
  /\ eq_res src_tables w_sig_init w_sig_init = RetBool true
  /\ eq_res src_tables w_sig_init (mk_cont Signal 2 2 (Some (mk_np [2; 2] F32 [1; 2; 3; 5]%Z))) = RetBool false
  /\ eq_res src_tables (mk_cont Photon 2 3 (Some ex_ok2d)) (mk_cont Photon 2 3 (Some (mk_np [2; 3] F64 [1; 2; 3; 4; 5; 6]%Z)))
     = RetBool true
  /\ Inv w_sig_init /\ inv_b (mk_cont Photon 2 3 (Some ex_3d)) = false.
Proof. vm_compute. repeat split; reflexivity. Qed.

(* multi-wavelength photons: the wavelength coordinate is part of the stored array -- the same numbers on another
   wavelength grid (shifted, one value changed, reversed) are NOT equal, in both directions; an identical copy is *)
Definition ex_3d_vals := [1; 1; 1; 1; 1; 1; 2; 1; 1; 1; 1; 1]%Z.
Definition ph3 (wl : list Z) := mk_cont Photon 2 3 (Some (mk_xr [0; 1; 2] (Some wl) [2; 2; 3] F64 ex_3d_vals)).

Example C13_ex_eq_wavelength :
  eq_res src_tables (ph3 [400; 420]%Z) (ph3 [400; 420]%Z) = RetBool true
  /\ eq_res src_tables (ph3 [400; 420]%Z) (ph3 [600; 700]%Z) = RetBool false
  /\ eq_res src_tables (ph3 [600; 700]%Z) (ph3 [400; 420]%Z) = RetBool false
  /\ eq_res src_tables (ph3 [400; 420]%Z) (ph3 [400; 440]%Z) = RetBool false
  /\ eq_res src_tables (ph3 [400; 420]%Z) (ph3 [420; 400]%Z) = RetBool false
  /\ eq_spec (ph3 [400; 420]%Z) (ph3 [400; 440]%Z) = false
  /\ Inv (ph3 [400; 440]%Z) /\ content_nan_free (ph3 [400; 440]%Z) = true.
Proof. vm_compute. repeat split; reflexivity. Qed.

(* ------------------------------------------------------------------ the judge of the implementation *)

(* The harness judges what the IMPLEMENTATION shows after every operation with `case_violations` (eight clauses:
   invariant, failed operation preserves, read of an empty container raises, a read returns the stored array,
   equality, resets, illegal assignments are refused, completed assignments store the assigned array).  Applied to
   the model's own behaviour it never reports anything: for ALL operation sequences, from every state that
   satisfies the invariant and is accepted by its setter (comparison operands satisfying the invariant; sequences
   inside the modelled domain).  Every clause is therefore a consequence of the theorems above, and an
   implementation that behaves like the model is never reported by the judge. *)
Theorem C13_judge_accepts_model :
  forall (ops : list op) (c : container) (ci j : nat),
    Inv c -> accepted src_tables c = true -> eq_operands_inv ops = true -> hits_unmodelled src_tables c ops = false ->
    case_violations (c_kind c) (c_rows c) (c_cols c) ops (model_obs src_tables c ops) (c_content c) ci j = [].
Proof. intros. apply (judge_accepts_model src_tables C13_source_tables_ok); assumption. Qed.
Print Assumptions C13_judge_accepts_model.

Theorem C13_judge_accepts_model_from_empty :
  forall (ops : list op) (k : ckind) (r c : nat),
    eq_operands_inv ops = true -> hits_unmodelled src_tables (empty_container k r c) ops = false ->
    violations [mk_case k r c ops (model_obs src_tables (empty_container k r c) ops)] = [].
Proof.
  intros ops k r c He Hu. unfold violations. cbn [violations_from mk_case k_kind k_rows k_cols k_ops k_obs]. rewrite app_nil_r.
  exact (C13_judge_accepts_model ops (empty_container k r c) 0 0 (inv_empty k r c) (accepted_empty src_tables k r c) He Hu).
Qed.
Print Assumptions C13_judge_accepts_model_from_empty.

(* non-vacuity: the long photon history above meets the hypotheses; and the judge is not trivially silent (it
   reports the stale read below; C13_ex_assign shows clauses 7 and 8) *)
Example C13_ex_judge :
  eq_operands_inv ex_ops_photon = true /\ hits_unmodelled src_tables (empty_container Photon 2 3) ex_ops_photon = false
  /\ violations [mk_case Photon 2 3 ex_ops_photon (model_obs src_tables (empty_container Photon 2 3) ex_ops_photon)] = []
  /\ violations [mk_case Signal 2 2 [ORead] [mk_obs (RetArr (mk_np [2; 2] F64 [0; 0; 0; 0]%Z)) None [2; 2] None]] = [0; 0; 3].
Proof. vm_compute. repeat split; reflexivity. Qed.
