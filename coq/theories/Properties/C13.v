(* C13 — data buckets only ever hold arrays of the detector's shape and unit type.
   Only statements here; proofs live in Proofs/Containers*.v.  Gen_C13.src_tables is regenerated on
   every run from pyxel/data_structure/{array,photon,pixel,signal,image,phase}.py,
   pyxel/detectors/detector.py, pyxel/detectors/mkid/mkid.py and the installed numpy. *)
From Coq Require Import ZArith List Bool.
From PyxelV Require Import Model.Containers Proofs.Containers Proofs.ContainersEq.
From PyxelGen Require Import Gen_C13.
Import ListNotations.

(* The source says what the property needs: every TYPE_LIST within the allowed element types
   (floating point; unsigned for image), every guard of ArrayBase._validate and of the two Photon
   setters present, negative photons clipped, float64 accepted by Pixel (its empty() stores zeros),
   no raw detector setter for pixel/signal/image/phase. *)
Theorem C13_source_tables_ok : tables_ok src_tables = true.
Proof. vm_compute. reflexivity. Qed.
Print Assumptions C13_source_tables_ok.

(* ------------------------------------------------------------------ the invariant *)

(* full statement: whatever the operation sequence, the invariant is kept *)
Definition C13_inv_full : Prop :=
  forall (ops : list op) (c : container), Inv c -> Inv (run src_tables c ops).

(* refuted by the code as it is: `photon += a` on an EMPTY photon stores `a` as it is *)
Definition w_photon := empty_container Photon 2 2.
Definition w_bad := mk_np [3; 1] I16 [(-1); (-2); (-3)]%Z.

Theorem C13_inv_refuted : ~ C13_inv_full.
Proof. intro H. specialize (H [OIAdd w_bad] w_photon eq_refl). vm_compute in H. discriminate. Qed.
Print Assumptions C13_inv_refuted.

(* ... `photon += negative` on an initialised photon is not clipped *)
Theorem C13_inv_refuted_negative_iadd :
  exists c a, Inv c /\ c_content c <> None /\ ~ Inv (run src_tables c [OIAdd a]).
Proof.
  exists (mk_cont Photon 2 2 (Some (mk_np [2; 2] F64 [1; 1; 1; 1]%Z))), (mk_np [2; 2] F64 [(-5); 0; 0; 0]%Z).
  repeat split; try (vm_compute; congruence).
Qed.
Print Assumptions C13_inv_refuted_negative_iadd.

(* ... `detector.photon = other` copies the other container's array without validation *)
Theorem C13_inv_refuted_detector_assign :
  exists c o, Inv c /\ Inv o /\ c_kind o = Photon /\ ~ Inv (run src_tables c [ODAssign o]).
Proof.
  exists w_photon, (mk_cont Photon 3 3 (Some (mk_np [3; 3] F64 [1; 1; 1; 1; 1; 1; 1; 1; 1]%Z))).
  repeat split; try (vm_compute; congruence).
Qed.
Print Assumptions C13_inv_refuted_detector_assign.

(* strongest true restriction: ALL operation sequences that avoid those three places
   (`offending`: += / + on an empty photon with an operand that is not itself a legal photon array,
   += / + of an operand with a negative element on an initialised photon, detector.photon = a container
   whose array is not legal for this detector): every intermediate state satisfies the invariant *)
Theorem C13_inv_partial :
  forall (ops : list op) (c : container),
    Inv c -> no_offending src_tables c ops = true ->
    Forall Inv (states src_tables c ops) /\ Inv (run src_tables c ops).
Proof.
  intros ops c Hc Hn. split.
  - apply states_inv_partial; [exact C13_source_tables_ok | exact Hc | exact Hn].
  - apply run_inv_partial; [exact C13_source_tables_ok | exact Hc | exact Hn].
Qed.
Print Assumptions C13_inv_partial.

(* pixel, signal, image, phase: the FULL invariant, all operation sequences, no restriction *)
Theorem C13_inv_arraybase :
  forall (ops : list op) (c : container),
    c_kind c <> Photon -> Inv c -> Forall Inv (states src_tables c ops) /\ Inv (run src_tables c ops).
Proof. intros. apply run_inv_base; [exact C13_source_tables_ok | assumption | assumption]. Qed.
Print Assumptions C13_inv_arraybase.

(* what the invariant says, in words *)
Theorem C13_inv_meaning :
  forall c a, Inv c -> c_content c = Some a ->
    spec_allowed (c_kind c) (a_dt a) = true
    /\ (a_xr a = None -> a_shape a = [c_rows c; c_cols c])
    /\ (a_xr a <> None -> c_kind c = Photon /\ exists w, a_shape a = [w; c_rows c; c_cols c])
    /\ (c_kind c = Photon -> all_nonneg (a_data a) = true).
Proof.
  intros c a Hc Ha. unfold Inv, inv_b in Hc. rewrite Ha in Hc.
  assert (H := Hc). unfold arr_ok in H.
  apply andb_prop in H. destruct H as [H Hnn]. apply andb_prop in H. destruct H as [Hdt Hsh].
  split; [exact Hdt|]. split; [|split].
  - intro Hx. rewrite Hx in Hsh. apply shape_eqb_eq. exact Hsh.
  - intro Hx. destruct (a_xr a) as [xi|] eqn:E; [|congruence].
    apply andb_prop in Hsh. destruct Hsh as [Hsh _]. apply andb_prop in Hsh. destruct Hsh as [Hk _].
    assert (Hk' : c_kind c = Photon) by (destruct (c_kind c); simpl in Hk; try discriminate; reflexivity).
    split; [exact Hk'|]. rewrite Hk' in Hc. apply arr_ok_photon_shape in Hc. rewrite E in Hc. exact Hc.
  - intro Hk. rewrite Hk in Hnn. exact Hnn.
Qed.
Print Assumptions C13_inv_meaning.

(* ------------------------------------------------------------------ failed operations, reads *)

(* after ANY history from an empty container, an operation that raises leaves the state untouched *)
Theorem C13_failed_assign_preserves :
  forall (c0 : container) (ops : list op) (o : op) (c' : container) (e : exc),
    c_content c0 = None ->
    step src_tables (run src_tables c0 ops) o = (c', Raise e) -> c' = run src_tables c0 ops.
Proof. intros c0 ops o c' e H0 H. exact (failed_op_preserves src_tables C13_source_tables_ok c0 ops o c' e H0 H). Qed.
Print Assumptions C13_failed_assign_preserves.

Theorem C13_read_empty_raises :
  forall c, c_content c = None ->
    step src_tables c ORead = (c, Raise ValueError)
    /\ (c_kind c = Photon -> step src_tables c ORead3D = (c, Raise ValueError))
    /\ (exists e, step src_tables c OAsArray = (c, Raise e)).
Proof.
  intros c H. split; [apply read_empty_raises | split; [intro; apply read3d_empty_raises | apply asarray_empty_raises]]; assumption.
Qed.
Print Assumptions C13_read_empty_raises.

(* never stale data: a read that returns, returns the stored array and changes nothing *)
Theorem C13_read_returns_content :
  forall c c' a, (step src_tables c ORead = (c', RetArr a) \/ step src_tables c ORead3D = (c', RetArr a)
                  \/ step src_tables c OAsArray = (c', RetArr a)) ->
    c' = c /\ c_content c = Some a.
Proof. intros. eapply read_returns_content; eauto. Qed.
Print Assumptions C13_read_returns_content.

(* ------------------------------------------------------------------ equality *)

Definition C13_eq_spec_full : Prop :=
  forall a b, Inv a -> Inv b -> content_nan_free a = true -> content_nan_free b = true ->
    eq_res a b = RetBool (eq_spec a b).

Definition C13_eq_sym_full : Prop :=
  forall a b, Inv a -> Inv b -> content_nan_free a = true -> content_nan_free b = true ->
    eq_res a b = eq_res b a.

Definition w_sig_empty := empty_container Signal 2 2.
Definition w_sig_init := mk_cont Signal 2 2 (Some (mk_np [2; 2] F64 [1; 2; 3; 4]%Z)).

(* empty == initialised is True; initialised == empty raises *)
Theorem C13_eq_spec_refuted :
  ~ C13_eq_spec_full
  /\ eq_res w_sig_empty w_sig_init = RetBool true /\ eq_spec w_sig_empty w_sig_init = false
  /\ eq_res w_sig_init w_sig_empty = Raise ValueError.
Proof.
  split; [|vm_compute; auto].
  intro H. specialize (H w_sig_empty w_sig_init eq_refl eq_refl eq_refl eq_refl). vm_compute in H. discriminate.
Qed.
Print Assumptions C13_eq_spec_refuted.

Theorem C13_eq_sym_refuted : ~ C13_eq_sym_full.
Proof.
  intro H. specialize (H w_sig_empty w_sig_init eq_refl eq_refl eq_refl eq_refl). vm_compute in H. discriminate.
Qed.
Print Assumptions C13_eq_sym_refuted.

(* two empty photons of different geometry compare equal *)
Theorem C13_eq_spec_refuted_photon_geometry :
  eq_res (empty_container Photon 2 3) (empty_container Photon 3 3) = RetBool true
  /\ eq_spec (empty_container Photon 2 3) (empty_container Photon 3 3) = false.
Proof. vm_compute. auto. Qed.
Print Assumptions C13_eq_spec_refuted_photon_geometry.

(* strongest true restriction: both operands initialised (and satisfying the invariant): `==` is
   exactly "same kind, same geometry, equal arrays" and is symmetric; both empty: exact as well except
   for photons of different geometry *)
Theorem C13_eq_spec_partial :
  forall a b x y, Inv a -> Inv b -> c_content a = Some x -> c_content b = Some y ->
    nan_free (a_data x) = true -> nan_free (a_data y) = true ->
    eq_res a b = RetBool (eq_spec a b) /\ eq_res a b = eq_res b a.
Proof.
  intros. split; [eapply eq_res_spec_initialised | eapply eq_res_sym_initialised]; eauto.
Qed.
Print Assumptions C13_eq_spec_partial.

Theorem C13_eq_spec_partial_empty :
  forall a b, c_content a = None -> c_content b = None ->
    (c_kind a = Photon -> c_kind b = Photon -> c_rows a = c_rows b /\ c_cols a = c_cols b) ->
    eq_res a b = RetBool (eq_spec a b).
Proof. exact eq_res_spec_both_empty. Qed.
Print Assumptions C13_eq_spec_partial_empty.

Theorem C13_eq_spec_symmetric : forall a b, eq_spec a b = eq_spec b a.
Proof. exact eq_spec_sym. Qed.
Print Assumptions C13_eq_spec_symmetric.

(* ------------------------------------------------------------------ non-vacuity *)

Definition ex_ok2d := mk_np [2; 3] F32 [1; 2; 3; 4; 5; 6]%Z.
Definition ex_neg2d := mk_np [2; 3] F64 [(-1); 2; 3; 4; 5; 6]%Z.
Definition ex_wrong := mk_np [3; 2] F64 [1; 2; 3; 4; 5; 6]%Z.
Definition ex_3d := mk_xr [0; 1; 2] (Some [400; 420]%Z) [2; 2; 3] F64 [1; 1; 1; 1; 1; 1; (-2); 1; 1; 1; 1; 1]%Z.
Definition ex_ops_photon : list op :=
  [OIAdd ex_ok2d; ORead; OSet ex_neg2d; OSet ex_wrong; OIAdd ex_ok2d; OEmpty; OSet3D ex_3d; ORead3D;
   OIAdd (mk_xr [0; 1; 2] (Some [400; 420]%Z) [2; 2; 3] F64 [1; 1; 1; 1; 1; 1; 1; 1; 1; 1; 1; 1]%Z);
   ODAssign (mk_cont Photon 2 3 (Some ex_ok2d)); ODEmpty true].

(* a long photon history that meets the hypothesis of C13_inv_partial, changes the state several
   times, contains rejected operations and clipping *)
Example C13_ex_partial_hypothesis :
  no_offending src_tables (empty_container Photon 2 3) ex_ops_photon = true
  /\ run src_tables (empty_container Photon 2 3) [OSet ex_wrong] = empty_container Photon 2 3
  /\ c_content (run src_tables (empty_container Photon 2 3) [OSet ex_neg2d])
     = Some (mk_np [2; 3] F64 [0; 2; 3; 4; 5; 6]%Z).
Proof. vm_compute. auto. Qed.

(* a rejected operation after a non-empty history (hypothesis of C13_failed_assign_preserves) *)
Example C13_ex_failed_assign :
  exists c' e, step src_tables (run src_tables (empty_container Image 2 3) [OSet (mk_np [2; 3] U16 [1; 2; 3; 4; 5; 6]%Z)])
                    (OIAdd (mk_np [2; 3] I8 [1; 1; 1; 1; 1; 1]%Z)) = (c', Raise e).
Proof. eexists. eexists. vm_compute. reflexivity. Qed.

(* initialised operands: equal, different values, different geometry *)
Example C13_ex_eq :
  eq_res w_sig_init w_sig_init = RetBool true
  /\ eq_res w_sig_init (mk_cont Signal 2 2 (Some (mk_np [2; 2] F32 [1; 2; 3; 5]%Z))) = RetBool false
  /\ eq_res (mk_cont Photon 2 3 (Some ex_ok2d)) (mk_cont Photon 2 3 (Some (mk_np [2; 3] F64 [1; 2; 3; 4; 5; 6]%Z)))
     = RetBool true
  /\ Inv w_sig_init /\ inv_b (mk_cont Photon 2 3 (Some ex_3d)) = false.
Proof. vm_compute. repeat split; reflexivity. Qed.
