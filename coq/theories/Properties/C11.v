(* C11 — calibration fitness is the declared figure of merit on the declared data.
   Only statements here; proofs live in Proofs/FitnessChecker.v and Proofs/FitnessSum.v.
   Gen_C11.src_checker is regenerated from pyxel/calibration/util.py on every run
   (_check_out_fit_ranges, FitRange2D.check, FitRange3D.check, dispatch of check_fit_ranges);
   Gen_C11.src_calls from the two calls of check_fit_ranges in ModelFittingDataTree.__init__
   (pyxel/calibration/fitting_datatree.py): which sizes are passed as rows / cols / readout_times;
   Gen_C11.src_fdesc from ModelFittingDataTree.fitness: the scalar attributes it keeps between calls
   (registers), the guarded writes / break / continue / return around the accumulation, what is returned. *)
From Coq Require Import ZArith QArith List Bool.
From PyxelV Require Import Model.Fitness Model.FitnessHist Proofs.FitnessChecker Proofs.FitnessSum Proofs.FitnessMeets
  Proofs.FitnessHist.
From PyxelGen Require Import Gen_C11.
Import ListNotations.

(* the comparisons the source makes today are the ones the lemmas were proved for *)
Theorem C11_src_checker_is_coded : src_checker = coded_checker.
Proof. vm_compute. reflexivity. Qed.
Print Assumptions C11_src_checker_is_coded.

(* the constructor validates the ranges against the size of the TARGET data read from file *)
Theorem C11_src_calls_are_coded : src_calls = coded_calls.
Proof. vm_compute. reflexivity. Qed.
Print Assumptions C11_src_calls_are_coded.

(* declared weights reach the fitness function for single- and multi-readout targets alike, and a
   scalar weight is expanded to the shape of the fitted target region *)
Theorem C11_src_weights_are_coded : src_weights = coded_wconf.
Proof. vm_compute. reflexivity. Qed.
Print Assumptions C11_src_weights_are_coded.

(* ------------------------------------------------------------------ range checker *)

(* for all declared ranges (ordered, non-negative numbers; absent components allowed), target sizes
   and readout counts:
   accepted => equal extent in every compared dimension and target range inside the target *)
Theorem C11_checker_sound : checker_sound_full src_checker.
Proof. rewrite C11_src_checker_is_coded. exact coded_sound. Qed.
Print Assumptions C11_checker_sound.

(* equal extents inside the target => accepted (shifted ranges and absent components included) *)
Theorem C11_checker_complete : checker_complete_full src_checker.
Proof. rewrite C11_src_checker_is_coded. exact coded_complete. Qed.
Print Assumptions C11_checker_complete.

(* together: the checker decides exactly the specification *)
Theorem C11_checker_decides : forall t o rows cols times,
  in_domain t o rows cols times = true ->
  (check src_checker (Some t) (Some o) rows cols times = Accept <-> spec_ok t o rows cols times = true).
Proof.
  intros t o rows cols times Hd. split.
  - apply C11_checker_sound; exact Hd.
  - apply C11_checker_complete; exact Hd.
Qed.
Print Assumptions C11_checker_decides.

(* non-vacuity: accepted and rejected instances inside the domain; the formerly failing inputs
   (unequal extent with equal stops / shifted equal extent / nothing declared) now come out right *)
Example C11_checker_nonvacuous_accept :
  let t := FR2 (Some 1, Some 3)%Z (Some 0, Some 4)%Z in
  let o := FR3 (None, None) (Some 4, Some 6)%Z (None, Some 4)%Z in
  in_domain t o 3 4 None = true /\ spec_ok t o 3 4 None = true /\
  check src_checker (Some t) (Some o) 3 4 None = Accept.
Proof. vm_compute. auto. Qed.

Example C11_checker_nonvacuous_reject :
  let t := FR3 (Some 0, Some 3)%Z (Some 1, Some 3)%Z (Some 0, Some 5)%Z in
  let o := FR3 (Some 0, Some 3)%Z (Some 1, Some 3)%Z (Some 0, Some 5)%Z in
  in_domain t o 3 4 (Some 3%Z) = true /\ spec_ok t o 3 4 (Some 3%Z) = false /\
  check src_checker (Some t) (Some o) 3 4 (Some 3%Z) = Reject.
Proof. vm_compute. auto. Qed.

Example C11_checker_former_witnesses :
  check src_checker (Some w_sound_t) (Some w_sound_o) 5 5 None = Reject /\
  check src_checker (Some w_compl_t) (Some w_compl_o) 5 5 None = Accept /\
  in_domain w_absent_t w_absent_o 5 5 None = true /\
  check src_checker (Some w_absent_t) (Some w_absent_o) 5 5 None = Accept.
Proof. vm_compute. auto. Qed.

(* the statements are discriminating: the comparisons of the tree before the repair (stop indices
   compared, absent components not handled) satisfy neither *)
Example C11_checker_statements_exclude_legacy :
  ~ checker_sound_full legacy_checker /\ ~ checker_complete_full legacy_checker /\
  check legacy_checker (Some w_absent_t) (Some w_absent_o) 5 5 None = Crash.
Proof.
  split; [exact legacy_sound_refuted | split; [exact legacy_complete_refuted | apply legacy_absent_crashes]].
Qed.

(* ------------------------------------------------------------------ ranges exceeding the target *)

(* whatever the result range, the geometry of the detector and the readout: if the constructor's
   call of check_fit_ranges accepts a target range, that range lies inside the target data read
   from file (0 <= start <= stop <= size), in every dimension it names *)
Theorem C11_ctor_rejects_exceeding : forall c sims,
  ctor_check src_checker src_calls c sims = Accept -> target_inside c = true.
Proof. rewrite C11_src_checker_is_coded, C11_src_calls_are_coded. exact coded_ctor_inside. Qed.
Print Assumptions C11_ctor_rejects_exceeding.

(* ... so no problem object exists (nothing is optimised) for a target range exceeding the target *)
Theorem C11_exceeding_never_optimised : forall c sims,
  fc_bypass c = false ->
  model_fit src_checker src_calls src_weights c sims <> OCtor -> target_inside c = true.
Proof. rewrite C11_src_checker_is_coded, C11_src_calls_are_coded. exact (coded_model_fit_inside src_weights). Qed.
Print Assumptions C11_exceeding_never_optimised.

(* a 2 x 3 target on a 4 x 3 detector: rows 0..2 are accepted, rows 1..3 (inside the detector, beyond
   the target) are refused; validated against the detector frame instead they would be accepted *)
Definition ex_small (r0 r1 : Z) : fconf :=
  {| fc_ff := FAbs; fc_multi := false;
     fc_trng := FR2 (Some r0, Some r1) (Some 0, Some 3)%Z;
     fc_orng := FR3 (None, None) (Some r0, Some r1) (Some 0, Some 3)%Z;
     fc_drows := 4%Z; fc_dcols := 3%Z; fc_w := WNone;
     fc_tgts := [ [ [[Some 1; Some 2; Some 3]; [Some 4; Some 5; Some 6]] ] ]%Q; fc_bypass := false |}.
Definition ex_small_sims : list frame3 :=
  [ [ [[Some 1; Some 1; Some 1]; [Some 1; Some 1; Some 1]; [Some 1; Some 1; Some 1]; [Some 1; Some 1; Some 1]] ] ]%Q.
Definition detector_calls : calls :=
  {| call_single := {| cs_rows := QDet DRow; cs_cols := QDet DCol; cs_times := QAbsent |};
     call_multi := {| cs_rows := QDet DRow; cs_cols := QDet DCol; cs_times := QDet DTime |} |}.

Example C11_ctor_rejects_exceeding_nonvacuous :
  ctor_check src_checker src_calls (ex_small 0 2) ex_small_sims = Accept /\
  target_inside (ex_small 0 2) = true /\
  spec_fit (ex_small 0 2) ex_small_sims = Some (OVal (15 # 1)) /\
  ctor_check src_checker src_calls (ex_small 1 3) ex_small_sims = Reject /\
  target_inside (ex_small 1 3) = false /\
  spec_fit (ex_small 1 3) ex_small_sims = Some OCtor /\
  ctor_check src_checker detector_calls (ex_small 1 3) ex_small_sims = Accept.
Proof. vm_compute. repeat split; reflexivity. Qed.

(* ------------------------------------------------------------------ fitness = declared sum *)

(* every target enters the sum, paired with its own processor (a single processor serves all) *)
Definition C11_fitness_is_sum_full : Prop := fitness_sum_full.

(* one processor (no input arguments) and two target files: the loop stops after the first target *)
Theorem C11_fitness_is_sum_refuted : ~ C11_fitness_is_sum_full.
Proof. exact fitness_sum_refuted. Qed.
Print Assumptions C11_fitness_is_sum_refuted.

(* when no target is left without a processor, the accumulated value is the sum over ALL pairs
   k = 0 .. #targets-1 of the term of pair k (term k carries the weight of pair k) *)
Theorem C11_fitness_is_sum_partial :
  forall (A B : Type) (term : nat -> A -> B -> fres) (sims : list A) (tgts : list B) (vals : nat -> Q),
    (length tgts <= length sims)%nat ->
    (forall i s t, nth_error sims i = Some s -> nth_error tgts i = Some t -> term i s t = RVal (vals i)) ->
    exists q, fitness_loop term sims tgts = RVal q /\ q == qsum (length tgts) vals.
Proof. intros A B. exact (@fitness_is_sum A B). Qed.
Print Assumptions C11_fitness_is_sum_partial.

(* ... and, errors included, it is the declared pairing (target k with input-argument set k) *)
Theorem C11_fitness_pairing_partial :
  forall (A B : Type) (term : nat -> A -> B -> fres) (sims : list A) (tgts : list B),
    (length tgts <= length sims)%nat -> fitness_loop term sims tgts = declared_sum term sims tgts.
Proof. intros A B. exact (@loop_is_declared A B). Qed.
Print Assumptions C11_fitness_pairing_partial.

(* in general the loop is the declared sum over the first #processors targets only *)
Theorem C11_fitness_zip_prefix :
  forall (A B : Type) (term : nat -> A -> B -> fres) (sims : list A) (tgts : list B),
    (2 <= length sims)%nat \/ (length tgts <= length sims)%nat ->
    fitness_loop term sims tgts = declared_sum term sims (firstn (length sims) tgts).
Proof. intros A B. exact (@loop_is_declared_prefix A B). Qed.
Print Assumptions C11_fitness_zip_prefix.

(* the term the code computes for pair k (result restricted to the result range, target restricted at
   construction with the 2-D or 3-D target range, weight k restricted likewise) is the declared term *)
Theorem C11_term_is_declared : forall c k sim tgt,
  term_coded c (fc_w c) k sim (let '(tm, tr, tc) := out_slices (fc_trng c) in slice3 tm tr tc tgt)
  = term_declared c k sim tgt.
Proof. exact term_coded_is_declared. Qed.
Print Assumptions C11_term_is_declared.

Local Open Scope Q_scope.

Definition ex_conf (multi : bool) : fconf :=
  {| fc_ff := FAbs; fc_multi := multi;
     fc_trng := FR2 (Some 0, Some 1)%Z (Some 0, Some 1)%Z;
     fc_orng := FR3 (None, None) (Some 0, Some 1)%Z (Some 0, Some 1)%Z;
     fc_drows := 1%Z; fc_dcols := 1%Z; fc_w := WScalar [3];
     fc_tgts := [ [ [[Some 0]]; [[Some 0]] ] ]; fc_bypass := false |}.
Definition ex_sims : list frame3 := [ [ [[Some 1]]; [[Some 1]] ] ].

(* the problem object as a whole (2-D and 3-D target ranges, single- and multi-readout targets, no
   weights / scalar weights / weight files alike; no target left without a processor): whenever
   problem.fitness yields anything at all, it is the declared figure of merit — the configured
   function applied to result[result range] and target[target range] with the weight of pair k,
   summed over ALL targets *)
Theorem C11_fitness_is_declared : forall c sims,
  (length (fc_tgts c) <= length sims)%nat ->
  model_fit src_checker src_calls src_weights c sims = OCtor \/
  model_fit src_checker src_calls src_weights c sims = OUndef \/
  model_fit src_checker src_calls src_weights c sims = fobs_of (declared_sum (term_declared c) sims (fc_tgts c)).
Proof. rewrite C11_src_weights_are_coded. intros c sims. apply model_fit_is_declared. Qed.
Print Assumptions C11_fitness_is_declared.

(* multi-readout target with a scalar weight 3: value 3 * 2 (the weights used to be dropped: 2);
   the statement is discriminating: with the weights configuration of the tree before the repair the
   same configuration gives 2 *)
Example C11_fitness_is_declared_nonvacuous :
  spec_fit (ex_conf true) ex_sims = Some (OVal (6 # 1)) /\
  model_fit src_checker src_calls src_weights (ex_conf true) ex_sims = OVal (6 # 1) /\
  fobs_agree true (model_fit src_checker src_calls legacy_wconf (ex_conf true) ex_sims) (OVal (2 # 1)) = true.
Proof. vm_compute. auto. Qed.

(* a 3-D target range on a time-domain target (readout times 1..3 of the target against 0..2 of the
   result): |3-1| + |5-2| = 5; before the repair no 6-value target range could be used at all *)
Example C11_fitness_is_declared_3d :
  let c := {| fc_ff := FAbs; fc_multi := true;
              fc_trng := FR3 (Some 1, Some 3)%Z (Some 0, Some 1)%Z (Some 0, Some 1)%Z;
              fc_orng := FR3 (Some 0, Some 2)%Z (Some 0, Some 1)%Z (Some 0, Some 1)%Z;
              fc_drows := 1%Z; fc_dcols := 1%Z; fc_w := WNone;
              fc_tgts := [ [ [[Some 9]]; [[Some 3]]; [[Some 5]] ] ]; fc_bypass := false |} in
  let sims := [ [ [[Some 1]]; [[Some 2]]; [[Some 7]] ] ] in
  model_fit src_checker src_calls src_weights c sims = OVal (5 # 1) /\
  spec_fit c sims = Some (OVal (5 # 1)) /\
  model_fit src_checker src_calls legacy_wconf c sims = OCtor.
Proof. vm_compute. auto. Qed.

Example C11_fitness_is_sum_nonvacuous :
  let c := {| fc_ff := FSq; fc_multi := false;
              fc_trng := FR2 (Some 0, Some 1)%Z (Some 0, Some 2)%Z;
              fc_orng := FR3 (None, None) (Some 0, Some 1)%Z (Some 0, Some 2)%Z;
              fc_drows := 1%Z; fc_dcols := 2%Z; fc_w := WScalar [2; 5];
              fc_tgts := [ [ [[Some 0; Some 1]] ]; [ [[Some 3; None]] ] ]; fc_bypass := false |} in
  let sims := [ [ [[Some 1; Some 3]] ]; [ [[Some 1; Some 7]] ] ] in
  (* 2*(1+4) + 5*(4) = 30; model = specification *)
  fobs_agree true (model_fit src_checker src_calls src_weights c sims) (OVal (30 # 1)) = true /\
  spec_fit c sims = Some (OVal (30 # 1)).
Proof. vm_compute. auto. Qed.

(* ------------------------------------------------------------------ the model meets the specification *)

(* The specification used to judge the implementation (spec_fit: refuse exactly the configurations
   whose ranges exceed the target or select regions of different extent; otherwise the declared figure
   of merit) against the model of the problem object as coded (constructor check on the sizes the call
   sites pass, slicing, weights, accumulation loop).  Full statement: *)
Definition C11_model_meets_spec_full : Prop := forall c sims e,
  fc_bypass c = false -> spec_fit c sims = Some e ->
  model_fit src_checker src_calls src_weights c sims = e.

(* refuted by the open findings.  Witnesses: (F6d) detector 2 x 2, target file 2 x 4, ranges rows 0..2 /
   cols 0..3: has to be refused, is constructed (the result range is never compared with the frame);
   (F6e) readout with 2 steps, target file with 1 step, 2-D target range: constructed;
   (zip) one processor, two targets: the second target is ignored *)
Definition ex_f6d : fconf :=
  {| fc_ff := FAbs; fc_multi := false;
     fc_trng := FR2 (Some 0, Some 2)%Z (Some 0, Some 3)%Z;
     fc_orng := FR3 (None, None) (Some 0, Some 2)%Z (Some 0, Some 3)%Z;
     fc_drows := 2%Z; fc_dcols := 2%Z; fc_w := WNone;
     fc_tgts := [ [ [[Some 1; Some 2; Some 3; Some 4]; [Some 5; Some 6; Some 7; Some 8]] ] ]%Q; fc_bypass := false |}.
Definition ex_f6d_sims : list frame3 := [ [ [[Some 1; Some 1]; [Some 1; Some 1]] ] ]%Q.
Definition ex_f6e : fconf :=
  {| fc_ff := FAbs; fc_multi := true;
     fc_trng := FR2 (Some 0, Some 1)%Z (Some 0, Some 1)%Z;
     fc_orng := FR3 (Some 0, Some 2)%Z (Some 0, Some 1)%Z (Some 0, Some 1)%Z;
     fc_drows := 1%Z; fc_dcols := 1%Z; fc_w := WNone;
     fc_tgts := [ [ [[Some 5]] ] ]%Q; fc_bypass := false |}.
Definition ex_f6e_sims : list frame3 := [ [ [[Some 1]]; [[Some 2]] ] ]%Q.
Definition ex_zip : fconf :=
  {| fc_ff := FAbs; fc_multi := false;
     fc_trng := FR2 (Some 0, Some 1)%Z (Some 0, Some 1)%Z;
     fc_orng := FR3 (None, None) (Some 0, Some 1)%Z (Some 0, Some 1)%Z;
     fc_drows := 1%Z; fc_dcols := 1%Z; fc_w := WNone;
     fc_tgts := [ [ [[Some 5]] ]; [ [[Some 9]] ] ]%Q; fc_bypass := false |}.
Definition ex_zip_sims : list frame3 := [ [ [[Some 1]] ] ]%Q.

Theorem C11_model_meets_spec_refuted :
  ~ C11_model_meets_spec_full /\
  (spec_fit ex_f6d ex_f6d_sims = Some OCtor /\ model_fit src_checker src_calls src_weights ex_f6d ex_f6d_sims = OUndef) /\
  (spec_fit ex_f6e ex_f6e_sims = Some OCtor /\ model_fit src_checker src_calls src_weights ex_f6e ex_f6e_sims = OUndef) /\
  (spec_fit ex_zip ex_zip_sims = Some (OVal (12 # 1)) /\
   fobs_agree true (model_fit src_checker src_calls src_weights ex_zip ex_zip_sims) (OVal (4 # 1)) = true).
Proof.
  split; [|vm_compute; auto 10].
  intro H. specialize (H ex_f6d ex_f6d_sims OCtor eq_refl). vm_compute in H. specialize (H eq_refl). discriminate.
Qed.
Print Assumptions C11_model_meets_spec_refuted.

(* strongest true restriction = outside the input classes of those three findings: no target without
   a processor (zip), the result range lies inside the simulated frame and an open result stop means
   the same size as the target's (F6d), with a 2-D target range the result selects as many readout
   times as the target has (F6e).  Then, for every configuration the specification judges
   (2-D and 3-D target ranges, single- and multi-readout targets, all three functions, no / scalar /
   file weights, targets smaller or larger than the frame): refused exactly when it has to be, and
   otherwise problem.fitness is the declared figure of merit. *)
Theorem C11_model_meets_spec_partial : forall c sims e,
  fc_bypass c = false ->
  (length (fc_tgts c) <= length sims)%nat ->
  frame_covers c sims = true -> time_2d_ok c sims = true ->
  spec_fit c sims = Some e ->
  model_fit src_checker src_calls src_weights c sims = e.
Proof.
  rewrite C11_src_checker_is_coded, C11_src_calls_are_coded, C11_src_weights_are_coded. exact model_meets_spec.
Qed.
Print Assumptions C11_model_meets_spec_partial.

(* non-vacuity: an accepted and a refused configuration meet all hypotheses (2 x 3 target on a 4 x 3
   detector; 3-D target range shifted in time) *)
Example C11_model_meets_spec_nonvacuous :
  frame_covers (ex_small 0 2) ex_small_sims = true /\ time_2d_ok (ex_small 0 2) ex_small_sims = true /\
  spec_fit (ex_small 0 2) ex_small_sims = Some (OVal (15 # 1)) /\
  frame_covers (ex_small 1 3) ex_small_sims = true /\ time_2d_ok (ex_small 1 3) ex_small_sims = true /\
  spec_fit (ex_small 1 3) ex_small_sims = Some OCtor.
Proof. vm_compute. repeat split; reflexivity. Qed.

(* ------------------------------------------------------------------ histories on ONE problem object *)

(* `fitness` as it is written today (regenerated description): it never leaves the loop over the
   (processor, target) pairs early, returns the accumulator, and no command that can influence the
   returned value reads an attribute written by an earlier call *)
Theorem C11_src_fitness_keeps_no_state : exits_free src_fdesc = true /\ reg_blind src_fdesc = true.
Proof. vm_compute. split; reflexivity. Qed.
Print Assumptions C11_src_fitness_keeps_no_state.

(* PURITY: for every configuration, every history of operations on one problem object (fitness of any
   vectors in any order, repeated, on copies of the object, interleaved with other calls) and whatever
   earlier calls left in the object's registers: every fitness in the history is the value of the
   stateless model at THAT decision vector — a function of the vector alone *)
Theorem C11_fitness_history_independent :
  forall (X : Type) (simulate : X -> list frame3) c ops regs,
    snd (run_hist simulate src_fdesc src_checker src_calls src_weights c regs ops)
    = map (pure_obs simulate src_checker src_calls src_weights c) ops.
Proof. intros. apply history_is_model_fit. apply C11_src_fitness_keeps_no_state. Qed.
Print Assumptions C11_fitness_history_independent.

(* ... hence the same vector is given the same fitness at any two points of any history *)
Theorem C11_same_vector_same_fitness :
  forall (X : Type) (simulate : X -> list frame3) c ops regs i j x oi oj,
    nth_error ops i = Some (HFit x) -> nth_error ops j = Some (HFit x) ->
    nth_error (snd (run_hist simulate src_fdesc src_checker src_calls src_weights c regs ops)) i = Some oi ->
    nth_error (snd (run_hist simulate src_fdesc src_checker src_calls src_weights c regs ops)) j = Some oj ->
    oi = oj.
Proof. intros X simulate c. apply same_vector_same_fitness. apply C11_src_fitness_keeps_no_state. Qed.
Print Assumptions C11_same_vector_same_fitness.

(* ... and every fitness returned at any point of any history is the declared figure of merit summed
   over ALL targets (no target without a processor: C11-zip) *)
Theorem C11_history_fitness_is_declared :
  forall (X : Type) (simulate : X -> list frame3) c ops regs i x o,
    (length (fc_tgts c) <= length (simulate x))%nat ->
    nth_error ops i = Some (HFit x) ->
    nth_error (snd (run_hist simulate src_fdesc src_checker src_calls src_weights c regs ops)) i = Some (Some o) ->
    o = OCtor \/ o = OUndef \/ o = fobs_of (declared_sum (term_declared c) (simulate x) (fc_tgts c)).
Proof.
  intros X simulate c ops regs i x o Hl Hi Ho.
  rewrite C11_fitness_history_independent in Ho. rewrite nth_error_map, Hi in Ho. simpl in Ho.
  inversion Ho; subst o. apply C11_fitness_is_declared. exact Hl.
Qed.
Print Assumptions C11_history_fitness_is_declared.

(* the general statement behind it (for ANY description, e.g. one that keeps a call counter or a running
   minimum for a log line): if no exit of the loop and no returned expression reads a register, every
   observation of every history is what a freshly built problem returns *)
Theorem C11_state_blind_is_pure :
  forall (X : Type) (simulate : X -> list frame3) d c, reg_blind d = true ->
    forall ops regs, snd (run_hist simulate d src_checker src_calls src_weights c regs ops)
                     = map (fresh_obs simulate d src_checker src_calls src_weights c) ops.
Proof. intros X simulate d c H. apply history_is_fresh. exact H. Qed.
Print Assumptions C11_state_blind_is_pure.

(* the judge of the history case files (every step against the history-free specification spec_fit, equal
   vectors must get equal values, the problem's data unchanged) is met by the model: for every history over
   vectors outside the input classes of the open findings (zip, F6d, F6e: the hypotheses of
   C11_model_meets_spec_partial), whose identifiers name their frames, whatever the registers held, the
   judge reports NOTHING on what the model of the source answers *)
Theorem C11_model_history_meets_spec : forall c (ops : list (hop hx)) regs,
  fc_bypass c = false ->
  (forall x, In (Some x) (map op_x ops) ->
     (length (fc_tgts c) <= length (snd x))%nat /\ frame_covers c (snd x) = true /\ time_2d_ok c (snd x) = true) ->
  (forall x y, In (Some x) (map op_x ops) -> In (Some y) (map op_x ops) -> fst x = fst y -> snd x = snd y) ->
  hist_violation_steps {| hc_c := c; hc_ops := ops;
                          hc_obs := snd (run_hist (@snd nat (list frame3)) src_fdesc src_checker src_calls src_weights
                                                  c regs ops);
                          hc_same := true |} = [].
Proof.
  intros c ops regs Hb Hx Hid.
  apply (model_history_meets_spec src_checker src_calls src_weights c (fun x => In (Some x) (map op_x ops))).
  - intros x e Gx Hs. destruct (Hx x Gx) as (Hl & Hf & Ht).
    apply C11_model_meets_spec_partial; assumption.
  - exact Hid.
  - apply C11_src_fitness_keeps_no_state.
  - apply Forall_forall. intros o Ho. unfold op_good.
    destruct (op_x o) as [x|] eqn:E; [|exact I].
    rewrite <- E. apply in_map. exact Ho.
Qed.
Print Assumptions C11_model_history_meets_spec.

(* three targets (5, 9, 4 on a 1 x 1 frame), three processors; vector g simulates the value g everywhere *)
Definition ex_h3 : fconf :=
  {| fc_ff := FAbs; fc_multi := false;
     fc_trng := FR2 (Some 0, Some 1)%Z (Some 0, Some 1)%Z;
     fc_orng := FR3 (None, None) (Some 0, Some 1)%Z (Some 0, Some 1)%Z;
     fc_drows := 1%Z; fc_dcols := 1%Z; fc_w := WNone;
     fc_tgts := [ [ [[Some 5]] ]; [ [[Some 9]] ]; [ [[Some 4]] ] ]; fc_bypass := false |}.
Definition ex_sim (g : Q) : list frame3 := [ [ [[Some g]] ]; [ [[Some g]] ]; [ [[Some g]] ] ].

(* non-vacuity: a history on the description of the source — a good vector (6: 1+3+2 = 6), a bad one
   (0: 5+9+4 = 18), the good one again on a copy, another call, the bad one again *)
Example C11_history_nonvacuous :
  snd (run_hist ex_sim src_fdesc src_checker src_calls src_weights ex_h3 (fd_regs src_fdesc)
                [HFit 6; HFit 0; HFitCopy 6; HNop; HFit 0])
  = [Some (OVal 6); Some (OVal 18); Some (OVal 6); None; Some (OVal 18)].
Proof. vm_compute. reflexivity. Qed.

(* the judge is discriminating: the same history answered by the description with a remembered best and an
   early exit is reported (step 1: the partial sum 14 is not the declared 18; step 3: the vector of step 1 now
   gets another value), answered by the description of the source it is not *)
Example C11_history_judge_nonvacuous :
  let ops := [HFit (0%nat, ex_sim 6); HFit (1%nat, ex_sim 0); HFitCopy (0%nat, ex_sim 6); HFit (1%nat, ex_sim 0)] in
  let case d := {| hc_c := ex_h3; hc_ops := ops;
                   hc_obs := snd (run_hist (@snd nat (list frame3)) d src_checker src_calls src_weights ex_h3 (fd_regs d) ops);
                   hc_same := true |} in
  hist_violation_steps (case src_fdesc) = [] /\ hist_violation_steps (case ex_best_break) = [1%Z; 3%Z] /\
  spec_fit ex_h3 (ex_sim 0) = Some (OVal 18).
Proof. vm_compute. repeat split; reflexivity. Qed.

(* the model can express what the theorems exclude.  (a) a remembered best fitness with an early exit
   (candidates worse than the best one seen are abandoned): not register-blind; the bad vector evaluated
   AFTER the good one carries the partial sum 5 + 9 = 14 instead of 18, evaluated first it gets 18 — the
   same vector, two values, while the champion (6) stays exact *)
Example ex_best_break_history :
  reg_blind ex_best_break = false /\ exits_free ex_best_break = false /\
  snd (run_hist ex_sim ex_best_break src_checker src_calls src_weights ex_h3 (fd_regs ex_best_break)
                [HFit 6; HFit 0; HFit 6])
  = [Some (OVal 6); Some (OVal 14); Some (OVal 6)] /\
  snd (run_hist ex_sim ex_best_break src_checker src_calls src_weights ex_h3 (fd_regs ex_best_break)
                [HFit 0; HFit 6; HFit 0])
  = [Some (OVal 18); Some (OVal 6); Some (OVal 14)].
Proof. vm_compute. repeat split; reflexivity. Qed.

(* (b) an accumulator kept on the object and never reset: the second evaluation of a vector returns twice
   the value *)
Example ex_sticky_acc_history :
  reg_blind ex_sticky_acc = false /\
  snd (run_hist ex_sim ex_sticky_acc src_checker src_calls src_weights ex_h3 (fd_regs ex_sticky_acc) [HFit 6; HFit 6])
  = [Some (OVal 6); Some (OVal 12)].
Proof. vm_compute. repeat split; reflexivity. Qed.

(* (c) harmless state — a call counter and a running minimum that nothing reads back: the hypotheses of
   the general theorem hold, the registers DO change, the observations are those of the stateless model *)
Example ex_counter_history :
  reg_blind ex_counter = true /\ exits_free ex_counter = true /\
  run_hist ex_sim ex_counter src_checker src_calls src_weights ex_h3 (fd_regs ex_counter) [HFit 0; HFit 6; HFitCopy 0]
  = ([EFin 2; EFin 6], [Some (OVal 18); Some (OVal 6); Some (OVal 18)]).
Proof. vm_compute. repeat split; reflexivity. Qed.

(* ------------------------------------------------------------------ champions *)

(* champion tracking (previous champion vs. best of the evolution): never worse than before *)
Theorem C11_champion_monotone : forall bests c, noninc (c :: champ_seq c bests) = true.
Proof. exact champions_noninc. Qed.
Print Assumptions C11_champion_monotone.

Theorem C11_champion_best_so_far : forall bests c i ci,
  nth_error (champ_seq c bests) i = Some ci ->
  ci <= c /\ (forall j bj, (j <= i)%nat -> nth_error bests j = Some bj -> ci <= bj) /\ In ci (c :: bests).
Proof. exact champions_best_so_far. Qed.
Print Assumptions C11_champion_best_so_far.

Example C11_champion_nonvacuous : champ_seq 9 [12; 7; 8; 3] = [9; 7; 7; 3].
Proof. vm_compute. reflexivity. Qed.
