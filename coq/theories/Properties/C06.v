(* C06 — parameter runs are isolated from each other and from the caller's objects.
   Only statements here; proofs live in Proofs/HeapFrame.v.  Gen_C06 (src_policy, src_sites) is
   regenerated on every run from Processor.__deepcopy__, ModelGroup.__deepcopy__ and the copy
   sites of observation / dask observation / calibration. *)
From Coq Require Import String ZArith List Arith Bool Lia.
From PyxelV Require Import Model.Heap Model.HeapExc Model.HeapRng Proofs.HeapFrame Proofs.HeapExcFrame
  Proofs.HeapRngFrame.
From PyxelGen Require Import Gen_C06.
Import ListNotations.
Open Scope string_scope.
Open Scope list_scope.

(* what the current source says: no custom copy aliases a mutable field, the configuration-carrying
   fields are copied (not re-initialised), every site copies before it sets / runs *)
Theorem C06_source_policy :
  policy_ok src_policy = true /\ policy_complete src_policy = true /\ sites_ok src_sites = true.
Proof. vm_compute. repeat split. Qed.
Print Assumptions C06_source_policy.

(* the copy made by the source's policy: old heap untouched, the copy lives in new locations only,
   nothing reachable from it is an old location, and it is the reachable sub-graph of the original
   relocated through an injective renaming (k-th copied object = k-th reachable original, same
   class, same payload, references mapped) *)
Theorem deepcopy_fresh_iso : forall s l s' l',
  deepcopy src_policy s l = Some (s', l') ->
  l' = length s /\
  (exists blk, s' = s ++ blk /\ blk <> []) /\
  (forall y, reach s' l' y -> length s <= y < length s') /\
  exists R, nth_error R 0 = Some l /\
    (forall k x, nth_error R k = Some x ->
       exists o, nth_error s x = Some o /\
         nth_error s' (length s + k) =
           Some (rename_obj src_policy (fun y => length s + index_of y R) o)) /\
    (forall x, In x R -> nth_error R (index_of x R) = Some x) /\
    (forall x o y, In x R -> nth_error s x = Some o -> In y (deep_refs src_policy o) -> In y R).
Proof.
  intros s l s' l' H.
  assert (Hpol : policy_ok src_policy = true) by (vm_compute; reflexivity).
  destruct (deepcopy_fresh _ _ _ _ _ Hpol H) as [A [B C]].
  split; [exact A|]. split; [exact B|]. split; [exact C|]. exact (deepcopy_iso _ _ _ _ _ H).
Qed.
Print Assumptions deepcopy_fresh_iso.

(* the full frame statement for a copy policy and a site behaviour: for EVERY run function that
   changes only what it can reach from the processor it is given, for EVERY sequence of runs (any
   subset, any order, any parameters, any outcome), every location of the caller's heap - hence
   every object reachable from the caller's detector, pipeline and readout - is unchanged *)
Definition C06_frame_statement (pol : policy) (site : cmode) : Prop :=
  forall (params res : Type) (run : params -> heap -> loc -> heap * res),
    (forall ps s l, frame_ok s l (fst (run ps s l))) ->
    forall rs s0 p sn out,
      observe params res run pol site rs s0 p = Some (sn, out) ->
      forall x, x < length s0 -> nth_error sn x = nth_error s0 x.

Theorem C06_frame : forall site m, In (site, m) src_sites -> C06_frame_statement src_policy m.
Proof.
  intros site m Hin params res run Hfr rs s0 p sn out H x Hx.
  assert (m = Deep) by (eapply sites_ok_In; [|exact Hin]; vm_compute; reflexivity). subst m.
  eapply observe_frame_locs; eauto. vm_compute; reflexivity.
Qed.
Print Assumptions C06_frame.

(* the result of a run does not depend on the runs before it (their number, parameters, order,
   whether they raised): it is the result of the same run on a copy taken from the initial heap *)
Theorem C06_run_equals_standalone : forall site m, In (site, m) src_sites ->
  forall (params res : Type) (run : params -> heap -> loc -> heap * res),
    (forall ps s l, frame_ok s l (fst (run ps s l))) ->
    (forall ps sa sb C, closed_graph C -> C <> [] ->
       snd (run ps (sa ++ shift (length sa) C) (length sa)) =
       snd (run ps (sb ++ shift (length sb) C) (length sb))) ->
    forall pre ps s0 p si outs s' r0,
      observe params res run src_policy m pre s0 p = Some (si, outs) ->
      obs_step params res run src_policy m ps s0 p = Some (s', r0) ->
      exists s'', obs_step params res run src_policy m ps si p = Some (s'', r0).
Proof.
  intros site m Hin params res run Hfr Hloc pre ps s0 p si outs s' r0 H1 H2.
  assert (m = Deep) by (eapply sites_ok_In; [|exact Hin]; vm_compute; reflexivity). subst m.
  eapply run_equals_standalone; eauto.
Qed.
Print Assumptions C06_run_equals_standalone.

(* ------------------------------------------------------------------ non-vacuity *)

(* a processor graph with sharing (7 is referenced twice) and a cycle (7 -> 1) *)
Definition demo_heap : heap := [
  mkObj CProcessor 3 [("detector", 1); ("pipeline", 2); ("observation", 6)];
  mkObj CDetector 5 [("", 7); ("", 10)];
  mkObj CPipeline 0 [("", 3)];
  mkObj CGroup 2 [("models", 4)];
  mkObj CList 0 [("", 5)];
  mkObj CModel 3 [("", 8)];
  mkObj CObservation 4 [("", 9)];
  mkObj CObj 1 [("", 1)];
  mkObj CArgs 0 [];
  mkObj CReadout 2 [];
  mkObj CObj 0 [("", 7)]
].

Example deepcopy_demo :
  exists s', deepcopy src_policy demo_heap 0 = Some (s', 11) /\ length s' = 22 /\
             nth_error s' 12 = Some (mkObj CDetector 5 [("", 13); ("", 14)]).
Proof. vm_compute. eexists. repeat split. Qed.

(* the hypotheses on runs are satisfiable by a run that really mutates (detector memory) *)
Example run_hypotheses_satisfiable :
  (forall k s l, frame_ok s l (fst (run_touch k s l))) /\
  (forall k sa sb C, closed_graph C -> C <> [] ->
     snd (run_touch k (sa ++ shift (length sa) C) (length sa)) =
     snd (run_touch k (sb ++ shift (length sb) C) (length sb))).
Proof. split; [exact run_touch_frame | exact run_touch_local]. Qed.

(* three runs, each sees the caller's memory value 5, the caller's detector keeps 5 *)
Example observe_demo :
  exists sn, observe Z Z run_touch src_policy Deep [1; 2; 3]%Z demo_heap 0 = Some (sn, [6; 7; 8]%Z) /\
             nth_error sn 1 = nth_error demo_heap 1 /\ length sn = 44.
Proof. vm_compute. eexists. repeat split. Qed.

(* with ONE custom copy replaced by an aliasing one - Processor.__deepcopy__ passing the detector
   through, ModelGroup.__deepcopy__ sharing the models list - or with a site that works on the
   caller's object, the frame statement is false: the model can express the defect *)
Definition shallow_detector : policy :=
  mkPolicy [("detector", Alias); ("pipeline", Deep); ("observation", Deep)] (group_fields src_policy).
Definition shallow_models : policy :=
  mkPolicy (proc_fields src_policy) [("models", Alias)].

Theorem C06_shallow_refuted :
  ~ C06_frame_statement shallow_detector Deep /\
  ~ C06_frame_statement shallow_models Deep /\
  ~ C06_frame_statement src_policy Alias.
Proof.
  assert (W1 : exists sn out, observe Z Z run_touch shallow_detector Deep [1; 1]%Z demo_heap 0 = Some (sn, out) /\
                              nth_error sn 1 <> nth_error demo_heap 1).
  { vm_compute. do 2 eexists. split; [reflexivity|]. intro H; inversion H. }
  assert (W2 : exists sn out, observe Z Z run_touch shallow_models Deep [1]%Z demo_heap 3 = Some (sn, out) /\
                              nth_error sn 4 <> nth_error demo_heap 4).
  { vm_compute. do 2 eexists. split; [reflexivity|]. intro H; inversion H. }
  assert (W3 : exists sn out, observe Z Z run_touch src_policy Alias [1]%Z demo_heap 0 = Some (sn, out) /\
                              nth_error sn 1 <> nth_error demo_heap 1).
  { vm_compute. do 2 eexists. split; [reflexivity|]. intro H; inversion H. }
  repeat split; intro F.
  - destruct W1 as [sn [out [E N]]]. apply N. eapply (F Z Z run_touch run_touch_frame); [exact E|]. simpl; lia.
  - destruct W2 as [sn [out [E N]]]. apply N. eapply (F Z Z run_touch run_touch_frame); [exact E|]. simpl; lia.
  - destruct W3 as [sn [out [E N]]]. apply N. eapply (F Z Z run_touch run_touch_frame); [exact E|]. simpl; lia.
Qed.
Print Assumptions C06_shallow_refuted.

(* ------------------------------------------------------------------ failing runs (round 2) *)

(* what the current source says about the five copy sites: none of them writes to anything derived
   from the processor it is given (no attribute / item store, no mutating call; regenerated) *)
Theorem C06_source_sites_pure : sites_pure src_site_effects = true.
Proof. vm_compute. reflexivity. Qed.
Print Assumptions C06_source_sites_pure.

(* the frame statement on the exceptional path, for a copy policy and a site kind: for EVERY
   parameter-setting function (which may reject a value after having applied some of the keys) and
   EVERY pipeline (which may raise after having changed what it changed) that touch only what they
   reach from the processor they are given, for EVERY history of calls - each call a list of runs,
   aborted at its first failing run (loop) or not (dask), followed by further calls - every location
   of the caller's heap holds what it held before the first call *)
Definition C06_frame_exc_statement (pol : policy) (k : skind) : Prop :=
  forall (params res : Type) (setp : params -> heap -> loc -> heap * bool)
         (run : params -> heap -> loc -> heap * option res),
    (forall ps s l, frame_ok s l (fst (exec params res setp run ps s l))) ->
    forall cs s0 p x, x < length s0 ->
      nth_error (fst (calls_exc params res setp run pol k cs s0 p)) x = nth_error s0 x.

Theorem C06_frame_exc : forall site m e k,
  In (site, m) src_sites -> In (site, e) src_site_effects -> kind_of m e = Some k ->
  C06_frame_exc_statement src_policy k.
Proof.
  intros site m e k Hm He Hk params res setp run Hfr cs s0 p x Hx.
  assert (m = Deep) by (eapply sites_ok_In; [|exact Hm]; vm_compute; reflexivity). subst m.
  assert (e = Pure).
  { assert (P : sites_pure src_site_effects = true) by (vm_compute; reflexivity).
    unfold sites_pure in P. rewrite forallb_forall in P. specialize (P _ He). simpl in P.
    destruct e; [reflexivity|discriminate]. }
  subst e. simpl in Hk. inversion Hk; subst k.
  apply calls_exc_frame_locs; auto; vm_compute; reflexivity.
Qed.
Print Assumptions C06_frame_exc.

(* the outcome of a run - its result, or the fact that it fails - does not depend on the history:
   which calls were made before, which of their runs failed and where they were aborted *)
Theorem C06_outcome_independent_of_history :
  forall (params res : Type) (setp : params -> heap -> loc -> heap * bool)
         (run : params -> heap -> loc -> heap * option res),
    (forall ps s l, frame_ok s l (fst (exec params res setp run ps s l))) ->
    (forall ps sa sb C, closed_graph C -> C <> [] ->
       snd (exec params res setp run ps (sa ++ shift (length sa) C) (length sa)) =
       snd (exec params res setp run ps (sb ++ shift (length sb) C) (length sb))) ->
    forall cs ps s0 p s1 c,
      deepcopy src_policy s0 p = Some (s1, c) ->
      snd (step_exc params res setp run src_policy KCopy ps
             (fst (calls_exc params res setp run src_policy KCopy cs s0 p)) p) =
      snd (step_exc params res setp run src_policy KCopy ps s0 p).
Proof.
  intros params res setp run Hfr Hloc cs ps s0 p s1 c Hd.
  eapply outcome_after_history; eauto; vm_compute; reflexivity.
Qed.
Print Assumptions C06_outcome_independent_of_history.

(* non-vacuity: a setter that rejects negative values and a pipeline that raises when the detector
   memory exceeds 100 satisfy the hypotheses; a history with a rejected value, an aborted call and a
   raising model leaves the caller's detector (memory 5) alone, and the run after it returns what it
   returns on the initial heap *)
Example exc_hypotheses_satisfiable :
  (forall k s l, frame_ok s l (fst (exec Z Z setp_nonneg run_touch_limit k s l))) /\
  (forall k sa sb C, closed_graph C -> C <> [] ->
     snd (exec Z Z setp_nonneg run_touch_limit k (sa ++ shift (length sa) C) (length sa)) =
     snd (exec Z Z setp_nonneg run_touch_limit k (sb ++ shift (length sb) C) (length sb))).
Proof. split; [exact exec_nonneg_limit_frame | exact exec_nonneg_limit_local]. Qed.

Example calls_exc_demo :
  let h := [(true, [1; -1; 2]); (false, [200; 3]); (true, [4])]%Z in
  snd (calls_exc Z Z setp_nonneg run_touch_limit src_policy KCopy h demo_heap 0) =
    [[Some 6; None]; [None; Some 8]; [Some 9]]%Z /\
  nth_error (fst (calls_exc Z Z setp_nonneg run_touch_limit src_policy KCopy h demo_heap 0)) 1 =
    nth_error demo_heap 1.
Proof. vm_compute. split; reflexivity. Qed.

(* a site of the effect class Touches - it empties the references of the caller's detector before
   copying and puts them back afterwards, without a finally clause - keeps the frame on a history
   without failures and loses it at the first rejected value; a site that works in place loses it
   anyway: the exceptional path is a separate obligation and the model can express its failure *)
Example detach_site_normal_path :
  nth_error (fst (calls_exc Z Z setp_nonneg run_touch_some src_policy (KDetach false)
                    [(true, [1; 2; 3]); (false, [4])]%Z demo_heap 0)) 1 = nth_error demo_heap 1.
Proof. vm_compute. reflexivity. Qed.

Theorem C06_touching_site_refuted :
  ~ C06_frame_exc_statement src_policy (KDetach false) /\
  ~ C06_frame_exc_statement src_policy KInPlace.
Proof.
  split; intro F.
  - assert (W : nth_error (fst (calls_exc Z Z setp_nonneg run_touch_some src_policy (KDetach false)
                                  [(true, [1; -1])]%Z demo_heap 0)) 1 <> nth_error demo_heap 1).
    { vm_compute. intro H; inversion H. }
    apply W. apply (F Z Z setp_nonneg run_touch_some exec_nonneg_touch_frame). simpl; lia.
  - assert (W : nth_error (fst (calls_exc Z Z setp_nonneg run_touch_some src_policy KInPlace
                                  [(true, [1])]%Z demo_heap 0)) 1 <> nth_error demo_heap 1).
    { vm_compute. intro H; inversion H. }
    apply W. apply (F Z Z setp_nonneg run_touch_some exec_nonneg_touch_frame). simpl; lia.
Qed.
Print Assumptions C06_touching_site_refuted.

(* ... and the same site WITH a finally clause keeps the frame on every history, failing runs
   included (here set and run are constrained separately, because the site acts between them; the
   values Processor.set stores are payload or new objects: it makes no pre-existing location newly
   reachable).  So what separates the two is exactly the exceptional path. *)
Theorem C06_guarded_touching_site_keeps_frame :
  forall (params res : Type) (setp : params -> heap -> loc -> heap * bool)
         (run : params -> heap -> loc -> heap * option res),
    (forall ps s l, frame_ok s l (fst (setp ps s l))) ->
    (forall ps s l, frame_ok s l (fst (run ps s l))) ->
    (forall ps s l x, reach (fst (setp ps s l)) l x -> x < length s -> reach s l x) ->
    forall cs s0 p x, x < length s0 ->
      nth_error (fst (calls_exc params res setp run src_policy (KDetach true) cs s0 p)) x = nth_error s0 x.
Proof.
  intros params res setp run H1 H2 H3 cs s0 p x Hx.
  apply calls_detach_guarded_frame; auto; vm_compute; reflexivity.
Qed.
Print Assumptions C06_guarded_touching_site_keeps_frame.

Example guarded_site_hypotheses_satisfiable :
  (forall k s l, frame_ok s l (fst (setp_nonneg k s l))) /\
  (forall k s l, frame_ok s l (fst (run_touch_some k s l))) /\
  (forall k s l x, reach (fst (setp_nonneg k s l)) l x -> x < length s -> reach s l x) /\
  snd (calls_exc Z Z setp_nonneg run_touch_some src_policy (KDetach true) [(true, [1; -1; 2])]%Z demo_heap 0)
    = [[Some 6; None]]%Z.
Proof.
  split; [exact setp_nonneg_frame|]. split; [exact run_touch_some_frame|].
  split; [exact setp_nonneg_no_capture|]. vm_compute. reflexivity.
Qed.

(* ------------------------------------------------------------------ reference-valued parameters *)

(* Parameter values are payload (immutable) in C06_frame.  A parameter value can also be a REFERENCE
   to one of the caller's mutable objects: in sequential mode the default of every swept key is
   processor.get(key) of the CALLER's processor (an ndarray, the inner lists of a nested list), in
   calibration it is a numpy view of the candidate vector shared by all processors of the candidate.
   The run may then change what it reaches from its processor OR from the value it was given.
   The sites that hand such values on - create_new_processor, update_processor - deep-copy the value
   first (regenerated flag src_value_copy; repaired by the fix: commits, formerly the findings
   C06-ndarray-default-aliased / C06-container-default-aliased / C06-fitness-slice-view-shared), and
   with that copy the frame statement holds with NO exception for reference-valued parameters *)
Definition C06_frame_reference_params_statement (vcopy : bool) : Prop :=
  forall (res : Type) (run : loc -> heap -> loc -> heap * res),
    (forall d s l, frame2_ok s l d (fst (run d s l))) ->
    forall ds s0 p sn out,
      observe_ref res run vcopy src_policy ds s0 p = Some (sn, out) ->
      forall x, x < length s0 -> nth_error sn x = nth_error s0 x.

Theorem C06_frame_reference_params :
  C06_frame_reference_params_statement (flag_of src_value_copy "create_new_processor") /\
  C06_frame_reference_params_statement (flag_of src_value_copy "update_processor").
Proof.
  assert (E1 : flag_of src_value_copy "create_new_processor" = true) by (vm_compute; reflexivity).
  assert (E2 : flag_of src_value_copy "update_processor" = true) by (vm_compute; reflexivity).
  rewrite E1, E2.
  assert (G : C06_frame_reference_params_statement true).
  { intros res run Hfr ds s0 p sn out H x Hx.
    eapply observe_ref_frame; eauto; vm_compute; reflexivity. }
  split; exact G.
Qed.
Print Assumptions C06_frame_reference_params.

Example value_copy_demo :
  exists sn, observe_ref Z run_param true src_policy [7; 7] demo_heap 0 = Some (sn, [1; 1]%Z) /\
             nth_error sn 7 = nth_error demo_heap 7.
Proof. vm_compute. eexists. split; reflexivity. Qed.

(* non-vacuity: the copy of the value is what makes it true - a site that hands the caller's object
   on as it is (what create_new_processor did before the repair) loses the frame *)
Theorem C06_value_copy_necessary : ~ C06_frame_reference_params_statement false.
Proof.
  assert (W : exists sn out, observe_ref Z run_param false src_policy [7; 7] demo_heap 0 = Some (sn, out) /\
                             nth_error sn 7 <> nth_error demo_heap 7).
  { vm_compute. do 2 eexists. split; [reflexivity|]. intro H; inversion H. }
  intro F. destruct W as [sn [out [E N]]]. apply N.
  eapply (F Z run_param run_param_frame2); [exact E|]. simpl; lia.
Qed.
Print Assumptions C06_value_copy_necessary.

(* ------------------------------------------------------------------ the random generator (round 2b) *)

(* A stochastic model without a seed of its own (shot noise, a user model calling numpy.random) makes
   the generator state an INPUT of the run.  Model/HeapRng.v threads it explicitly: a pipeline is
   run : params -> gen -> heap -> loc -> heap * gen * option res, `with set_random_seed(sd)` is
   [seeded], the standalone exposure with pipeline_seed sd is [standalone] (= the run started from
   seed_gen sd on a copy of the user's configuration), and WHERE the run sites put the bracket is the
   regenerated table src_seeding.

   What the current source says: all four run sites (observation loop, observation under dask,
   calibration fitness, calibration post-processing) bracket EVERY run with the user's seed *)
Theorem C06_source_seeding : seeding_ok src_seeding = true.
Proof. vm_compute. reflexivity. Qed.
Print Assumptions C06_source_seeding.

(* the statement, for a seeding discipline: for EVERY generator type and seeding function, EVERY
   parameter-setting function and EVERY pipeline (stochastic or not, failing or not) that touch only
   what they reach from their processor and whose outcome is a function of the copied graph and of the
   generator state they START from; for every seed, every history of earlier calls on the same
   objects, every state g0 of the ambient generator, every list of runs:
   the outcomes of the call are the outcomes of the standalone exposures of its parameter lists, in
   order - all of them (dask path), or up to the first failing run (loop path).  Since the right-hand
   side mentions neither the other runs, nor their order, nor the history, nor g0, a run's outcome
   does not depend on any of them. *)
Definition C06_seeded_runs_statement (d : seeding) : Prop :=
  forall (params res gen seed : Type) (seed_gen : seed -> gen)
         (setp : params -> heap -> loc -> heap * bool)
         (run : params -> gen -> heap -> loc -> heap * gen * option res),
    (forall g ps s l, frame_ok s l (fst (exec params res setp (run_at params res gen run g) ps s l))) ->
    (forall g ps sa sb C, closed_graph C -> C <> [] ->
       snd (exec params res setp (run_at params res gen run g) ps (sa ++ shift (length sa) C) (length sa)) =
       snd (exec params res setp (run_at params res gen run g) ps (sb ++ shift (length sb) C) (length sb))) ->
    forall sd s0 p s1 c, deepcopy src_policy s0 p = Some (s1, c) ->
    forall cs stop rs g0,
      let h := calls_rng params res gen seed seed_gen setp run d (Some sd) src_policy cs g0 s0 p in
      exists n,
        snd (observe_rng params res gen seed seed_gen setp run d (Some sd) stop src_policy rs
               (snd (fst h)) (fst (fst h)) p)
        = firstn n (map (standalone params res gen seed seed_gen setp run src_policy sd s0 p) rs) /\
        (stop = false -> n = length rs).

Theorem C06_seeded_runs_equal_standalone : forall site d,
  In (site, d) src_seeding -> C06_seeded_runs_statement d.
Proof.
  intros site d Hin.
  assert (d = SeedEachRun).
  { assert (P : seeding_ok src_seeding = true) by (vm_compute; reflexivity).
    unfold seeding_ok in P. apply andb_prop in P. destruct P as [_ P]. rewrite forallb_forall in P.
    specialize (P _ Hin). simpl in P. destruct d; [reflexivity|discriminate|discriminate]. }
  subst d. intros params res gen seed seed_gen setp run Hfr Hloc sd s0 p s1 c Hd cs stop rs g0. cbv zeta.
  eapply seeded_runs_standalone; eauto; vm_compute; reflexivity.
Qed.
Print Assumptions C06_seeded_runs_equal_standalone.

(* and the caller's side with the generator in the state: after any history of seeded calls - under
   ANY seeding discipline that uses the seed - every location of the caller's heap holds what it held,
   and the ambient generator is in the state the caller left it in *)
Theorem C06_frame_rng : forall site d, In (site, d) src_seeding ->
  forall (params res gen seed : Type) (seed_gen : seed -> gen)
         (setp : params -> heap -> loc -> heap * bool)
         (run : params -> gen -> heap -> loc -> heap * gen * option res),
    (forall g ps s l, frame_ok s l (fst (exec params res setp (run_at params res gen run g) ps s l))) ->
    forall sd cs g0 s0 p,
      (forall x, x < length s0 ->
         nth_error (fst (fst (calls_rng params res gen seed seed_gen setp run d sd src_policy cs g0 s0 p))) x
         = nth_error s0 x) /\
      (forall x, sd = Some x ->
         snd (fst (calls_rng params res gen seed seed_gen setp run d sd src_policy cs g0 s0 p)) = g0).
Proof.
  intros site d Hin params res gen seed seed_gen setp run Hfr sd cs g0 s0 p. split.
  - intros x Hx. apply calls_rng_frame_locs; auto; vm_compute; reflexivity.
  - intros x ->. apply calls_rng_gen_restored.
    assert (P : seeding_ok src_seeding = true) by (vm_compute; reflexivity).
    unfold seeding_ok in P. apply andb_prop in P. destruct P as [_ P]. rewrite forallb_forall in P.
    specialize (P _ Hin). simpl in P. destruct d; [discriminate|discriminate|discriminate].
Qed.
Print Assumptions C06_frame_rng.

(* non-vacuity: a stochastic pipeline (it returns the detector memory plus the number it draws, moves
   the memory on, advances the generator by k+1, raises when it drew more than 1000) satisfies the
   hypotheses; three seeded calls - one aborted by a rejected value - give every run the standalone
   outcome 5+k+7 under seed 7, whatever the ambient generator (99) and the order *)
Example rng_hypotheses_satisfiable :
  (forall g k s l, frame_ok s l (fst (exec Z Z setp_nonneg (run_at Z Z Z run_draw g) k s l))) /\
  (forall g k sa sb C, closed_graph C -> C <> [] ->
     snd (exec Z Z setp_nonneg (run_at Z Z Z run_draw g) k (sa ++ shift (length sa) C) (length sa)) =
     snd (exec Z Z setp_nonneg (run_at Z Z Z run_draw g) k (sb ++ shift (length sb) C) (length sb))).
Proof. split; [exact exec_draw_frame | exact exec_draw_local]. Qed.

Example calls_rng_demo :
  let h := [(true, [1; -1; 2]); (false, [3; 1]); (true, [2; 1])]%Z in
  snd (calls_rng Z Z Z Z seed_id setp_nonneg run_draw SeedEachRun (Some 7%Z) src_policy h 99%Z demo_heap 0) =
    [[Some 13; None]; [Some 15; Some 13]; [Some 14; Some 13]]%Z /\
  snd (fst (calls_rng Z Z Z Z seed_id setp_nonneg run_draw SeedEachRun (Some 7%Z) src_policy h 99%Z demo_heap 0)) = 99%Z /\
  standalone Z Z Z Z seed_id setp_nonneg run_draw src_policy 7%Z demo_heap 0 1%Z = Some 13%Z.
Proof. vm_compute. repeat split; reflexivity. Qed.

(* ONE bracket around the whole loop (and the runs inside not seeded), or no bracket at all, loses the
   statement: run 0 still is the standalone exposure, run 1 draws from the stream run 0 left - the
   model can express the defect, and the theorem above is about where the source puts the bracket *)
Theorem C06_seed_once_per_call_refuted :
  ~ C06_seeded_runs_statement SeedOncePerCall /\ ~ C06_seeded_runs_statement SeedNever.
Proof.
  assert (Hd : exists s1 c, deepcopy src_policy demo_heap 0 = Some (s1, c)).
  { vm_compute. do 2 eexists. reflexivity. }
  destruct Hd as [s1 [c Hd]].
  split; intro F.
  - destruct (F Z Z Z Z seed_id setp_nonneg run_draw exec_draw_frame exec_draw_local 7%Z demo_heap 0 s1 c Hd
                [] false [1; 1]%Z 99%Z) as [n [E Hn]].
    rewrite (Hn eq_refl) in E. vm_compute in E. discriminate E.
  - destruct (F Z Z Z Z seed_id setp_nonneg run_draw exec_draw_frame exec_draw_local 7%Z demo_heap 0 s1 c Hd
                [] false [1]%Z 99%Z) as [n [E Hn]].
    rewrite (Hn eq_refl) in E. vm_compute in E. discriminate E.
Qed.
Print Assumptions C06_seed_once_per_call_refuted.

Example seed_once_demo :
  snd (observe_rng Z Z Z Z seed_id setp_nonneg run_draw SeedOncePerCall (Some 7%Z) false src_policy [1; 1]%Z 99%Z
         demo_heap 0) = [Some 13; Some 15]%Z.
Proof. vm_compute. reflexivity. Qed.

(* ------------------------------------------------------------------ the pickle route (round 2b) *)

(* Under a multi-process or distributed scheduler the caller's processor reaches every run through a
   pickle round trip (the custom __getstate__ / __setstate__ of ModelGroup, the default protocol
   elsewhere) before Processor.replace copies it.  The regenerated policy of that round trip aliases
   nothing and drops none of the configuration-carrying fields, so it is a fresh isomorphic block
   like the deep copy, and the frame statement holds for it as well *)
Theorem C06_pickle_route :
  policy_ok src_pickle_policy = true /\ policy_complete src_pickle_policy = true /\
  C06_frame_statement src_pickle_policy Deep.
Proof.
  assert (Hpol : policy_ok src_pickle_policy = true) by (vm_compute; reflexivity).
  split; [exact Hpol|]. split; [vm_compute; reflexivity|].
  intros params res run Hfr rs s0 p sn out H x Hx.
  eapply observe_frame_locs; eauto.
Qed.
Print Assumptions C06_pickle_route.

Example pickle_demo :
  exists s', deepcopy src_pickle_policy demo_heap 0 = Some (s', 11) /\ length s' = 22.
Proof. vm_compute. eexists. split; reflexivity. Qed.

(* and the shallow copy of the whole processor (copy.copy) shares everything below it *)
Example shallow_shares :
  exists s' c, shallow demo_heap 0 = Some (s', c) /\ reach s' c 1.
Proof.
  vm_compute. do 2 eexists. split; [reflexivity|].
  eapply reach_step; [apply reach_refl | reflexivity | left; reflexivity].
Qed.
