(* C16 — digitised images are bounded, monotone, saturating and never wrap.
   Only statements here; proofs live in Proofs/.  Gen_C16 is regenerated from
   pyxel/util/misc.py (get_dtype) and from the three detector-level converter models on every run. *)
From Coq Require Import ZArith List Bool Reals Lia.
From Flocq Require Import Core BinarySingleNaN.
From PyxelV Require Import Lib.B64 Model.Adc Model.AdcHist Proofs.AdcChain Proofs.AdcFloat Proofs.AdcRange Proofs.AdcSimple Proofs.AdcSar Proofs.AdcSar0 Proofs.AdcSarp Proofs.AdcFrame Proofs.AdcWrap Proofs.AdcHist Proofs.AdcWitness.
From PyxelGen Require Import Gen_C16.
Import ListNotations.
Open Scope Z_scope.

(* ---- stored in an unsigned type wide enough for full scale, for every resolution get_dtype accepts *)
Theorem C16_dtype_wide_enough :
  forall b, 1 <= b <= 64 ->
  exists w, chain_width src_dtype_chain b = Some w /\ 2 ^ b - 1 < 2 ^ w /\ In w [8; 16; 32; 64].
Proof. apply chain_ok_sound. vm_compute. reflexivity. Qed.
Print Assumptions C16_dtype_wide_enough.

Theorem C16_dtype_refuses_outside :
  forall b, (b < 1 \/ 64 < b) -> chain_width src_dtype_chain b = None.
Proof. apply chain_refuses_sound. vm_compute. reflexivity. Qed.
Print Assumptions C16_dtype_refuses_outside.

(* ================================================================ simple converter
   (clip, scale by 2^bits - 1 in double precision, truncate, clamp to the largest double not above full
   scale, cast; voltages at or above the range maximum are set to full scale).
   All statements: EVERY resolution 0..64, ALL finite ranges vmin < vmax (no bound on the span), ALL
   non-NaN voltages, infinities included. *)

(* ---- only integers from 0 to 2^bits - 1, whatever the width of the type *)
Theorem C16_range :
  forall (bits : Z) (vmin vmax : b64), 0 <= bits <= 64 ->
  is_finite vmin = true -> is_finite vmax = true -> (B2R vmin < B2R vmax)%R ->
  forall (w : Z) (x : b64) (c : Z), bis_nan x = false ->
  simple_code w bits vmin vmax x = Some c ->
  0 <= c <= 2 ^ bits - 1.
Proof. exact simple_range. Qed.
Print Assumptions C16_range.

(* ---- never wraps: with the width get_dtype chooses, the float -> unsigned cast of every pixel is
   defined (its operand is an integer in 0 .. 2^bits - 1 < 2^w), provided the span vmax - vmin itself
   is a finite double (|vmax - vmin| < 1.8e308) *)
Theorem C16_never_wraps :
  forall (bits : Z) (vmin vmax : b64), 1 <= bits <= 64 ->
  is_finite vmin = true -> is_finite vmax = true -> (B2R vmin < B2R vmax)%R ->
  is_finite (bsub vmax vmin) = true ->
  forall (w : Z), chain_width src_dtype_chain bits = Some w ->
  forall (x : b64), bis_nan x = false ->
  exists c, simple_code w bits vmin vmax x = Some c /\ 0 <= c <= 2 ^ bits - 1 /\ c < 2 ^ w.
Proof.
  intros bits vmin vmax Hb Fmin Fmax Hr Fs w Hw x Nx.
  destruct (chain_fits src_dtype_chain ltac:(vm_compute; reflexivity) bits w Hb Hw) as [Hle Hlt].
  destruct (simple_defined bits vmin vmax ltac:(lia) Fmin Fmax Hr w x Hle Fs Nx) as [c [E R]].
  exists c. split; [exact E|]. split; [exact R|lia].
Qed.
Print Assumptions C16_never_wraps.

(* ---- a higher voltage never yields a lower code *)
Theorem C16_monotone :
  forall (bits : Z) (vmin vmax : b64), 0 <= bits <= 64 ->
  is_finite vmin = true -> is_finite vmax = true -> (B2R vmin < B2R vmax)%R ->
  forall (w : Z) (x y : b64) (cx cy : Z), bits <= w ->
  bis_nan x = false -> bis_nan y = false -> ble x y = true ->
  simple_code w bits vmin vmax x = Some cx ->
  simple_code w bits vmin vmax y = Some cy ->
  cx <= cy.
Proof. exact simple_monotone. Qed.
Print Assumptions C16_monotone.

(* ---- voltages at or below the range minimum map to 0 (also -inf), and the cast is defined there *)
Theorem C16_low_saturates :
  forall (bits : Z) (vmin vmax : b64), 0 <= bits <= 64 ->
  is_finite vmin = true -> is_finite vmax = true -> (B2R vmin < B2R vmax)%R ->
  forall (w : Z) (x : b64), 0 <= w ->
  bis_nan x = false -> ble x vmin = true ->
  simple_code w bits vmin vmax x = Some 0.
Proof. exact simple_low_saturates. Qed.
Print Assumptions C16_low_saturates.

(* ---- voltages at or above the range maximum (also +inf) map to full scale 2^bits - 1 EXACTLY, for
   every resolution up to 64 bits and every range (this is the statement that was refuted before the
   repair: C16-F8a/b/c) *)
Theorem C16_high_saturates :
  forall (bits : Z) (vmin vmax : b64), 0 <= bits <= 64 ->
  forall (w : Z) (x : b64), bits <= w -> bge x vmax = true ->
  simple_code w bits vmin vmax x = Some (2 ^ bits - 1).
Proof. exact simple_high_saturates. Qed.
Print Assumptions C16_high_saturates.

(* the same with the width taken from get_dtype, in the form of the former `_full` statement *)
Theorem C16_full_scale_at_maximum :
  forall (bits : Z) (vmin vmax : b64), 4 <= bits <= 64 ->
  is_finite vmin = true -> is_finite vmax = true -> blt vmin vmax = true ->
  forall w, chain_width src_dtype_chain bits = Some w ->
  simple_code w bits vmin vmax vmax = Some (2 ^ bits - 1).
Proof.
  intros bits vmin vmax Hb Fmin Fmax Hlt w Hw.
  destruct (chain_fits src_dtype_chain ltac:(vm_compute; reflexivity) bits w ltac:(lia) Hw) as [Hle _].
  apply simple_high_saturates; [lia|exact Hle|].
  unfold bge. rewrite ble_finite by assumption. apply Rle_bool_true. apply Rle_refl.
Qed.
Print Assumptions C16_full_scale_at_maximum.

(* ---- NaN, stated explicitly: a NaN voltage is below no maximum and is clamped by nothing
   (np.minimum propagates it), so the cast of that pixel is undefined — for every setting.  NaN
   voltages are outside the property's quantifier; this is what the model says happens to them. *)
Theorem C16_nan_undefined :
  forall (w bits : Z) (vmin vmax : b64), simple_code w bits vmin vmax bnan = None.
Proof. exact simple_nan. Qed.
Print Assumptions C16_nan_undefined.

(* ---- whole frames: on sorted NaN-free voltages the model's image is defined everywhere and satisfies
   the specification the implementation's image is judged against (range, both saturations, sorted
   codes, type width) *)
Theorem C16_simple_frame_meets_spec :
  forall (bits : Z) (vmin vmax : b64), 1 <= bits <= 64 ->
  is_finite vmin = true -> is_finite vmax = true -> (B2R vmin < B2R vmax)%R ->
  is_finite (bsub vmax vmin) = true ->
  forall xs, no_nan xs = true -> sortedB xs = true ->
  exists w cs, simple_frame src_dtype_chain bits vmin vmax xs = Some (w, map Some cs) /\
               simple_spec bits vmin vmax xs w cs = true.
Proof. apply simple_frame_meets_spec. vm_compute. reflexivity. Qed.
Print Assumptions C16_simple_frame_meets_spec.

(* ================================================================ successive-approximation converter
   (integer accumulator, double-precision remainder), EVERY resolution: every code lies in
   0 .. 2^bits - 1 for ALL voltages (NaN and infinities included) and ALL reference voltages, the
   unsigned accumulator never wraps and the result is defined whenever the type is wide enough (it is:
   C16_dtype_wide_enough), and the code is non-decreasing in the voltage (all non-NaN voltages,
   infinities included; finite vmax >= 0). *)
Theorem C16_sar_range :
  forall (w bits : Z) (vmax x : b64) (c : Z),
  1 <= bits -> sar_code w bits vmax x = Some c -> 0 <= c <= 2 ^ bits - 1.
Proof. exact sar_range. Qed.
Print Assumptions C16_sar_range.

Theorem C16_sar_defined :
  forall (w bits : Z) (vmax x : b64),
  1 <= bits -> bits <= w ->
  sar_code w bits vmax x = Some (sar_acc bits vmax x) /\ 0 <= sar_acc bits vmax x <= 2 ^ bits - 1.
Proof. intros w bits vmax x Hb Hw. split; [apply sar_defined; assumption|apply sar_acc_range; assumption]. Qed.
Print Assumptions C16_sar_defined.

Theorem C16_sar_monotone :
  forall (bits : Z), 1 <= bits ->
  forall (w : Z) (vmax x y : b64) (cx cy : Z),
  is_finite vmax = true -> (0 <= B2R vmax)%R ->
  bis_nan x = false -> bis_nan y = false -> ble x y = true ->
  sar_code w bits vmax x = Some cx -> sar_code w bits vmax y = Some cy -> cx <= cy.
Proof.
  intros bits Hb w vmax x y cx cy Fv Pv Nx Ny Hxy Hx Hy.
  destruct (Z_lt_le_dec w bits) as [L|L].
  - (* a type narrower than the resolution: only the defined casts are compared *)
    pose proof (sar_acc_monotone_ext bits Hb vmax x y Fv Pv Nx Ny Hxy) as H.
    unfold sar_code, cast_unsigned in Hx, Hy.
    destruct ((0 <=? sar_acc bits vmax x) && (sar_acc bits vmax x <? 2 ^ w)); [|discriminate].
    destruct ((0 <=? sar_acc bits vmax y) && (sar_acc bits vmax y <? 2 ^ w)); [|discriminate].
    inversion Hx; inversion Hy; subst; exact H.
  - rewrite (sar_defined w bits vmax x Hb L) in Hx. rewrite (sar_defined w bits vmax y Hb L) in Hy.
    inversion Hx; inversion Hy; subst. apply sar_acc_monotone_ext; assumption.
Qed.
Print Assumptions C16_sar_monotone.

(* the SAR converter saturates at the infinities: -inf gives 0, +inf gives full scale *)
Theorem C16_sar_infinities :
  forall (bits : Z) (vmax : b64), 1 <= bits -> is_finite vmax = true -> (0 <= B2R vmax)%R ->
  sar_acc bits vmax ninf = 0 /\ sar_acc bits vmax pinf = 2 ^ bits - 1.
Proof. intros bits vmax Hb Fv Pv. split; [apply sar_acc_ninf|apply sar_acc_pinf]; assumption. Qed.
Print Assumptions C16_sar_infinities.

Theorem C16_sar_frame_meets_spec :
  forall (bits : Z) (vmax : b64), 1 <= bits <= 64 ->
  is_finite vmax = true -> (0 <= B2R vmax)%R ->
  forall xs, no_nan xs = true -> sortedB xs = true ->
  exists w cs, sar_frame src_dtype_chain bits vmax xs = Some (w, map Some cs) /\ sar_spec bits xs w cs = true.
Proof. apply sar_frame_meets_spec. vm_compute. reflexivity. Qed.
Print Assumptions C16_sar_frame_meets_spec.

(* ---- the noisy variant with zero strengths and zero noises reproduces the noise-free converter
   exactly: EVERY resolution, EVERY voltage (NaN, infinities included), every finite vmax >= 0 *)
Theorem C16_sar_noise0 :
  forall (w bits : Z) (vmax x : b64),
  is_finite vmax = true -> (0 <= B2R vmax)%R ->
  sar0_code w bits vmax x = sar_code w bits vmax x.
Proof. exact sar0_eq_sar. Qed.
Print Assumptions C16_sar_noise0.

(* ---- the noisy variant in general: WHATEVER perturbation of the reference voltage is drawn for each
   bit (any doubles, NaN and infinities included — the random draws are universally quantified), every
   code lies in 0 .. 2^bits - 1, the unsigned accumulator never wraps, and the image is defined with the
   type get_dtype chooses; with all perturbations +0.0 it is the noise-free converter *)
Theorem C16_noisy_range :
  forall (w bits : Z) (vmax : b64) (ps : list b64) (x : b64) (c : Z),
  1 <= bits -> sarp_code w bits vmax ps x = Some c -> 0 <= c <= 2 ^ bits - 1.
Proof. exact sarp_range. Qed.
Print Assumptions C16_noisy_range.

Theorem C16_noisy_frame_meets_spec :
  forall (bits : Z) (vmax : b64) (ps xs : list b64), 1 <= bits <= 64 -> bits <= Z.of_nat (length ps) ->
  exists w cs, sarp_frame src_dtype_chain bits vmax ps xs = Some (w, map Some cs) /\ noisy_spec bits xs w cs = true.
Proof. apply sarp_frame_meets_spec. vm_compute. reflexivity. Qed.
Print Assumptions C16_noisy_frame_meets_spec.

Theorem C16_noisy_zero_is_noise_free :
  forall (w bits : Z) (vmax x : b64),
  is_finite vmax = true -> (0 <= B2R vmax)%R ->
  sarp_code w bits vmax (repeat pzero (Z.to_nat bits)) x = sar_code w bits vmax x.
Proof. exact sarp_zero_eq_sar. Qed.
Print Assumptions C16_noisy_zero_is_noise_free.

(* ================================================================ the detector-level models
   simple_adc / sar_adc / sar_adc_with_noise as wired in the source (Gen_C16.src_*_wiring, regenerated
   on every run): each reads adc_bit_resolution and adc_voltage_range (minimum first) of the detector it
   is given, hands detector.signal.array (and the detector's own geometry) to the converter, chooses the
   type with get_dtype(adc_bit_resolution) unless data_type overrides it, and stores the converter's
   result unchanged as detector.image.array. *)
Theorem C16_wrappers_wired :
  simple_wiring_ok src_simple_wiring = true /\ sar_wiring_ok src_sar_wiring = true /\
  sar0_wiring_ok src_sar0_wiring = true.
Proof. vm_compute. repeat split; reflexivity. Qed.
Print Assumptions C16_wrappers_wired.

(* the image is the converter's output on the detector's own characteristics *)
Theorem C16_detector_image :
  forall d : adc_detector,
  run_simple src_dtype_chain src_simple_wiring d None
    = simple_frame src_dtype_chain (d_bits d) (d_lo d) (d_hi d) (d_signal d) /\
  run_sar src_dtype_chain src_sar_wiring d = sar_frame src_dtype_chain (d_bits d) (d_hi d) (d_signal d) /\
  run_sar0 src_dtype_chain src_sar0_wiring d (d_bits d) (d_bits d)
    = sar0_frame src_dtype_chain (d_bits d) (d_hi d) (d_signal d) /\
  (forall n m, (n <> d_bits d \/ m <> d_bits d) -> run_sar0 src_dtype_chain src_sar0_wiring d n m = None) /\
  (forall ps, run_sarp src_dtype_chain src_sar0_wiring d ps
              = sarp_frame src_dtype_chain (d_bits d) (d_hi d) ps (d_signal d)).
Proof.
  intros d. destruct C16_wrappers_wired as [A [B C]].
  split; [apply run_simple_ok; exact A|]. split; [apply run_sar_ok; exact B|].
  destruct (run_sar0_ok src_dtype_chain _ d C) as [H1 H2].
  split; [exact H1|]. split; [exact H2|]. intros ps. apply run_sarp_ok. exact C.
Qed.
Print Assumptions C16_detector_image.

(* hence, for every allowed detector setting, the image simple_adc stores satisfies the specification —
   with the type get_dtype chooses, and with any data_type override at least as wide as the resolution *)
Theorem C16_simple_adc_detector :
  forall d : adc_detector, 1 <= d_bits d <= 64 ->
  is_finite (d_lo d) = true -> is_finite (d_hi d) = true -> (B2R (d_lo d) < B2R (d_hi d))%R ->
  is_finite (bsub (d_hi d) (d_lo d)) = true ->
  no_nan (d_signal d) = true -> sortedB (d_signal d) = true ->
  (exists w cs, run_simple src_dtype_chain src_simple_wiring d None = Some (w, map Some cs) /\
                simple_spec (d_bits d) (d_lo d) (d_hi d) (d_signal d) w cs = true) /\
  (forall wd, d_bits d <= wd ->
   exists cs, run_simple src_dtype_chain src_simple_wiring d (Some wd) = Some (wd, map Some cs) /\
              simple_spec (d_bits d) (d_lo d) (d_hi d) (d_signal d) wd cs = true).
Proof.
  intros d Hb Flo Fhi Hr Fs Hn Hs. destruct C16_wrappers_wired as [A _]. split.
  - rewrite (run_simple_ok _ _ d A).
    apply (simple_frame_meets_spec src_dtype_chain ltac:(vm_compute; reflexivity)); assumption.
  - intros wd Hw.
    destruct (simple_codes_meet_spec (d_bits d) (d_lo d) (d_hi d) Hb Flo Fhi Hr Fs wd (d_signal d) Hw Hn Hs)
      as [cs [E Sp]].
    exists cs. split; [|exact Sp].
    rewrite (run_simple_override _ _ d wd A eq_refl), E. reflexivity.
Qed.
Print Assumptions C16_simple_adc_detector.

(* ================================================================ histories on ONE detector object
   The detector lives through any sequence of operations (Model/AdcHist.v): the setters of
   detector.characteristics (adc_bit_resolution refuses values outside 4..64), a new signal frame, emptying
   the Image bucket, and calls of the three models in any order.  The state carries the image the detector
   currently holds.  All statements: EVERY initial state (whatever image an earlier call left behind) and
   EVERY history, no bound on its length, refused operations included. *)

(* the body of each model reads only the detector's settings, signal and geometry, and writes only the image
   (regenerated from the source): nothing can be carried from one call to the next through the detector *)
Theorem C16_wrappers_touch :
  touch_ok src_simple_touch = true /\ touch_ok src_sar_touch = true /\ touch_ok src_sar0_touch = true.
Proof. vm_compute. repeat split; reflexivity. Qed.
Print Assumptions C16_wrappers_touch.

(* the model treats every converter as a FUNCTION of its arguments.  Regenerated from the source: the wrappers, the
   converter functions, get_dtype and the module-level helpers they call read no module-level name that could
   carry something from one call to the next (only locals, builtins, imported names, called module functions and
   module constants bound once to an immutable literal), declare no global, keep no function attribute and
   have no mutable default argument *)
Theorem C16_converters_stateless : src_module_state = [].
Proof. reflexivity. Qed.
Print Assumptions C16_converters_stateless.

(* calls and emptying the image never change the converter settings; a setter changes only its own attribute *)
Theorem C16_history_settings :
  forall (ops : list adc_op) (s : hstate),
  h_det (hrun src_dtype_chain src_simple_wiring src_sar_wiring src_sar0_wiring s ops)
    = fold_left apply_set ops (h_det s).
Proof. intros ops s. apply hrun_settings. Qed.
Print Assumptions C16_history_settings.

(* every allowed call, from ANY state, raises nothing and stores an image that is defined everywhere and
   satisfies the specification for the settings in force at that call *)
Theorem C16_history_call_meets_spec :
  forall (s : hstate) (o : adc_op), call_allowed (h_det s) o = true ->
  exists w cs,
    hstep src_dtype_chain src_simple_wiring src_sar_wiring src_sar0_wiring s o
      = ({| h_det := h_det s; h_image := Some (w, map Some cs) |}, false) /\
    call_spec (h_det s) o w cs = true.
Proof.
  destruct C16_wrappers_wired as [A [B C]].
  apply call_meets_spec; [vm_compute; reflexivity|exact A|exact B|exact C].
Qed.
Print Assumptions C16_history_call_meets_spec.

(* the image a call stores does not depend on what the Image bucket held before the call *)
Theorem C16_history_previous_image_irrelevant :
  forall (d : adc_detector) (im1 im2 : image_m) (o : adc_op), call_allowed d o = true ->
  h_image (fst (hstep src_dtype_chain src_simple_wiring src_sar_wiring src_sar0_wiring {| h_det := d; h_image := im1 |} o))
  = h_image (fst (hstep src_dtype_chain src_simple_wiring src_sar_wiring src_sar0_wiring {| h_det := d; h_image := im2 |} o)).
Proof.
  destruct C16_wrappers_wired as [A [B C]].
  apply call_ignores_previous_image; [vm_compute; reflexivity|exact A|exact B|exact C].
Qed.
Print Assumptions C16_history_previous_image_irrelevant.

(* whole histories: the model's own trace passes the judge that the implementation's trace is given to
   (hist_judge: every allowed call is held to the specification of the settings the setters put in force) *)
Theorem C16_history_meets_spec :
  forall (ops : list adc_op) (s : hstate),
  hist_judge (h_det s) ops
    (model_obs (htrace src_dtype_chain src_simple_wiring src_sar_wiring src_sar0_wiring s ops)) 0 = [].
Proof.
  destruct C16_wrappers_wired as [A [B C]].
  intros ops s. apply hist_model_ok; [vm_compute; reflexivity|exact A|exact B|exact C].
Qed.
Print Assumptions C16_history_meets_spec.

(* ================================================================ non-vacuity *)

(* the hypotheses are met by an ordinary setting, and the conclusions are not trivial *)
Example C16_hyps_satisfiable :
  is_finite (pzero : b64) = true /\ is_finite (bofZ 6) = true /\ is_finite (bsub (bofZ 6) pzero) = true /\
  ble (bofZ 3) (bofZ 6) = true /\ ble ninf pzero = true /\ bge pinf (bofZ 6) = true /\
  chain_width src_dtype_chain 8 = Some 8 /\
  no_nan [ninf; pzero; bofZ 3; bofZ 6; pinf] = true /\ sortedB [ninf; pzero; bofZ 3; bofZ 6; pinf] = true /\
  map (simple_code 8 8 pzero (bofZ 6)) [ninf; pzero; bofZ 3; bofZ 6; pinf]
    = [Some 0; Some 0; Some 127; Some 255; Some 255].
Proof. vm_compute. repeat split; reflexivity. Qed.

(* the inputs that refuted the full statements before the repairs (C16-F8a, F8b, F8c: the unclamped
   scaled value is still 2^28 - 2, 2^54, 2^64 there) now give full scale, and stay below it just under
   the maximum; an intermediate overflow to +inf is clamped instead of making the cast undefined *)
Example C16_formerly_refuted_inputs :
  btruncZ (simple_scaled 28 pzero w_short_vmax w_short_vmax) = Some (2 ^ 28 - 2) /\
  simple_code 32 28 pzero w_short_vmax w_short_vmax = Some (2 ^ 28 - 1) /\
  btruncZ (simple_scaled 54 (mk (-3) (-1)) (mk 9 (-2)) (mk 9 (-2))) = Some (2 ^ 54) /\
  simple_code 64 54 (mk (-3) (-1)) (mk 9 (-2)) (mk 9 (-2)) = Some (2 ^ 54 - 1) /\
  simple_code 64 54 (mk (-3) (-1)) (mk 9 (-2)) (bpred (mk 9 (-2))) = Some (2 ^ 54 - 2) /\
  btruncZ (simple_scaled 64 pzero (bofZ 1) (bofZ 1)) = Some (2 ^ 64) /\
  simple_code 64 64 pzero (bofZ 1) (bofZ 1) = Some (2 ^ 64 - 1) /\
  simple_code 64 64 pzero (mk 1 1000) (mk 1 999) = Some (2 ^ 64 - 2048).
Proof.
  pose proof short_scaled_value as [_ A]. pose proof short_repaired as [B _].
  pose proof high_bits_repaired as [C [D E]]. pose proof wrap_repaired as [F [G _]].
  pose proof overflow_clamped as [_ H]. repeat split; assumption.
Qed.

(* the noisy variant with non-zero perturbations differs from the noise-free converter and stays in range *)
Example C16_noisy_example :
  sarp_code 8 8 (bofZ 8) [bofZ 1; pzero; pzero; pzero; pzero; pzero; pzero; pzero] (bofZ 4) = Some 102 /\
  sar_code 8 8 (bofZ 8) (bofZ 4) = Some 128 /\
  sarp_code 8 8 (bofZ 8) [pinf; bnan; ninf; pzero; pzero; pzero; pzero; pzero] (bofZ 4) = Some 0.
Proof. vm_compute. repeat split; reflexivity. Qed.

(* the SAR converters at the resolutions that used to fail (C16-F8d, repaired) *)
Example C16_sar_full_scale_high_bits :
  sar_code 64 54 (bofZ 1) (bofZ 2) = Some (2 ^ 54 - 1) /\ sar_code 64 64 (bofZ 1) (mk 3 (-2)) = Some (2 ^ 63 + 2 ^ 62).
Proof. split; [exact sar_full_scale_54|exact sar_top_bit_64]. Qed.

(* a history that crosses an output-type band with the image left in place: 8 bits (uint8 image), then 12 bits.
   The second image is stored as 16-bit codes up to 4095; the judge accepts the model's trace and rejects a
   trace whose second image is still 8 bits wide (codes modulo 256) *)
Example C16_history_example :
  let d := {| d_bits := 8; d_lo := pzero; d_hi := bofZ 6; d_signal := [pzero; bofZ 3; bofZ 6]; d_rows := 1; d_cols := 3 |} in
  let ops := [OSimple None; OSetBits 12; OSimple None] in
  call_allowed d (OSimple None) = true /\ call_allowed (with_bits d 12) (OSimple None) = true /\
  htrace src_dtype_chain src_simple_wiring src_sar_wiring src_sar0_wiring {| h_det := d; h_image := None |} ops
    = [(false, Some (8, [Some 0; Some 127; Some 255])); (false, Some (8, [Some 0; Some 127; Some 255]));
       (false, Some (16, [Some 0; Some 2047; Some 4095]))] /\
  hist_judge d ops [ {| o_raised := false; o_image := Some (8, [0; 127; 255]); o_sig_ok := true |};
                     {| o_raised := false; o_image := Some (8, [0; 127; 255]); o_sig_ok := true |};
                     {| o_raised := false; o_image := Some (8, [0; 255; 255]); o_sig_ok := true |} ] 0 = [2].
Proof. vm_compute. repeat split; reflexivity. Qed.
