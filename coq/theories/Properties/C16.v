(* C16 — digitised images are bounded, monotone, saturating and never wrap.
   Only statements here; proofs live in Proofs/.  Gen_C16 is regenerated from
   pyxel/util/misc.py (get_dtype) on every run. *)
From Coq Require Import ZArith List Bool Reals Lia.
From Flocq Require Import Core BinarySingleNaN.
From PyxelV Require Import Lib.B64 Model.Adc Proofs.AdcChain Proofs.AdcFloat Proofs.AdcRange Proofs.AdcSar Proofs.AdcSar0 Proofs.AdcWitness.
From PyxelGen Require Import Gen_C16.
Import ListNotations.
Open Scope Z_scope.

(* ---- stored in an unsigned type wide enough for full scale, for every resolution get_dtype accepts *)
Theorem C16_dtype_wide_enough :
  forall b, 1 <= b <= 64 ->
  exists w, chain_width src_dtype_chain b = Some w /\ 2 ^ b - 1 < 2 ^ w /\ In w [8; 16; 32; 64].
Proof. apply chain_ok_sound. vm_compute. reflexivity. Qed.
Print Assumptions C16_dtype_wide_enough.

Theorem C16_dtype_refuses_outside :
  forall b, (b < 1 \/ 64 < b) -> chain_width src_dtype_chain b = None.
Proof. apply chain_refuses_sound. vm_compute. reflexivity. Qed.
Print Assumptions C16_dtype_refuses_outside.

(* ---- simple converter: a higher voltage never yields a lower code.
   For ALL finite ranges vmin < vmax, all resolutions, all non-NaN voltages x <= y (infinities
   included), whenever both casts to the unsigned type are defined. No bound on the range. *)
Theorem C16_monotone :
  forall (bits : Z) (vmin vmax : b64), 0 <= bits ->
  is_finite vmin = true -> is_finite vmax = true -> (B2R vmin < B2R vmax)%R ->
  forall (w : Z) (x y : b64) (cx cy : Z),
  bis_nan x = false -> bis_nan y = false -> ble x y = true ->
  simple_code w bits vmin vmax x = Some cx ->
  simple_code w bits vmin vmax y = Some cy ->
  cx <= cy.
Proof. exact simple_monotone. Qed.
Print Assumptions C16_monotone.

(* ---- simple converter: voltages at or below the range minimum map to 0 (also -inf), and the cast
   is defined there *)
Theorem C16_low_saturates :
  forall (bits : Z) (vmin vmax : b64), 0 <= bits ->
  is_finite vmin = true -> is_finite vmax = true -> (B2R vmin < B2R vmax)%R ->
  forall (w : Z) (x : b64), bits <= 64 -> 0 <= w ->
  bis_nan x = false -> ble x vmin = true ->
  simple_code w bits vmin vmax x = Some 0.
Proof. exact simple_low_saturates. Qed.
Print Assumptions C16_low_saturates.

(* ---- simple converter: only integers from 0 to 2^bits - 1, for resolutions up to 52 bits, ALL finite
   ranges and ALL non-NaN voltages (the statement for 54..64 bits is refuted below; 53 bits is open:
   not proved, no counterexample found) *)
Theorem C16_range_partial :
  forall (bits : Z) (vmin vmax : b64), 1 <= bits <= 52 ->
  is_finite vmin = true -> is_finite vmax = true -> (B2R vmin < B2R vmax)%R ->
  forall (w : Z) (x : b64) (c : Z), bis_nan x = false ->
  simple_code w bits vmin vmax x = Some c ->
  0 <= c <= 2 ^ bits - 1.
Proof. exact simple_range. Qed.
Print Assumptions C16_range_partial.

(* ---- successive-approximation converter (integer accumulator), EVERY resolution: every code lies in
   0 .. 2^bits - 1 for ALL voltages (NaN and infinities included) and ALL reference voltages, the
   unsigned accumulator never wraps and the result is defined whenever the type is wide enough (it is:
   C16_dtype_wide_enough), and the code is non-decreasing in the voltage (finite voltages, finite
   vmax >= 0). *)
Theorem C16_sar_range :
  forall (w bits : Z) (vmax x : b64) (c : Z),
  1 <= bits -> sar_code w bits vmax x = Some c -> 0 <= c <= 2 ^ bits - 1.
Proof. exact sar_range. Qed.
Print Assumptions C16_sar_range.

Theorem C16_sar_defined :
  forall (w bits : Z) (vmax x : b64),
  1 <= bits -> bits <= w ->
  sar_code w bits vmax x = Some (sar_acc bits vmax x) /\ 0 <= sar_acc bits vmax x <= 2 ^ bits - 1.
Proof. intros w bits vmax x Hb Hw. split; [apply sar_defined; assumption|apply sar_acc_range; assumption]. Qed.
Print Assumptions C16_sar_defined.

Theorem C16_sar_monotone :
  forall (bits : Z), 1 <= bits ->
  forall (w : Z) (vmax x y : b64) (cx cy : Z),
  is_finite vmax = true -> (0 <= B2R vmax)%R ->
  is_finite x = true -> is_finite y = true -> ble x y = true ->
  sar_code w bits vmax x = Some cx -> sar_code w bits vmax y = Some cy -> cx <= cy.
Proof. exact sar_monotone. Qed.
Print Assumptions C16_sar_monotone.

(* ---- the noisy variant with zero strengths and zero noises reproduces the noise-free converter
   exactly: EVERY resolution, EVERY voltage (NaN, infinities included), every finite vmax >= 0 *)
Theorem C16_sar_noise0 :
  forall (w bits : Z) (vmax x : b64),
  is_finite vmax = true -> (0 <= B2R vmax)%R ->
  sar0_code w bits vmax x = sar_code w bits vmax x.
Proof. exact sar0_eq_sar. Qed.
Print Assumptions C16_sar_noise0.

(* non-vacuity: the hypotheses are met by an ordinary setting, and the conclusion is not trivial *)
Example C16_hyps_satisfiable :
  is_finite (pzero : b64) = true /\ is_finite (bofZ 6) = true /\
  ble (bofZ 3) (bofZ 6) = true /\ ble ninf pzero = true /\
  simple_code 8 8 pzero (bofZ 6) (bofZ 3) = Some 127 /\ simple_code 8 8 pzero (bofZ 6) (bofZ 6) = Some 255 /\
  simple_code 8 8 pzero (bofZ 6) ninf = Some 0.
Proof. vm_compute. repeat split; reflexivity. Qed.

(* ---- the full statement "voltages at or above the range maximum map to full scale, and codes stay
   within 0 .. 2^bits-1, for every allowed setting" is FALSE of the code as written: *)
Definition C16_high_saturates_full : Prop :=
  forall (bits : Z) (vmin vmax : b64), 4 <= bits <= 64 ->
  is_finite vmin = true -> is_finite vmax = true -> blt vmin vmax = true ->
  forall w, chain_width src_dtype_chain bits = Some w ->
  simple_code w bits vmin vmax vmax = Some (2 ^ bits - 1).

Theorem C16_high_saturates_refuted : ~ C16_high_saturates_full.
Proof.
  intros H. specialize (H 28 pzero w_short_vmax ltac:(lia) eq_refl eq_refl (proj1 high_saturation_short_witness) 32 eq_refl).
  rewrite (proj2 high_saturation_short_witness) in H. discriminate.
Qed.
Print Assumptions C16_high_saturates_refuted.

Theorem C16_range_high_bits_refuted :
  exists bits vmin vmax c, 4 <= bits <= 64 /\ blt vmin vmax = true /\
  simple_code 64 bits vmin vmax vmax = Some c /\ 2 ^ bits - 1 < c.
Proof.
  exists 54, (mk (-3) (-1)), (mk 9 (-2)), (2 ^ 54).
  split; [lia|]. split; [exact (proj1 high_bits_exceed_witness)|]. split; [exact (proj2 high_bits_exceed_witness)|lia].
Qed.
Print Assumptions C16_range_high_bits_refuted.

Theorem C16_wrap_refuted :
  exists vmin vmax, blt vmin vmax = true /\
  btruncZ (simple_scaled 64 vmin vmax vmax) = Some (2 ^ 64) /\ simple_code 64 64 vmin vmax vmax = None.
Proof. exists pzero, (bofZ 1). split; [reflexivity|exact wrap_witness]. Qed.
Print Assumptions C16_wrap_refuted.

(* the SAR converters at the resolutions that used to fail (C16-F8d, repaired) *)
Example C16_sar_full_scale_high_bits :
  sar_code 64 54 (bofZ 1) (bofZ 2) = Some (2 ^ 54 - 1) /\ sar_code 64 64 (bofZ 1) (mk 3 (-2)) = Some (2 ^ 63 + 2 ^ 62).
Proof. split; [exact sar_full_scale_54|exact sar_top_bit_64]. Qed.
