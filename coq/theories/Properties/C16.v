(* C16 — digitised images are bounded, monotone, saturating and never wrap.
   Only statements here; proofs live in Proofs/.  Gen_C16 is regenerated from
   pyxel/util/misc.py (get_dtype) on every run. *)
From Coq Require Import ZArith List Bool Lia.
From Flocq Require Import Core BinarySingleNaN.
From PyxelV Require Import Lib.B64 Model.Adc Proofs.AdcChain.
From PyxelGen Require Import Gen_C16.
Import ListNotations.
Open Scope Z_scope.

(* stored in an unsigned type wide enough for full scale, for every resolution get_dtype accepts *)
Theorem C16_dtype_wide_enough :
  forall b, 1 <= b <= 64 ->
  exists w, chain_width src_dtype_chain b = Some w /\ 2 ^ b - 1 < 2 ^ w /\ In w [8; 16; 32; 64].
Proof. apply chain_ok_sound. vm_compute. reflexivity. Qed.
Print Assumptions C16_dtype_wide_enough.

Theorem C16_dtype_refuses_outside :
  forall b, (b < 1 \/ 64 < b) -> chain_width src_dtype_chain b = None.
Proof. apply chain_refuses_sound. vm_compute. reflexivity. Qed.
Print Assumptions C16_dtype_refuses_outside.
