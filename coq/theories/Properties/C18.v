(* C18 — a detector saved to a file and loaded back is the same detector.
   Only statements here; proofs live in Proofs/Codec.v.  Gen_C18.src_tables is regenerated on every run from
   ccd.py / cmos.py / mkid.py / apd.py (to_dict, from_dict), detector.py (dispatch), photon.py (sub-keys),
   models/util.py (load_detector body shape). *)
From Coq Require Import ZArith List Bool String Ascii.
From PyxelV Require Import Model.Codec Proofs.Codec.
From PyxelGen Require Import Gen_C18.
Import ListNotations.
Open Scope string_scope.

(* ------------------------------------------------------------------ the full statements *)

(* from_dict (to_dict d) = d : type, geometry/environment/characteristics and EVERY container, for every
   detector of every type and every subset of initialised containers (each d_cont d f is None or Some,
   independently); only the type invariants of a real detector are assumed (wf_shape). *)
Definition C18_roundtrip_full : Prop :=
  forall T, roundtrip_on via_dict wf_shape src_tables T all_fields.
Definition C18_file_roundtrip_full : Prop :=
  forall T, roundtrip_on via_file wf_shape src_tables T all_fields.
(* after the load-detector model every container of the running detector is the file's *)
Definition C18_load_replaces_full : Prop := load_replaces src_tables.

(* ------------------------------------------------------------------ what holds of the current code *)

(* the containers for which the regenerated tables round-trip: all of them for CCD/CMOS/APD ... *)
Theorem C18_roundtrip_fields_CCD_CMOS_APD :
  ok_fields src_tables CCD = all_fields /\ ok_fields src_tables CMOS = all_fields /\
  ok_fields src_tables APD = all_fields.
Proof. vm_compute. repeat split. Qed.
Print Assumptions C18_roundtrip_fields_CCD_CMOS_APD.

(* ... and all but `phase` for MKID *)
Theorem C18_roundtrip_fields_MKID :
  ok_fields src_tables MKID = [FPhoton; FPixel; FSignal; FImage; FData; FChargeArray; FChargeFrame; FScene].
Proof. vm_compute. reflexivity. Qed.
Print Assumptions C18_roundtrip_fields_MKID.

(* dictionary route, every type, every subset of initialised containers; restricted to processed-data /
   scene / 3-D photon keys without '#' (strict_dict) and to the containers of ok_fields *)
Theorem C18_roundtrip_partial :
  forall T, roundtrip_on via_dict strict_dict src_tables T (ok_fields src_tables T).
Proof. intros T. apply codec_sound_dict. destruct T; vm_compute; reflexivity. Qed.
Print Assumptions C18_roundtrip_partial.

(* file route (to_asdf / from_asdf conversions included): additionally the cluster table must carry the
   default row labels 0..n-1 (strict_file) *)
Theorem C18_file_roundtrip_partial :
  forall T, roundtrip_on via_file strict_file src_tables T (ok_fields src_tables T).
Proof. intros T. apply codec_sound_file. destruct T; vm_compute; reflexivity. Qed.
Print Assumptions C18_file_roundtrip_partial.

(* the key escaping '/' -> '#' is injective on the keys that the partial theorems admit ... *)
Theorem C18_escape_injective :
  forall k1 k2, has_char hash k1 = false -> has_char hash k2 = false ->
  replace_char slash hash k1 = replace_char slash hash k2 -> k1 = k2.
Proof. exact (escape_injective slash hash). Qed.
Print Assumptions C18_escape_injective.

(* ... and it is lossy on EVERY key that contains '#': the restriction is sharp *)
Theorem C18_escape_lossy :
  forall k, has_char hash k = true -> replace_char hash slash (replace_char slash hash k) <> k.
Proof. intros k. apply replace_not_inv. discriminate. Qed.
Print Assumptions C18_escape_lossy.

(* the GROUP STRUCTURE of a tree survives whatever its dtypes are: every group - also one that holds no data variable
   (coordinates only, attributes only, nothing) - comes back under its own path with every entry (variable /
   coordinate name + dims in order, attribute), shape and value it had; `tree_trip` is what from_dict receives *)
Theorem C18_tree_structure_kept :
  forall m, keys_nohash m = true -> paths_closed m = true ->
  keyed_skeleton (tree_trip slash hash m) = keyed_skeleton m.
Proof. exact (tree_trip_skeleton slash hash). Qed.
Print Assumptions C18_tree_structure_kept.

Theorem C18_tree_trip_is_the_data_route :
  forall m, m <> [] ->
  dec src_tables FData (Some (hash, slash)) (backend_conv (enc src_tables FData (Some (slash, hash)) (Some (PKeyed m)))) =
  Some (PKeyed (tree_trip slash hash m)).
Proof. exact (dec_enc_data_is_tree_trip src_tables). Qed.
Print Assumptions C18_tree_trip_is_the_data_route.

(* ------------------------------------------------------------------ refutations (witnesses) *)
Definition an_arr : arr := mk_arr "float64" [1%Z; 2%Z] [4607182418800017408%Z; 0%Z].
Definition no_props : pfield -> items := fun _ => [].

(* F9: an MKID whose only initialised container is `phase` *)
Definition mkid_with_phase : detector :=
  mk_det MKID no_props (cont_of [(FPhase, PArr an_arr)]).
(* a CCD whose processed data has a group named "a#b" *)
Definition ccd_with_hash_group : detector :=
  mk_det CCD no_props (cont_of [(FData, PKeyed [("/", []); ("/a#b", [("var:v|k", an_arr)])])]).
(* a CCD whose cluster table has one row labelled 1 (cluster 0 was removed) *)
Definition ccd_with_relabelled_cluster : detector :=
  mk_det CCD no_props (cont_of [(FChargeFrame, PFrame [1%Z] [("number", mk_arr "float64" [1%Z] [4617315517961601024%Z])])]).

(* a CCD whose processed data holds a uint8 variable (the dtype is not stored: it reloads as int64) *)
Definition ccd_with_uint8_variable : detector :=
  mk_det CCD no_props (cont_of [(FData, PKeyed [("/", []); ("/a", [("var:v|k", mk_arr "uint8" [2%Z] [1%Z; 2%Z])])])]).
(* a CCD whose processed data holds a variable of shape (0, 2) (the shape is not stored: the reload raises) *)
Definition ccd_with_empty_2d_variable : detector :=
  mk_det CCD no_props (cont_of [(FData, PKeyed [("/", []); ("/a", [("var:v|z,k", mk_arr "float64" [0%Z; 2%Z] [])])])]).

Theorem C18_roundtrip_refuted_mkid_phase : ~ C18_roundtrip_full.
Proof.
  intros H. destruct (H MKID mkid_with_phase eq_refl) as [d' [E [_ [_ Q]]]].
  - intros f. destruct f; vm_compute; intuition congruence.
  - vm_compute in E. inversion E; subst d'; clear E.
    specialize (Q FPhase). vm_compute in Q. assert (X : None = Some (PArr an_arr)) by (apply Q; auto 10).
    discriminate X.
Qed.
Print Assumptions C18_roundtrip_refuted_mkid_phase.

Theorem C18_roundtrip_refuted_hash_key :
  ~ roundtrip_on via_dict wf_shape src_tables CCD [FData].
Proof.
  intros H. destruct (H ccd_with_hash_group eq_refl) as [d' [E [_ [_ Q]]]].
  - intros f. destruct f; vm_compute; intuition congruence.
  - vm_compute in E. inversion E; subst d'; clear E.
    specialize (Q FData (or_introl eq_refl)). vm_compute in Q. discriminate Q.
Qed.
Print Assumptions C18_roundtrip_refuted_hash_key.

Theorem C18_roundtrip_refuted_dtype_not_stored :
  ~ roundtrip_on via_dict wf_shape src_tables CCD [FData].
Proof.
  intros H. destruct (H ccd_with_uint8_variable eq_refl) as [d' [E [_ [_ Q]]]].
  - intros f. destruct f; vm_compute; intuition congruence.
  - vm_compute in E. inversion E; subst d'; clear E.
    specialize (Q FData (or_introl eq_refl)). vm_compute in Q. discriminate Q.
Qed.
Print Assumptions C18_roundtrip_refuted_dtype_not_stored.

Theorem C18_roundtrip_refuted_shape_not_stored :
  ~ roundtrip_on via_dict wf_shape src_tables CCD [].
Proof.
  intros H. destruct (H ccd_with_empty_2d_variable eq_refl) as [d' [E _]].
  - intros f. destruct f; vm_compute; intuition congruence.
  - vm_compute in E. discriminate E.
Qed.
Print Assumptions C18_roundtrip_refuted_shape_not_stored.

Theorem C18_file_roundtrip_refuted_row_labels :
  ~ roundtrip_on via_file wf_shape src_tables CCD [FChargeFrame].
Proof.
  intros H. destruct (H ccd_with_relabelled_cluster eq_refl) as [d' [E [_ [_ Q]]]].
  - intros f. destruct f; vm_compute; intuition congruence.
  - vm_compute in E. inversion E; subst d'; clear E.
    specialize (Q FChargeFrame (or_introl eq_refl)). vm_compute in Q. discriminate Q.
Qed.
Print Assumptions C18_file_roundtrip_refuted_row_labels.

(* F10: load_detector.  The full statement holds iff the body stores every container into the PASSED
   detector (valid for whatever the body is now) ... *)
Theorem C18_load_replaces_iff :
  C18_load_replaces_full <->
  forallb (fun f => existsb (field_eqb f) (t_load_assigned src_tables)) all_fields = true.
Proof. exact (load_replaces_iff src_tables). Qed.
Print Assumptions C18_load_replaces_iff.

(* ... the current body stores nothing (it rebinds the parameter name): refuted, and in fact a no-op *)
Theorem C18_load_replaces_refuted : ~ C18_load_replaces_full.
Proof. rewrite C18_load_replaces_iff. vm_compute. discriminate. Qed.
Print Assumptions C18_load_replaces_refuted.

Theorem C18_load_is_noop :
  forall running file f, d_cont (load_detector_effect src_tables running file) f = d_cont running f.
Proof. apply load_noop. vm_compute. reflexivity. Qed.
Print Assumptions C18_load_is_noop.

(* ------------------------------------------------------------------ non-vacuity *)
(* a CCD with a 3-D photon, pixel, image, charge array + cluster table, scene and processed data initialised
   meets the hypotheses of both partial theorems, and the model really returns it *)
Definition rich_ccd : detector :=
  mk_det CCD (props_of [("_row", mk_arr "int" [] [2%Z])] [("_temperature", an_arr)] [])
    (cont_of [(FPhoton, PKeyed [("coords", [("wavelength|wavelength", an_arr)]); ("data", [("", an_arr)])]);
              (FPixel, PArr an_arr); (FImage, PArr (mk_arr "uint16" [1%Z; 2%Z] [3%Z; 4%Z]));
              (FChargeArray, PArr an_arr);
              (FChargeFrame, PFrame [0%Z; 1%Z] [("number", mk_arr "float64" [2%Z] [1%Z; 2%Z])]);
              (FScene, PKeyed [("/", []); ("/list", []); ("/list/0", [("var:x|ref", an_arr)])]);
              (FData, PKeyed [("/", []); ("/foo", [("attr:only=s:attributes", mk_arr "-" [] [])]); ("/foo/bar", [("var:v|k", an_arr)]);
                              ("/foo/empty", [])])]).

Example C18_rich_ccd_meets_hypotheses : forall f, strict_file CCD f (d_cont rich_ccd f).
Proof. intros f. destruct f; vm_compute; intuition congruence. Qed.

Example C18_rich_ccd_roundtrips :
  option_map (fun d' => det_eqb d' rich_ccd) (from_dict src_tables (via_file (to_dict src_tables rich_ccd))) = Some true.
Proof. vm_compute. reflexivity. Qed.

(* a tree with a coordinate-only parent, an attribute-only group and an empty leaf meets the hypotheses of
   C18_tree_structure_kept, and the model returns it unchanged *)
Definition a_tree : keyed :=
  [("/", [("attr:title=s:t", mk_arr "-" [] [])]);
   ("/stat", [("coord:time|time", mk_arr "float64" [2%Z] [1%Z; 2%Z])]);
   ("/stat/pix", [("var:mean|time", mk_arr "float32" [2%Z] [3%Z; 4%Z])]);
   ("/prov", [("attr:run=i:42", mk_arr "-" [] [])]);
   ("/prov/empty", [])].
Example C18_a_tree_meets_hypotheses : keys_nohash a_tree = true /\ paths_closed a_tree = true.
Proof. vm_compute. split; reflexivity. Qed.
Example C18_a_tree_groups_kept :
  map fst (tree_trip slash hash a_tree) = ["/"; "/stat"; "/stat/pix"; "/prov"; "/prov/empty"].
Proof. vm_compute. reflexivity. Qed.

Example C18_mkid_phase_lost :
  option_map (fun d' => d_cont d' FPhase) (from_dict src_tables (to_dict src_tables mkid_with_phase)) = Some None.
Proof. vm_compute. reflexivity. Qed.

Example C18_keys_that_occur_have_no_hash :
  forallb (fun k => negb (has_char hash k))
          ["dims"; "attrs"; "data"; "coords"; "name"; "/"; "/list"; "/list/0"; "/list/12"] = true.
Proof. vm_compute. reflexivity. Qed.
