(* C18 — a detector saved to a file and loaded back is the same detector.
   Only statements here; proofs live in Proofs/Codec.v.  Gen_C18.src_tables is regenerated on every run from
   ccd.py / cmos.py / mkid.py / apd.py (to_dict, from_dict), detector.py (dispatch), photon.py (sub-keys),
   models/util.py (load_detector body shape). *)
From Coq Require Import ZArith List Bool String Ascii.
From PyxelV Require Import Model.Codec Proofs.Codec Model.CodecTree Proofs.CodecTree.
From PyxelGen Require Import Gen_C18.
Import ListNotations.
Open Scope string_scope.

(* ------------------------------------------------------------------ the full statements *)

(* from_dict (to_dict d) = d : type, geometry/environment/characteristics and EVERY container, for every
   detector of every type and every subset of initialised containers (each d_cont d f is None or Some,
   independently); only the type invariants of a real detector are assumed (wf_shape). *)
Definition C18_roundtrip_full : Prop :=
  forall T, roundtrip_on via_dict wf_shape src_tables T all_fields.
Definition C18_file_roundtrip_full : Prop :=
  forall T, roundtrip_on (via_file src_tables) wf_shape src_tables T all_fields.
(* after the load-detector model every container of the running detector is the file's *)
Definition C18_load_replaces_full : Prop := load_replaces src_tables.

(* ------------------------------------------------------------------ what holds of the current code *)

(* the regenerated tables round-trip EVERY container of every type (MKID's phase included: C18-F9 repaired) *)
Theorem C18_roundtrip_fields : forall T, ok_fields src_tables T = all_fields.
Proof. intros T. destruct T; vm_compute; reflexivity. Qed.
Print Assumptions C18_roundtrip_fields.

(* dictionary route, every type, every subset of initialised containers, ALL containers.  What is left of the
   restriction (strict_dict) names exactly the defects that are still open: a '#' in a group name, and a
   variable whose dtype / shape does not survive Dataset.to_dict()'s nested lists *)
Theorem C18_roundtrip_partial :
  forall T, roundtrip_on via_dict strict_dict src_tables T all_fields.
Proof. intros T. apply codec_sound_dict. destruct T; vm_compute; reflexivity. Qed.
Print Assumptions C18_roundtrip_partial.

(* file route (to_asdf / from_asdf conversions included): the SAME hypotheses - the cluster table may carry any
   row labels (C18-frame-row-labels repaired: the backend stores them) *)
Theorem C18_file_roundtrip_partial :
  forall T, roundtrip_on (via_file src_tables) strict_dict src_tables T all_fields.
Proof. intros T. apply codec_sound_file_kept; [reflexivity | destruct T; vm_compute; reflexivity]. Qed.
Print Assumptions C18_file_roundtrip_partial.

(* the key escaping '/' -> '#' is injective on the keys that the partial theorems admit ... *)
Theorem C18_escape_injective :
  forall k1 k2, has_char hash k1 = false -> has_char hash k2 = false ->
  replace_char slash hash k1 = replace_char slash hash k2 -> k1 = k2.
Proof. exact (escape_injective slash hash). Qed.
Print Assumptions C18_escape_injective.

(* ... and it is lossy on EVERY key that contains '#': the restriction is sharp *)
Theorem C18_escape_lossy :
  forall k, has_char hash k = true -> replace_char hash slash (replace_char slash hash k) <> k.
Proof. intros k. apply replace_not_inv. discriminate. Qed.
Print Assumptions C18_escape_lossy.

(* the GROUP STRUCTURE of a tree survives whatever its dtypes are: every group - also one that holds no data variable
   (coordinates only, attributes only, nothing) - comes back under its own path with every entry (variable /
   coordinate name + dims in order, attribute), shape and value it had; `tree_trip` is what from_dict receives *)
Theorem C18_tree_structure_kept :
  forall m, keys_nohash m = true -> paths_closed m = true ->
  keyed_skeleton (tree_trip slash hash m) = keyed_skeleton m.
Proof. exact (tree_trip_skeleton slash hash). Qed.
Print Assumptions C18_tree_structure_kept.

Theorem C18_tree_trip_is_the_data_route :
  forall m, m <> [] ->
  dec src_tables FData (Some (hash, slash)) (backend_conv (enc src_tables FData (Some (slash, hash)) (Some (PKeyed m)))) =
  Some (PKeyed (tree_trip slash hash m)).
Proof. exact (dec_enc_data_is_tree_trip src_tables). Qed.
Print Assumptions C18_tree_trip_is_the_data_route.

(* the NESTING itself: a tree (any depth, any number of groups, with or without content) is flattened into
   {path: group} (DataTree.to_dict), its paths are escaped '/' -> '#', unescaped, and the tree is rebuilt
   (DataTree.from_dict, creating groups along each path): the same tree comes back, for ALL trees whose sibling names
   are distinct and whose names are non-empty and contain neither '/' (xarray guarantees both) nor '#' *)
Theorem C18_tree_nesting_invertible :
  forall t, wf_tree t = true -> names_free_of slash t = true -> names_free_of hash t = true ->
  tree_from_dict slash hash (tree_to_dict slash hash t) = t.
Proof. intros t. apply tree_roundtrip. reflexivity. Qed.
Print Assumptions C18_tree_nesting_invertible.

(* hence two different trees never share a dictionary *)
Theorem C18_tree_flattening_injective :
  forall t1 t2,
  wf_tree t1 = true -> names_free_of slash t1 = true -> names_free_of hash t1 = true ->
  wf_tree t2 = true -> names_free_of slash t2 = true -> names_free_of hash t2 = true ->
  tree_to_dict slash hash t1 = tree_to_dict slash hash t2 -> t1 = t2.
Proof. intros t1 t2. apply tree_to_dict_injective. reflexivity. Qed.
Print Assumptions C18_tree_flattening_injective.

(* every group is an entry of the dictionary, whatever it holds *)
Theorem C18_every_group_is_a_key :
  forall t p ds, In (p, ds) (flat t) -> In (replace_char slash hash (render p), ds) (tree_to_dict slash hash t).
Proof. exact (every_group_is_an_escaped_key slash hash). Qed.
Print Assumptions C18_every_group_is_a_key.

(* ------------------------------------------------------------------ refutations (witnesses) *)
Definition an_arr : arr := mk_arr "float64" [1%Z; 2%Z] [4607182418800017408%Z; 0%Z].
Definition no_props : pfield -> items := fun _ => [].

(* (formerly F9) an MKID whose only initialised container is `phase` *)
Definition mkid_with_phase : detector :=
  mk_det MKID no_props (cont_of [(FPhase, PArr an_arr)]).
(* a CCD whose processed data has a group named "a#b" *)
Definition ccd_with_hash_group : detector :=
  mk_det CCD no_props (cont_of [(FData, PKeyed [("/", []); ("/a#b", [("var:v|k", an_arr)])])]).
(* a CCD whose cluster table has one row labelled 1 (cluster 0 was removed) *)
Definition ccd_with_relabelled_cluster : detector :=
  mk_det CCD no_props (cont_of [(FChargeFrame, PFrame [1%Z] [("number", mk_arr "float64" [1%Z] [4617315517961601024%Z])])]).

(* a CCD whose processed data holds a uint8 variable (the dtype is not stored: it reloads as int64) *)
Definition ccd_with_uint8_variable : detector :=
  mk_det CCD no_props (cont_of [(FData, PKeyed [("/", []); ("/a", [("var:v|k", mk_arr "uint8" [2%Z] [1%Z; 2%Z])])])]).
(* a CCD whose processed data holds a variable of shape (0, 2) (the shape is not stored: the reload raises) *)
Definition ccd_with_empty_2d_variable : detector :=
  mk_det CCD no_props (cont_of [(FData, PKeyed [("/", []); ("/a", [("var:v|z,k", mk_arr "float64" [0%Z; 2%Z] [])])])]).

Theorem C18_roundtrip_refuted_hash_key :
  ~ roundtrip_on via_dict wf_shape src_tables CCD [FData].
Proof.
  intros H. destruct (H ccd_with_hash_group eq_refl) as [d' [E [_ [_ Q]]]].
  - intros f. destruct f; vm_compute; intuition congruence.
  - vm_compute in E. inversion E; subst d'; clear E.
    specialize (Q FData (or_introl eq_refl)). vm_compute in Q. discriminate Q.
Qed.
Print Assumptions C18_roundtrip_refuted_hash_key.

Theorem C18_roundtrip_refuted_dtype_not_stored :
  ~ roundtrip_on via_dict wf_shape src_tables CCD [FData].
Proof.
  intros H. destruct (H ccd_with_uint8_variable eq_refl) as [d' [E [_ [_ Q]]]].
  - intros f. destruct f; vm_compute; intuition congruence.
  - vm_compute in E. inversion E; subst d'; clear E.
    specialize (Q FData (or_introl eq_refl)). vm_compute in Q. discriminate Q.
Qed.
Print Assumptions C18_roundtrip_refuted_dtype_not_stored.

Theorem C18_roundtrip_refuted_shape_not_stored :
  ~ roundtrip_on via_dict wf_shape src_tables CCD [].
Proof.
  intros H. destruct (H ccd_with_empty_2d_variable eq_refl) as [d' [E _]].
  - intros f. destruct f; vm_compute; intuition congruence.
  - vm_compute in E. discriminate E.
Qed.
Print Assumptions C18_roundtrip_refuted_shape_not_stored.

(* F10 (repaired): load_detector.  The full statement holds iff the body stores every container into the PASSED
   detector (valid for whatever the body is) ... *)
Theorem C18_load_replaces_iff :
  C18_load_replaces_full <->
  forallb (fun f => existsb (field_eqb f) (t_load_assigned src_tables)) all_fields = true.
Proof. exact (load_replaces_iff src_tables). Qed.
Print Assumptions C18_load_replaces_iff.

(* ... and the current body does *)
Theorem C18_load_replaces : C18_load_replaces_full.
Proof. apply C18_load_replaces_iff. vm_compute. reflexivity. Qed.
Print Assumptions C18_load_replaces.

(* save_detector ... load_detector inside a pipeline: whatever the running detector holds when the load model
   executes, the models after it see every container of the detector that was saved *)
Theorem C18_load_sees_saved :
  forall T d running, d_kind d = T -> (forall f, strict_dict T f (d_cont d f)) ->
  exists loaded, from_dict src_tables (via_file src_tables (to_dict src_tables d)) = Some loaded /\
                 forall f, d_cont (load_detector_effect src_tables running loaded) f = d_cont d f.
Proof. intros T. apply load_sees_saved_all; destruct T; vm_compute; reflexivity. Qed.
Print Assumptions C18_load_sees_saved.

(* ------------------------------------------------------------------ non-vacuity *)
(* a CCD with a 3-D photon, pixel, image, charge array + cluster table, scene and processed data initialised
   meets the hypotheses of both partial theorems, and the model really returns it *)
Definition rich_ccd : detector :=
  mk_det CCD (props_of [("_row", mk_arr "int" [] [2%Z])] [("_temperature", an_arr)] [])
    (cont_of [(FPhoton, PKeyed [("coords", [("wavelength|wavelength", an_arr)]); ("data", [("", an_arr)])]);
              (FPixel, PArr an_arr); (FImage, PArr (mk_arr "uint16" [1%Z; 2%Z] [3%Z; 4%Z]));
              (FChargeArray, PArr an_arr);
              (FChargeFrame, PFrame [3%Z; 7%Z] [("number", mk_arr "float64" [2%Z] [1%Z; 2%Z])]);
              (FScene, PKeyed [("/", []); ("/list", []); ("/list/0", [("var:x|ref", an_arr)])]);
              (FData, PKeyed [("/", []); ("/foo", [("attr:only=s:attributes", mk_arr "-" [] [])]); ("/foo/bar", [("var:v|k", an_arr)]);
                              ("/foo/empty", [])])]).

Example C18_rich_ccd_meets_hypotheses : forall f, strict_dict CCD f (d_cont rich_ccd f).
Proof. intros f. destruct f; vm_compute; intuition congruence. Qed.

Example C18_rich_ccd_roundtrips :
  option_map (fun d' => det_eqb d' rich_ccd) (from_dict src_tables (via_file src_tables (to_dict src_tables rich_ccd))) = Some true.
Proof. vm_compute. reflexivity. Qed.

(* a tree with a coordinate-only parent, an attribute-only group and an empty leaf meets the hypotheses of
   C18_tree_structure_kept, and the model returns it unchanged *)
Definition a_tree : keyed :=
  [("/", [("attr:title=s:t", mk_arr "-" [] [])]);
   ("/stat", [("coord:time|time", mk_arr "float64" [2%Z] [1%Z; 2%Z])]);
   ("/stat/pix", [("var:mean|time", mk_arr "float32" [2%Z] [3%Z; 4%Z])]);
   ("/prov", [("attr:run=i:42", mk_arr "-" [] [])]);
   ("/prov/empty", [])].
Example C18_a_tree_meets_hypotheses : keys_nohash a_tree = true /\ paths_closed a_tree = true.
Proof. vm_compute. split; reflexivity. Qed.
Example C18_a_tree_groups_kept :
  map fst (tree_trip slash hash a_tree) = ["/"; "/stat"; "/stat/pix"; "/prov"; "/prov/empty"].
Proof. vm_compute. reflexivity. Qed.

(* a_tree as a nested tree (depth 2, variable-less groups): it meets the hypotheses of C18_tree_nesting_invertible,
   its flattening is a_tree, and a deeper one (depth 4 through empty groups) as well *)
Definition a_nested : dtree :=
  DNode [("attr:title=s:t", mk_arr "-" [] [])]
    [("stat", DNode [("coord:time|time", mk_arr "float64" [2%Z] [1%Z; 2%Z])]
                [("pix", DNode [("var:mean|time", mk_arr "float32" [2%Z] [3%Z; 4%Z])] [])]);
     ("prov", DNode [("attr:run=i:42", mk_arr "-" [] [])] [("empty", DNode [] [])])].
Definition a_deep : dtree :=
  DNode [] [("a b", DNode [] [("0", DNode [] [(".h", DNode [] [("x.y", DNode [("attr:k=i:1", mk_arr "-" [] [])] [])])])])].
Example C18_a_nested_meets_hypotheses :
  forallb (fun t => wf_tree t && names_free_of slash t && names_free_of hash t) [a_nested; a_deep] = true.
Proof. vm_compute. reflexivity. Qed.
Example C18_a_nested_flattens_to_a_tree : keyed_eqb (flatten_keys a_nested) a_tree = true.
Proof. vm_compute. reflexivity. Qed.
Example C18_a_deep_keys :
  map fst (tree_to_dict slash hash a_deep) = ["#"; "#a b"; "#a b#0"; "#a b#0#.h"; "#a b#0#.h#x.y"].
Proof. vm_compute. reflexivity. Qed.
(* a '#' in a name: the rebuilt tree is a different one (the hypothesis of the theorem is needed) *)
Example C18_hash_name_nests :
  tree_from_dict slash hash (tree_to_dict slash hash (DNode [] [("a#b", DNode [] [])])) =
  DNode [] [("a", DNode [] [("b", DNode [] [])])].
Proof. vm_compute. reflexivity. Qed.

(* the witnesses of the repaired defects now come back unchanged *)
Example C18_mkid_phase_kept :
  option_map (fun d' => det_eqb d' mkid_with_phase) (from_dict src_tables (via_dict (to_dict src_tables mkid_with_phase))) = Some true.
Proof. vm_compute. reflexivity. Qed.
Example C18_relabelled_cluster_kept :
  option_map (fun d' => det_eqb d' ccd_with_relabelled_cluster)
             (from_dict src_tables (via_file src_tables (to_dict src_tables ccd_with_relabelled_cluster))) = Some true.
Proof. vm_compute. reflexivity. Qed.
Example C18_load_sees_rich_ccd :
  option_map (fun l => cont_eqb (load_detector_effect src_tables mkid_with_phase l) rich_ccd)
             (from_dict src_tables (via_file src_tables (to_dict src_tables rich_ccd))) = Some true.
Proof. vm_compute. reflexivity. Qed.

Example C18_keys_that_occur_have_no_hash :
  forallb (fun k => negb (has_char hash k))
          ["dims"; "attrs"; "data"; "coords"; "name"; "/"; "/list"; "/list/0"; "/list/12"] = true.
Proof. vm_compute. reflexivity. Qed.
