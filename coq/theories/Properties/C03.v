(* C03 — the returned result is a faithful, complete record of every step.
   Only statements here; the model is Model/Result.v, the proofs are in Proofs/Result.v.
   Programs = arbitrary lists of model functions (any transformer of the detector, may depend on the
   step index, may change a container in place or give it a new buffer); schedules of any length; both
   layouts; debug on/off; scene/data of any type.  `tbl` = the declarative part of the code (which read-outs copy
   the container's buffer, which time labels a slice, which containers are exported / captured under which name);
   the theorems are stated for every table with the stated property and instantiated, at the end, at the table
   regenerated from the source on every run (Gen_C03.src_tables). *)
From Coq Require Import ZArith List Bool String Lia Sorted.
From PyxelV Require Import Model.Result Proofs.Result.
From PyxelGen Require Import Gen_C03.
Import ListNotations.
Open Scope Z_scope.

(* ---- the concatenation along `time` loses no slice and invents none: for EVERY list of labels the result
   has the readout labels, in readout order, one slice per readout *)
Theorem C03_concat_complete : forall xs : list slice,
  map fst (assemble xs) = map fst xs /\ List.length (assemble xs) = List.length xs.
Proof. exact assemble_labels. Qed.
Print Assumptions C03_concat_complete.

(* ---- labels: for every program and every schedule the slices are labelled start + t_i, in order, one per
   readout -- provided the label is taken from detector.absolute_time *)
Theorem C03_labels :
  forall (Scene Data : Type) (empty_scene : Scene) (scene_is_empty : Scene -> bool) (tbl : tables)
         (c : config Scene Data) (d_init : det Scene Data),
  tb_label tbl = LAbsolute ->
  map fst (t_buckets (exposure empty_scene scene_is_empty tbl c d_init)) = map (Z.add (c_start c)) (c_times c) /\
  List.length (t_buckets (exposure empty_scene scene_is_empty tbl c d_init)) = List.length (c_times c).
Proof.
  intros. rewrite <- (labels_absolute tbl H c). apply labels_faithful.
Qed.
Print Assumptions C03_labels.

(* ---- numpy's common type of two dtypes, as the model has it (np.promote_types, numpy 2.x) *)
Example C03_join_is_numpys :
  map (fun a => map (join a) [U8; U16; U32; U64; F16; F32; F64]) [U8; U16; U32; U64; F16; F32; F64] =
  [ [U8;  U16; U32; U64; F16; F32; F64];
    [U16; U16; U32; U64; F32; F32; F64];
    [U32; U32; U32; U64; F64; F64; F64];
    [U64; U64; U64; U64; F64; F64; F64];
    [F16; F32; F64; F64; F16; F32; F64];
    [F32; F32; F64; F64; F32; F32; F64];
    [F64; F64; F64; F64; F64; F64; F64] ].
Proof. vm_compute. reflexivity. Qed.

(* ---- one variable, one dtype: the conversion of every slice of a variable to the common type of its slices
   changes no label, no value and no shape; the common type is at least as wide as the type of every slice *)
Theorem C03_promotion_keeps_values : forall (d : dataset) (b : bucket),
  map fst (promote d) = map fst d /\
  map (fun ls => (fst ls, option_map a_vals (get (snd ls) b), option_map a_shape (get (snd ls) b))) (promote d)
    = map (fun ls => (fst ls, option_map a_vals (get (snd ls) b), option_map a_shape (get (snd ls) b))) d /\
  map (fun ls => option_map a_dt (get (snd ls) b)) (promote d)
    = map (fun ls => option_map (fun _ => common b d) (get (snd ls) b)) d /\
  (forall ls a, In ls d -> get (snd ls) b = Some a -> dtype_le (a_dt a) (common b d) = true) /\
  ((forall b', uniform b' d) -> promote d = d).
Proof.
  intros d b. split; [apply promote_labels|]. split; [apply promote_values|]. split; [apply promote_dtypes|].
  split; [intros ls a; apply common_upper|apply promote_uniform].
Qed.
Print Assumptions C03_promotion_keeps_values.

(* ---- slices: for every program, every schedule, every start time, both layouts, debug on/off: the bucket
   dataset is, slice for slice, (start + t_i, what the detector held at the end of step i) -- one slice per
   readout, in order, every value and shape as held; the dtypes may DIFFER from step to step (float16/32/64 for
   photon, pixel, signal; uint8..64 for the image): each variable then has the common type of its slices, which
   holds every value (C03_promotion_keeps_values), and when the dtypes do not differ the dataset is exactly the list
   of the per-step read-outs.  Hypotheses on the tables: every read-out that does not copy belongs to a container
   that gets a new buffer at each reset (slices_safe), the label is the absolute time, every variable is read out
   of the container of the same name; on the program: the image is initialised in no step or in every step (with
   any unsigned types, any values). *)
Theorem C03_slices :
  forall (Scene Data : Type) (empty_scene : Scene) (scene_is_empty : Scene -> bool) (tbl : tables)
         (c : config Scene Data) (d_init : det Scene Data),
  slices_safe tbl -> tb_label tbl = LAbsolute -> exports_all tbl ->
  image_regular (map view (ends_of empty_scene c d_init)) ->
  let t := exposure empty_scene scene_is_empty tbl c d_init in
  let held := combine (map (Z.add (c_start c)) (c_times c)) (map view (ends_of empty_scene c d_init)) in
  t_buckets t = promote held /\
  List.length (t_buckets t) = List.length (c_times c) /\
  (forall b, map (fun ls => (fst ls, option_map a_vals (get (snd ls) b), option_map a_shape (get (snd ls) b))) (t_buckets t)
             = map (fun ls => (fst ls, option_map a_vals (get (snd ls) b), option_map a_shape (get (snd ls) b))) held) /\
  ((forall b, uniform b held) ->
   t_buckets t = held /\
   forall b, bucket_slices (t_buckets t) b =
     combine (map (Z.add (c_start c)) (c_times c))
             (map (fun d => get (view d) b) (ends_of empty_scene c d_init))).
Proof.
  intros. destruct (slices_faithful empty_scene scene_is_empty tbl c d_init H H1 H2) as [Hb Hl].
  rewrite (labels_absolute tbl H0 c) in Hb. fold held in Hb.
  split; [exact Hb|]. split; [exact Hl|]. split.
  - intros b. unfold t. rewrite Hb. apply promote_values.
  - intros Hu. assert (E : t_buckets t = held) by (unfold t; rewrite Hb; apply promote_uniform; exact Hu).
    split; [exact E|]. intros b. rewrite E. unfold held. rewrite bucket_slices_combine, map_map. reflexivity.
Qed.
Print Assumptions C03_slices.

(* ---- `view` = what is read out of the detector: the same values and shapes as held, the same dtypes
   except that a 3-D photon array is widened to float64 by Photon.to_xarray *)
Theorem C03_view_keeps_values : forall s b,
  option_map a_vals (get (extract s) b) = option_map a_vals (get s b) /\
  option_map a_shape (get (extract s) b) = option_map a_shape (get s b) /\
  (b <> Photon -> get (extract s) b = get s b) /\
  (forall a, s_photon s = Some a -> List.length (a_shape a) <> 3%nat -> extract s = s).
Proof. exact extract_values. Qed.
Print Assumptions C03_view_keeps_values.

(* ---- the image keeps the unsigned type the models wrote (no hypothesis on the values) *)
Theorem C03_image_dtype :
  forall (Scene Data : Type) (empty_scene : Scene) (scene_is_empty : Scene -> bool) (tbl : tables)
         (c : config Scene Data) (d_init : det Scene Data) (t_ : dtype),
  slices_safe tbl -> exports_all tbl -> is_unsigned t_ = true ->
  Forall (fun d => image_has_dtype t_ (d_snap d)) (ends_of empty_scene c d_init) ->
  Forall (fun ls => image_has_dtype t_ (snd ls)) (t_buckets (exposure empty_scene scene_is_empty tbl c d_init)).
Proof. exact @image_dtype_kept. Qed.
Print Assumptions C03_image_dtype.

(* ---- the FULL slice statement for uint64 images (refuted in round 1: the merge sent the image through
   float64): every uint64 value, 2^53 + 1 included, comes back as written, for any number of readouts *)
Definition u64_img (v : Z) : snapshot :=
  {| s_photon := None; s_charge := None; s_pixel := None; s_signal := None;
     s_image := Some {| a_dt := U64; a_shape := [1; 1]; a_vals := [v] |} |}.

Theorem C03_slices_u64 :
  forall xs : list slice, StronglySorted Z.lt (map fst xs) ->
  (forall x, In x xs -> exists v, 0 <= v < 2 ^ 64 /\ snd x = u64_img v) ->
  assemble xs = xs.
Proof.
  intros xs _ H. rewrite assemble_regular.
  - apply promote_uniform. intros b. destruct b; try (left; intros ls Hls; destruct (H ls Hls) as [v [_ E]]; rewrite E; reflexivity).
    right. exists U64. intros ls Hls. destruct (H ls Hls) as [v [_ E]]. rewrite E. eexists. split; reflexivity.
  - right. intros s Hs. apply in_map_iff in Hs. destruct Hs as [ls [<- Hls]].
    destruct (H ls Hls) as [v [_ E]]. rewrite E. eexists. split; reflexivity.
Qed.
Print Assumptions C03_slices_u64.

(* ---- an image whose unsigned type differs between the readouts (full statement: refuted for the tree before the
   repair of C03-image-narrowing, where every earlier slice was cast to the type of the LAST image): every slice keeps
   its values, the variable has the widest of the types *)
Theorem C03_image_types_may_differ :
  forall xs : list slice, image_regular (map snd xs) ->
  assemble xs = promote xs /\
  map (fun ls => (fst ls, option_map a_vals (s_image (snd ls)))) (assemble xs)
    = map (fun ls => (fst ls, option_map a_vals (s_image (snd ls)))) xs /\
  forall ls a, In ls xs -> s_image (snd ls) = Some a -> dtype_le (a_dt a) (common Image xs) = true.
Proof.
  intros xs H. split; [apply assemble_regular; exact H|]. split.
  - rewrite (assemble_regular xs H). pose proof (promote_values xs Image) as P.
    apply (f_equal (map (fun t : Z * option (list Z) * option (list Z) => (fst (fst t), snd (fst t))))) in P.
    rewrite !map_map in P. exact P.
  - intros ls a Hin Hs. apply (common_upper Image xs ls a Hin Hs).
Qed.
Print Assumptions C03_image_types_may_differ.

(* ---- row and column labels: when every read-out SETS the y / x coordinates to the index ranges, the bucket node is
   labelled 0..rows-1 / 0..cols-1 for every program -- whatever coordinates the photon cubes handed to the container
   carry -- and no variable is ever re-aligned (the only other case: no variable at all in any step) *)
Theorem C03_coords :
  forall (Scene Data : Type) (empty_scene : Scene) (scene_is_empty : Scene -> bool) (tbl : tables)
         (c : config Scene Data) (d_init : det Scene Data),
  relabels_all tbl ->
  let t := exposure empty_scene scene_is_empty tbl c d_init in
  t_coords t = Some (range0 (nth 0 (c_shape c) 0), range0 (nth 1 (c_shape c) 0)) \/
  (t_coords t = Some ([], []) /\
   forall d vs, In d (ends_of empty_scene c d_init) -> In vs (tb_exported tbl) -> get (view d) (snd vs) = None).
Proof. intros. apply coords_faithful. assumption. Qed.
Print Assumptions C03_coords.

(* ---- both layouts carry the same values; the layout only chooses the path of the bucket node (a
   non-empty scene forces the hierarchical one) *)
Theorem C03_layouts_agree :
  forall (Scene Data : Type) (empty_scene : Scene) (scene_is_empty : Scene -> bool) (tbl : tables)
         (c : config Scene Data) (d_init : det Scene Data),
  let a := exposure empty_scene scene_is_empty tbl (with_layout c Flat) d_init in
  let b := exposure empty_scene scene_is_empty tbl (with_layout c Hier) d_init in
  t_buckets a = t_buckets b /\ t_inter a = t_inter b /\ t_scene a = t_scene b /\
  t_data a = t_data b /\ t_bucket_path b = "/bucket"%string /\
  t_bucket_path a = (if scene_is_empty (t_scene a) then "/" else "/bucket")%string.
Proof. exact @layouts_agree. Qed.
Print Assumptions C03_layouts_agree.

(* ---- scene and processed data are what the detector holds after the last step, untouched *)
Theorem C03_scene_data_passthrough :
  forall (Scene Data : Type) (empty_scene : Scene) (scene_is_empty : Scene -> bool) (tbl : tables)
         (c : config Scene Data) (d_init : det Scene Data),
  let final := last (ends_of empty_scene c d_init) (reset empty_scene (c_shape c) false d_init) in
  t_scene (exposure empty_scene scene_is_empty tbl c d_init) = d_scene final /\
  t_data (exposure empty_scene scene_is_empty tbl c d_init) = d_data final.
Proof. exact @scene_data_passthrough. Qed.
Print Assumptions C03_scene_data_passthrough.

(* ---- debug mode: the result without the debug nodes is the result of the run without debug, and the
   detector states do not depend on the flag *)
Theorem C03_debug_conservative :
  forall (Scene Data : Type) (empty_scene : Scene) (scene_is_empty : Scene -> bool) (tbl : tables)
         (c : config Scene Data) (d_init : det Scene Data),
  exposure empty_scene scene_is_empty tbl (with_debug c false) d_init
  = strip_debug (exposure empty_scene scene_is_empty tbl (with_debug c true) d_init)
  /\ forall b, ends_of empty_scene (with_debug c b) d_init = ends_of empty_scene c d_init.
Proof.
  intros. split; [apply debug_conservative|]. intros b. apply debug_does_not_touch_states.
Qed.
Print Assumptions C03_debug_conservative.

(* ---- debug mode, the FULL statement (refuted in round 1): for every program -- in-place or re-assigning
   writers alike --, every schedule, every step and EVERY model, the first of a step included, the node of the
   model holds exactly the buckets this model changed (changed_by: the visible buckets of the state after the
   model whose values differ from, or that were not visible in, the state just before it), provided every
   read-out copies the container's buffer (discharged for the code by C03_source_tables) *)
Theorem C03_debug_nodes :
  forall (Scene Data : Type) (empty_scene : Scene) (tbl : tables)
         (c : config Scene Data) (n i : nat) (d : det Scene Data),
  all_copy (tb_copies tbl) = true -> visible_std_b tbl = true ->
  debug_steps empty_scene tbl c i n d = ideal_steps empty_scene c i n d.
Proof.
  intros. apply debug_steps_ideal.
  - intros k. apply all_copy_every. assumption.
  - unfold visible_std_b in H0. apply andb_prop in H0. destruct H0 as [Hp Hz].
    apply pairs_eqb_eq in Hp. rewrite forallb_forall in Hz.
    assert (Z : forall b, tb_skip_zero tbl b = bucket_eqb b Charge).
    { intros b. apply eqb_prop. apply Hz. destruct b; simpl; tauto. }
    intros s. unfold visible_t, visible. rewrite Hp. unfold id_pairs, all_buckets. simpl.
    rewrite !Z. reflexivity.
Qed.
Print Assumptions C03_debug_nodes.

Theorem C03_changed_by_meaning : forall before after b a,
  In (b, a) (changed_by before after) <->
  (vget after b = Some a /\
   match vget before b with None => True | Some a' => zlist_eqb (a_vals a) (a_vals a') = false end).
Proof. exact changed_by_spec. Qed.
Print Assumptions C03_changed_by_meaning.

(* ---- the hypotheses on the tables hold of the CODE: the tables regenerated from the current source tree
   (translator/c03.py -> Gen_C03.v) say that every to_xarray copies, that the slice is labelled with
   detector.absolute_time, that the five containers are exported and captured under their own names and that
   only an all-zero charge is left out of a capture; and the constants of the model (dims, coordinate origins,
   dtype conversion of each read-out, concatenation along `time` of (accumulated, step), first step taken as
   it is, per-step order reset/run/read out/concatenate, the guarded dtype restoration of `image`, the keys of
   the final tree with their guards, the sources of /scene /data /intermediate, the debug reference taken as a
   deep copy before each model, np.allclose, the node path) are those of the source *)
Theorem C03_source_tables : tables_ok src_tables = true.
Proof. vm_compute. reflexivity. Qed.
Print Assumptions C03_source_tables.

Theorem C03_source_shape : shape_eqb src_shape shape_as_modelled = true.
Proof. vm_compute. reflexivity. Qed.
Print Assumptions C03_source_shape.

(* the reference of the debug comparison cannot be changed by the model that runs after it was taken: it is a deep
   copy, or every read-out copies anyway *)
Theorem C03_debug_reference_independent :
  sf_debug_ref_deep src_shape || all_copy (tb_copies src_tables) = true.
Proof. vm_compute. reflexivity. Qed.
Print Assumptions C03_debug_reference_independent.

(* the paths of the model's tree are those the layout table gives *)
Example C03_layout_table_is_the_models : forall l dbg,
  layout_view src_shape l dbg = (@bucket_path l, @children l dbg).
Proof. intros [|] [|]; vm_compute; reflexivity. Qed.

(* ---- the main statements at the tables of the code *)
Theorem C03_slices_as_coded :
  forall (Scene Data : Type) (empty_scene : Scene) (scene_is_empty : Scene -> bool)
         (c : config Scene Data) (d_init : det Scene Data),
  image_regular (map view (ends_of empty_scene c d_init)) ->
  let t := exposure empty_scene scene_is_empty src_tables c d_init in
  let held := combine (map (Z.add (c_start c)) (c_times c)) (map view (ends_of empty_scene c d_init)) in
  t_buckets t = promote held /\
  List.length (t_buckets t) = List.length (c_times c) /\
  (forall b, map (fun ls => (fst ls, option_map a_vals (get (snd ls) b), option_map a_shape (get (snd ls) b))) (t_buckets t)
             = map (fun ls => (fst ls, option_map a_vals (get (snd ls) b), option_map a_shape (get (snd ls) b))) held) /\
  ((forall b, uniform b held) ->
   t_buckets t = held /\
   forall b, bucket_slices (t_buckets t) b =
     combine (map (Z.add (c_start c)) (c_times c))
             (map (fun d => get (view d) b) (ends_of empty_scene c d_init))).
Proof.
  intros Scene Data empty_scene scene_is_empty c d_init.
  destruct (tables_ok_props src_tables C03_source_tables) as (_ & Hs & Hl & He & _).
  apply C03_slices; assumption.
Qed.
Print Assumptions C03_slices_as_coded.

Theorem C03_coords_as_coded :
  forall (Scene Data : Type) (empty_scene : Scene) (scene_is_empty : Scene -> bool)
         (c : config Scene Data) (d_init : det Scene Data),
  let t := exposure empty_scene scene_is_empty src_tables c d_init in
  t_coords t = Some (range0 (nth 0 (c_shape c) 0), range0 (nth 1 (c_shape c) 0)) \/
  (t_coords t = Some ([], []) /\
   forall d vs, In d (ends_of empty_scene c d_init) -> In vs (tb_exported src_tables) -> get (view d) (snd vs) = None).
Proof.
  intros. destruct (tables_ok_props src_tables C03_source_tables) as (_ & _ & _ & _ & _ & Hr).
  apply C03_coords. exact Hr.
Qed.
Print Assumptions C03_coords_as_coded.

Theorem C03_debug_nodes_as_coded :
  forall (Scene Data : Type) (empty_scene : Scene) (c : config Scene Data) (n i : nat) (d : det Scene Data),
  debug_steps empty_scene src_tables c i n d = ideal_steps empty_scene c i n d.
Proof.
  intros. apply C03_debug_nodes; vm_compute; reflexivity.
Qed.
Print Assumptions C03_debug_nodes_as_coded.

(* ---- ... and they are needed.  Round-1 findings kept as witnesses of what a read-out WITHOUT a copy does:
   (1) two in-place charge additions +5 then +100 in one step: both nodes show the final charge 105;
   (2) a 3-D photon cube initialised by one model and added to in place by the next (the class of seeded
       change C03-m3);
   (3) a pixel array that survives the reset (non-destructive readout) and is added to in place at step 2:
       the FIRST slice of the result follows it. *)
Definition no_copy_of (k : ckind) : tables :=
  {| tb_relabel := fun _ => true;
     tb_copies := fun k' => match k, k' with
                            | KPhoton2, KPhoton2 | KPhoton3, KPhoton3 | KCharge, KCharge | KPixel, KPixel
                            | KSignal, KSignal | KImage, KImage => false
                            | _, _ => true
                            end;
     tb_label := LAbsolute; tb_exported := id_pairs; tb_visible := id_pairs;
     tb_skip_zero := fun b => bucket_eqb b Charge |}.

Definition wr (b : bucket) (waves : Z) (m : wmode) (ps : list Z) : action :=
  AWrite {| w_bucket := b; w_dt := F64; w_dts := []; w_waves := waves; w_ylab := None; w_xlab := None; w_mode := m;
            w_per_step := ps |}.

Definition alias_models (b : bucket) (waves : Z) : list pmodel :=
  [ {| pm_group := "charge_generation"; pm_name := "c1"; pm_actions := [wr b waves WIAdd [5; 7]] |};
    {| pm_group := "charge_generation"; pm_name := "c2"; pm_actions := [wr b waves WIAdd [100; 200]] |} ].

Definition alias_config (b : bucket) (waves : Z) (times : list Z) (nd : bool) : config payload payload :=
  {| c_shape := [1; 1]; c_start := 0; c_times := times; c_nondestr := nd; c_layout := Flat;
     c_debug := true; c_models := map (mdl_of [1; 1]) (alias_models b waves) |}.

Definition node_values (ns : list inode) : list (list (list Z)) :=
  map (fun n => map (fun ba => a_vals (snd ba)) (n_vars n)) ns.

Example C03_copy_is_needed :
  let d0 := reset [] [1; 1] false pdet0 in
  (* (1) charge *)
  node_values (debug_steps [] (no_copy_of KCharge) (alias_config Charge 0 [8] false) 0 1 d0) = [[[105]]; [[105]]] /\
  node_values (debug_steps [] tables_as_coded (alias_config Charge 0 [8] false) 0 1 d0) = [[[5]]; [[105]]] /\
  node_values (ideal_steps [] (alias_config Charge 0 [8] false) 0 1 d0) = [[[5]]; [[105]]] /\
  (* (2) 3-D photon *)
  node_values (debug_steps [] (no_copy_of KPhoton3) (alias_config Photon 2 [8] false) 0 1 d0)
    = [[[105; 107]]; [[105; 107]]] /\
  node_values (debug_steps [] tables_as_coded (alias_config Photon 2 [8] false) 0 1 d0)
    = [[[5; 6]]; [[105; 107]]] /\
  (* (3) first slice of a kept pixel array: 105 at the end of step 1, 105 + 7 + 200 at the end of step 2 *)
  map (fun ls => option_map a_vals (s_pixel (snd ls)))
      (t_buckets (exposure [] payload_is_empty (no_copy_of KPixel) (alias_config Pixel 0 [8; 16] true) pdet0))
    = [Some [312]; Some [312]] /\
  map (fun ls => option_map a_vals (s_pixel (snd ls)))
      (t_buckets (exposure [] payload_is_empty tables_as_coded (alias_config Pixel 0 [8; 16] true) pdet0))
    = [Some [105]; Some [312]].
Proof. vm_compute. repeat split; reflexivity. Qed.

(* ---- non-vacuity: an ordinary three-readout program meets the hypotheses, and the conclusions are
   not trivial; the first model of steps 2 and 3 is credited with what it changed only (round-1 finding
   C03-debug-reset-attribution: the reset of `pixel` used to be credited to it) *)
Definition ex_models : list pmodel :=
  [ {| pm_group := "photon_collection"; pm_name := "wp";
       pm_actions := [AWrite {| w_bucket := Photon; w_dt := F32; w_dts := []; w_waves := 2; w_ylab := Some [5]; w_xlab := None;
                                w_mode := WAssign; w_per_step := [1; 20; 40] |}] |};
    {| pm_group := "charge_collection"; pm_name := "wx";
       pm_actions := [AWrite {| w_bucket := Pixel; w_dt := F64; w_dts := [F64; F32; F16]; w_waves := 0; w_ylab := None;
                                w_xlab := None; w_mode := WAssign; w_per_step := [2 ^ 24 + 2; 2050; 27] |}] |};
    {| pm_group := "charge_collection"; pm_name := "wx2";
       pm_actions := [AWrite {| w_bucket := Pixel; w_dt := F64; w_dts := []; w_waves := 0; w_ylab := None; w_xlab := None;
                                w_mode := WIAdd; w_per_step := [1; 1; 1] |}] |};
    {| pm_group := "readout_electronics"; pm_name := "wi";
       pm_actions := [AWrite {| w_bucket := Image; w_dt := U64; w_dts := [U64; U8; U16]; w_waves := 0; w_ylab := None;
                                w_xlab := None; w_mode := WAssign; w_per_step := [2 ^ 53 + 1; 200; 300] |};
                      AData "/probe/k" [7; 8; 9]] |} ].

Definition ex_config (l : layout) (dbg nd : bool) : config payload payload :=
  {| c_shape := [1; 2]; c_start := 4; c_times := [8; 16; 32]; c_nondestr := nd; c_layout := l;
     c_debug := dbg; c_models := map (mdl_of [1; 2]) ex_models |}.

Example C03_hyps_satisfiable :
  image_regular (map view (ends_of [] (ex_config Flat true false) pdet0)) /\
  let t := exposure [] payload_is_empty tables_as_coded (ex_config Flat true false) pdet0 in
  (* the image is uint64, uint8, uint16 at the three readouts: the variable is uint64 and every value is kept *)
  bucket_slices (t_buckets t) Image =
    [(12, Some {| a_dt := U64; a_shape := [1; 2]; a_vals := [2 ^ 53 + 1; 2 ^ 53 + 2] |});
     (20, Some {| a_dt := U64; a_shape := [1; 2]; a_vals := [200; 201] |});
     (36, Some {| a_dt := U64; a_shape := [1; 2]; a_vals := [300; 301] |})] /\
  (* the pixel array is float64, float32, float16: the variable is float64; 2^24 + 3 (no float32 value) and 2051 (no
     float16 value) survive *)
  bucket_slices (t_buckets t) Pixel =
    [(12, Some {| a_dt := F64; a_shape := [1; 2]; a_vals := [2 ^ 24 + 3; 2 ^ 24 + 5] |});
     (20, Some {| a_dt := F64; a_shape := [1; 2]; a_vals := [2051; 2053] |});
     (36, Some {| a_dt := F64; a_shape := [1; 2]; a_vals := [28; 30] |})] /\
  (* the photon cube carries its own y labels [5]: the result is labelled with the row / column indices *)
  t_coords t = Some ([0], [0; 1]) /\
  t_data t = [("/probe/k"%string, [9])] /\
  option_map (map (fun n => map fst (n_vars n))) (t_inter t) =
    Some [[Photon]; [Pixel]; [Pixel]; [Image]; [Photon]; [Pixel]; [Pixel]; [Image]; [Photon]; [Pixel]; [Pixel]; [Image]].
Proof.
  split.
  - right. intros s Hs. vm_compute in Hs.
    repeat (destruct Hs as [<-|Hs]; [eexists; split; reflexivity|]). contradiction.
  - vm_compute. repeat split; reflexivity.
Qed.

(* an image whose dtype changes between readouts: the variable gets the wider type, nothing is lost (before the repair
   of C03-image-narrowing the earlier slice was cast to the type of the last image: 70000 came back as 4464) *)
Example C03_image_dtype_change :
  let img t v := {| s_photon := None; s_charge := None; s_pixel := None; s_signal := None;
                    s_image := Some {| a_dt := t; a_shape := [1; 1]; a_vals := [v] |} |} in
  assemble [(1, img U32 70000); (2, img U16 6)] = [(1, img U32 70000); (2, img U32 6)] /\
  a_vals (cast_to U16 {| a_dt := U32; a_shape := [1; 1]; a_vals := [70000] |}) = [4464].
Proof. vm_compute. split; reflexivity. Qed.

(* ---- the read-out of a 3-D photon cube must SET the y / x coordinates: if it only added them when the cube has
   none, a cube labelled [1; 2] (pixel centres, 1-based indices, ...) would label the photon variable [1; 2] while the
   charge is labelled [0; 1]: the variables are re-aligned (NaN-filled) -- the model has no result for that run *)
Definition keep_cube_coords : tables :=
  {| tb_relabel := fun k => match k with KPhoton3 => false | _ => true end;
     tb_copies := fun _ => true; tb_label := LAbsolute; tb_exported := id_pairs; tb_visible := id_pairs;
     tb_skip_zero := fun b => bucket_eqb b Charge |}.

Definition cube_config (ylab : option (list Z)) : config payload payload :=
  {| c_shape := [2; 1]; c_start := 0; c_times := [8; 16]; c_nondestr := false; c_layout := Flat; c_debug := false;
     c_models := map (mdl_of [2; 1])
       [ {| pm_group := "photon_collection"; pm_name := "wp";
            pm_actions := [AWrite {| w_bucket := Photon; w_dt := F64; w_dts := []; w_waves := 1; w_ylab := ylab;
                                     w_xlab := None; w_mode := WAssign; w_per_step := [1; 20] |}] |} ] |}.

Example C03_relabel_is_needed :
  t_coords (exposure [] payload_is_empty keep_cube_coords (cube_config (Some [1; 2])) pdet0) = None /\
  t_coords (exposure [] payload_is_empty keep_cube_coords (cube_config (Some [0; 1])) pdet0) = Some ([0; 1], [0]) /\
  t_coords (exposure [] payload_is_empty keep_cube_coords (cube_config None) pdet0) = Some ([0; 1], [0]) /\
  t_coords (exposure [] payload_is_empty tables_as_coded (cube_config (Some [1; 2])) pdet0) = Some ([0; 1], [0]).
Proof. vm_compute. repeat split; reflexivity. Qed.
