(* C03 — the returned result is a faithful, complete record of every step.
   Only statements here; the model is Model/Result.v, the proofs are in Proofs/Result.v.
   Programs = arbitrary lists of model functions (any transformer of the detector, may depend on the
   step index); schedules of any length; both layouts; debug on/off; scene/data of any type. *)
From Coq Require Import ZArith List Bool String Lia Sorted.
From PyxelV Require Import Model.Result Proofs.Result.
Import ListNotations.
Open Scope Z_scope.

(* ---- the merge along `time` loses no slice exactly when the labels are pairwise distinct *)
Theorem C03_merge_lossless_iff_distinct_labels : forall xs : list slice,
  (exists r, assemble xs = Some r /\ List.length r = List.length xs) <-> NoDup (map fst xs).
Proof. exact merge_lossless_iff_distinct_labels. Qed.
Print Assumptions C03_merge_lossless_iff_distinct_labels.

(* ---- and it never invents a slice: the labels of the result are exactly the readout labels, sorted *)
Theorem C03_merge_labels : forall xs r,
  assemble xs = Some r ->
  StronglySorted Z.lt (map fst r) /\ (forall l, In l (map fst r) <-> In l (map fst xs)) /\
  (List.length r <= List.length xs)%nat.
Proof. exact assemble_labels. Qed.
Print Assumptions C03_merge_labels.

(* ---- slices: for every program, every strictly increasing schedule (what Readout accepts), every start
   time, both layouts, debug on/off: the run succeeds and the bucket dataset is, slice for slice,
   (start + t_i, what the detector held at the end of step i) -- one slice per readout, in order.
   Hypothesis on the image: the float round trip of the merge leaves it alone (see C03_image_exact). *)
Theorem C03_slices :
  forall (Scene Data : Type) (empty_scene : Scene) (scene_is_empty : Scene -> bool) (copies : ckind -> bool)
         (c : config Scene Data) (d_init : det Scene Data),
  slices_safe copies ->
  StronglySorted Z.lt (c_times c) ->
  image_stable (map view (ends_of empty_scene c d_init)) ->
  exists t, exposure empty_scene scene_is_empty copies c d_init = Some t /\
    t_buckets t = combine (map (Z.add (c_start c)) (c_times c)) (map view (ends_of empty_scene c d_init)) /\
    List.length (t_buckets t) = List.length (c_times c) /\
    forall b, bucket_slices (t_buckets t) b =
      combine (map (Z.add (c_start c)) (c_times c))
              (map (fun d => get (view d) b) (ends_of empty_scene c d_init)).
Proof.
  intros. destruct (slices_faithful empty_scene scene_is_empty copies c d_init H H0 H1) as [t [He [Hb Hl]]].
  exists t. split; [exact He|]. split; [exact Hb|]. split; [exact Hl|].
  intros b. rewrite Hb. unfold labels. rewrite bucket_slices_combine, map_map. reflexivity.
Qed.
Print Assumptions C03_slices.

(* ---- `view` = what is read out of the detector: the same values and shapes as held, the same dtypes
   except that a 3-D photon array is widened to float64 by Photon.to_xarray *)
Theorem C03_view_keeps_values : forall s b,
  option_map a_vals (get (extract s) b) = option_map a_vals (get s b) /\
  option_map a_shape (get (extract s) b) = option_map a_shape (get s b) /\
  (b <> Photon -> get (extract s) b = get s b) /\
  (forall a, s_photon s = Some a -> List.length (a_shape a) <> 3%nat -> extract s = s).
Proof. exact extract_values. Qed.
Print Assumptions C03_view_keeps_values.

(* ---- the image hypothesis holds when the image is initialised in no step, or in every step with one
   unsigned dtype and values below 2^8 / 2^16 / 2^32 / 2^53 (uint8 / 16 / 32 / 64) *)
Theorem C03_image_exact : forall snaps, image_uniform snaps -> image_stable snaps.
Proof. exact uniform_image_stable. Qed.
Print Assumptions C03_image_exact.

(* ---- the image keeps the unsigned type the models wrote (no hypothesis on the values) *)
Theorem C03_image_dtype :
  forall (Scene Data : Type) (empty_scene : Scene) (scene_is_empty : Scene -> bool) (copies : ckind -> bool)
         (c : config Scene Data) (d_init : det Scene Data) (t_ : dtype) tr,
  slices_safe copies ->
  Forall (fun d => image_has_dtype t_ (d_snap d)) (ends_of empty_scene c d_init) ->
  exposure empty_scene scene_is_empty copies c d_init = Some tr ->
  Forall (fun ls => image_has_dtype t_ (snd ls)) (t_buckets tr).
Proof. exact @image_dtype_kept. Qed.
Print Assumptions C03_image_dtype.

(* ---- the FULL slice statement (without the bit budget on uint64 images) is false of the code as
   written: with >= 2 readouts the merge sends the image through float64 *)
Definition u64_img (v : Z) : snapshot :=
  {| s_photon := None; s_charge := None; s_pixel := None; s_signal := None;
     s_image := Some {| a_dt := U64; a_shape := [1; 1]; a_vals := [v] |} |}.

Definition C03_slices_u64_full : Prop :=
  forall xs : list slice, StronglySorted Z.lt (map fst xs) ->
  (forall x, In x xs -> exists v, 0 <= v < 2 ^ 64 /\ snd x = u64_img v) ->
  assemble xs = Some xs.

Theorem C03_slices_u64_refuted : ~ C03_slices_u64_full.
Proof.
  intros H.
  specialize (H [(1, u64_img (2 ^ 53 + 1)); (2, u64_img 7)]).
  assert (A : assemble [(1, u64_img (2 ^ 53 + 1)); (2, u64_img 7)]
              = Some [(1, u64_img (2 ^ 53)); (2, u64_img 7)]) by (vm_compute; reflexivity).
  rewrite A in H.
  assert (E : Some [(1, u64_img (2 ^ 53)); (2, u64_img 7)] = Some [(1, u64_img (2 ^ 53 + 1)); (2, u64_img 7)]).
  { apply H.
    - simpl. repeat constructor.
    - intros x [<-|[<-|[]]]; eexists; (split; [|reflexivity]); lia. }
  vm_compute in E. discriminate.
Qed.
Print Assumptions C03_slices_u64_refuted.

(* ---- both layouts carry the same values; the layout only chooses the path of the bucket node (a
   non-empty scene forces the hierarchical one) *)
Theorem C03_layouts_agree :
  forall (Scene Data : Type) (empty_scene : Scene) (scene_is_empty : Scene -> bool) (copies : ckind -> bool)
         (c : config Scene Data) (d_init : det Scene Data),
  match exposure empty_scene scene_is_empty copies (with_layout c Flat) d_init,
        exposure empty_scene scene_is_empty copies (with_layout c Hier) d_init with
  | Some a, Some b =>
      t_buckets a = t_buckets b /\ t_inter a = t_inter b /\ t_scene a = t_scene b /\
      t_data a = t_data b /\ t_bucket_path b = "/bucket"%string /\
      t_bucket_path a = (if scene_is_empty (t_scene a) then "/" else "/bucket")%string
  | None, None => True
  | _, _ => False
  end.
Proof. exact @layouts_agree. Qed.
Print Assumptions C03_layouts_agree.

(* ---- scene and processed data are what the detector holds after the last step, untouched *)
Theorem C03_scene_data_passthrough :
  forall (Scene Data : Type) (empty_scene : Scene) (scene_is_empty : Scene -> bool) (copies : ckind -> bool)
         (c : config Scene Data) (d_init : det Scene Data) tr,
  exposure empty_scene scene_is_empty copies c d_init = Some tr ->
  let final := last (ends_of empty_scene c d_init) (reset empty_scene (c_shape c) false d_init) in
  t_scene tr = d_scene final /\ t_data tr = d_data final.
Proof. exact @scene_data_passthrough. Qed.
Print Assumptions C03_scene_data_passthrough.

(* ---- debug mode: the result without the debug nodes is the result of the run without debug, and the
   detector states do not depend on the flag *)
Theorem C03_debug_conservative :
  forall (Scene Data : Type) (empty_scene : Scene) (scene_is_empty : Scene -> bool) (copies : ckind -> bool)
         (c : config Scene Data) (d_init : det Scene Data),
  exposure empty_scene scene_is_empty copies (with_debug c false) d_init
  = option_map strip_debug (exposure empty_scene scene_is_empty copies (with_debug c true) d_init)
  /\ forall b, ends_of empty_scene (with_debug c b) d_init = ends_of empty_scene c d_init.
Proof.
  intros. split; [apply debug_conservative|]. intros b. apply debug_does_not_touch_states.
Qed.
Print Assumptions C03_debug_conservative.

(* ---- debug mode: the node of every model but the first of its step holds exactly the buckets whose
   values this model changed (changed_by: the visible buckets of the state after the model whose
   values differ from, or that were not visible in, the state just before it) *)
Theorem C03_debug_nodes_partial :
  forall (Scene Data : Type) (m0 : mdl Scene Data) ms1 m ms2 i (d : det Scene Data) last,
  let before := run_models i (m0 :: ms1) d in
  nth_error (fst (debug_models i ((m0 :: ms1) ++ m :: ms2) d last)) (List.length (m0 :: ms1)) =
  Some {| n_step := i; n_group := m_group m; n_name := m_name m;
          n_vars := changed_by (view before) (view (m_fn m i before)) |}.
Proof. exact @debug_node_is_changed_buckets. Qed.
Print Assumptions C03_debug_nodes_partial.

Theorem C03_changed_by_meaning : forall before after b a,
  In (b, a) (changed_by before after) <->
  (vget after b = Some a /\
   match vget before b with None => True | Some a' => zlist_eqb (a_vals a) (a_vals a') = false end).
Proof. exact changed_by_spec. Qed.
Print Assumptions C03_changed_by_meaning.

(* ---- the FULL debug statement (every node, the first model of a step included, holds exactly the
   buckets that model changed) is false of the code as written: the capture is compared with the
   last capture of the PREVIOUS step, so the reset between two readouts is credited to the first
   model of the next step (and a bucket rewritten with last step's values is not recorded) *)
Definition C03_debug_nodes_full : Prop :=
  forall (c : config payload payload),
  let d0 := reset [] (c_shape c) false pdet0 in
  let n := List.length (c_times c) in
  map n_vars (debug_steps [] copies_as_coded c 0 n d0 None) = map n_vars (ideal_steps [] c 0 n d0).

Definition wit_models : list pmodel :=
  [ {| pm_group := "photon_collection"; pm_name := "wp";
       pm_actions := [AWrite {| w_bucket := Photon; w_dt := F64; w_waves := 0; w_mode := WAssign; w_per_step := [1; 5] |}] |};
    {| pm_group := "charge_collection"; pm_name := "wx";
       pm_actions := [AWrite {| w_bucket := Pixel; w_dt := F64; w_waves := 0; w_mode := WAssign; w_per_step := [3; 9] |}] |} ].

Definition wit_config : config payload payload :=
  {| c_shape := [1; 2]; c_start := 0; c_times := [8; 16]; c_nondestr := false; c_layout := Flat;
     c_debug := true; c_models := map (mdl_of [1; 2]) wit_models |}.

Theorem C03_debug_nodes_refuted : ~ C03_debug_nodes_full.
Proof. intros H. specialize (H wit_config). vm_compute in H. discriminate. Qed.
Print Assumptions C03_debug_nodes_refuted.

(* ... and the charge recorded in a node is not a copy: a later in-place addition in the same step
   rewrites the earlier record (both nodes show the final charge 5 + 100) *)
Definition alias_models : list pmodel :=
  [ {| pm_group := "charge_generation"; pm_name := "c1";
       pm_actions := [AWrite {| w_bucket := Charge; w_dt := F64; w_waves := 0; w_mode := WIAdd; w_per_step := [5] |}] |};
    {| pm_group := "charge_generation"; pm_name := "c2";
       pm_actions := [AWrite {| w_bucket := Charge; w_dt := F64; w_waves := 0; w_mode := WIAdd; w_per_step := [100] |}] |} ].

Example C03_debug_charge_alias_witness :
  let c := {| c_shape := [1; 1]; c_start := 0; c_times := [8]; c_nondestr := false; c_layout := Flat;
              c_debug := true; c_models := map (mdl_of [1; 1]) alias_models |} in
  map (fun n => map (fun ba => a_vals (snd ba)) (n_vars n)) (debug_steps [] copies_as_coded c 0 1 (reset [] [1; 1] false pdet0) None)
    = [[[105]]; [[105]]] /\
  map (fun n => map (fun ba => a_vals (snd ba)) (n_vars n)) (ideal_steps [] c 0 1 (reset [] [1; 1] false pdet0))
    = [[[5]]; [[105]]].
Proof. vm_compute. split; reflexivity. Qed.

(* ---- non-vacuity: an ordinary three-readout program meets the hypotheses, and the conclusions are
   not trivial *)
Definition ex_models : list pmodel :=
  [ {| pm_group := "photon_collection"; pm_name := "wp";
       pm_actions := [AWrite {| w_bucket := Photon; w_dt := F32; w_waves := 2; w_mode := WAssign; w_per_step := [1; 20; 40] |}] |};
    {| pm_group := "charge_collection"; pm_name := "wx";
       pm_actions := [AWrite {| w_bucket := Pixel; w_dt := F64; w_waves := 0; w_mode := WAssign; w_per_step := [3; 9; 27] |}] |};
    {| pm_group := "readout_electronics"; pm_name := "wi";
       pm_actions := [AWrite {| w_bucket := Image; w_dt := U16; w_waves := 0; w_mode := WAssign; w_per_step := [100; 200; 300] |};
                      AData "/probe/k" [7; 8; 9]] |} ].

Definition ex_config (l : layout) (dbg : bool) : config payload payload :=
  {| c_shape := [1; 2]; c_start := 4; c_times := [8; 16; 32]; c_nondestr := true; c_layout := l;
     c_debug := dbg; c_models := map (mdl_of [1; 2]) ex_models |}.

Example C03_hyps_satisfiable :
  StronglySorted Z.lt (c_times (ex_config Flat true)) /\
  image_uniform (map view (ends_of [] (ex_config Flat true) pdet0)) /\
  (exists t, exposure [] payload_is_empty copies_as_coded (ex_config Flat true) pdet0 = Some t /\
     bucket_slices (t_buckets t) Image =
       [(12, Some {| a_dt := U16; a_shape := [1; 2]; a_vals := [100; 101] |});
        (20, Some {| a_dt := U16; a_shape := [1; 2]; a_vals := [200; 201] |});
        (36, Some {| a_dt := U16; a_shape := [1; 2]; a_vals := [300; 301] |})] /\
     t_data t = [("/probe/k"%string, [9])] /\
     option_map (map (fun n => map fst (n_vars n))) (t_inter t) =
       Some [[Photon]; [Pixel]; [Image]; [Photon]; [Pixel]; [Image]; [Photon]; [Pixel]; [Image]]).
Proof.
  split; [simpl; repeat constructor|].
  split.
  - right. exists U16. split; [reflexivity|]. intros s Hs. vm_compute in Hs.
    repeat (destruct Hs as [<-|Hs]; [eexists; split; [reflexivity|]; split; [reflexivity|];
      intros v Hv; simpl in Hv; repeat (destruct Hv as [<-|Hv]; [simpl; lia|]); contradiction|]).
    contradiction.
  - eexists. split; [vm_compute; reflexivity|]. vm_compute. repeat split; reflexivity.
Qed.

(* the schedule hypothesis is needed: with a repeated label the record is not complete *)
Example C03_duplicate_label_loses_a_slice :
  assemble [(1, u64_img 5); (1, u64_img 5); (2, u64_img 6)] = Some [(1, u64_img 5); (2, u64_img 6)] /\
  assemble [(1, u64_img 5); (1, u64_img 6)] = None.
Proof. vm_compute. split; reflexivity. Qed.
