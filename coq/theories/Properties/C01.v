(* C01 — enabled models run once per readout, in the fixed physical group order.
   Only statements here; proofs live in Proofs/Pipeline.v and Proofs/PipelineSpec.v.  Gen_C01 is
   regenerated from pyxel/pipelines/{pipeline,processor,model_group,model_function}.py on every run. *)
From Coq Require Import List String ZArith Bool Arith Sorted Permutation.
From PyxelV Require Import Model.Pipeline Model.PipelineHist Model.PipelineExec.
From PyxelV Require Import Proofs.Pipeline Proofs.PipelineSpec Proofs.PipelineEq Proofs.PipelineJudge Proofs.PipelineHist.
From PyxelV Require Import Proofs.PipelineExec.
From PyxelGen Require Import Gen_C01.
Import ListNotations.
Open Scope list_scope.

(* The physical order, written here from the property text: scene generation, photon collection,
   phasing, charge generation, charge collection, charge transfer, charge measurement, signal
   transfer, readout electronics, data processing.  It is NOT the generated table. *)
Definition physical : list group :=
  [SceneGeneration; PhotonCollection; Phasing; ChargeGeneration; ChargeCollection; ChargeTransfer;
   ChargeMeasurement; SignalTransfer; ReadoutElectronics; DataProcessing].

(* the calls made by an n-readout run of pipeline p (Processor.run_pipeline once per step) *)
Definition trace (debug : bool) (p : pipeline) (n : nat) : list call :=
  fst (run_readouts debug physical p n).

(* ---------- source obligations (re-checked against the regenerated tables) ---------- *)

(* MODEL_GROUPS is the physical order; swapping two entries in the source breaks this *)
Theorem C01_src_order : map group_name physical = src_model_groups.
Proof. reflexivity. Qed.
Print Assumptions C01_src_order.

(* every constructor keyword g feeds the attribute _g that the property g returns, labelled g *)
Theorem C01_src_wiring :
  List.length src_ctor_kwargs = 10 /\ List.length src_ctor_feeds = 10 /\
  forall g, In (group_name g) src_ctor_kwargs /\
            In (group_name g, String.append "_" (group_name g), group_name g) src_ctor_feeds /\
            In (group_name g, String.append "_" (group_name g)) src_properties.
Proof. apply wiring_okb_sound. vm_compute. reflexivity. Qed.
Print Assumptions C01_src_wiring.

(* run_pipeline iterates MODEL_GROUPS (the translator follows the trivial property model_group_names; which
   accessor is spelled in the source is not pinned), as does __iter__, and skips a group of the
   order only when it is absent (no branch on the detector type, the step, the debug flag ...); a
   group yields its enabled models only; run loops over the group itself (not over a remembered
   list); a model gets (detector, **arguments) *)
Theorem C01_src_iteration :
  src_iterated_by = [("Processor.run_pipeline", "MODEL_GROUPS");
                     ("DetectionPipeline.model_group_names", "MODEL_GROUPS");
                     ("DetectionPipeline.__iter__", "MODEL_GROUPS")]%string /\
  src_run_pipeline_skips = ["absent"]%string /\
  src_group_iter_guard = "model.enabled"%string /\
  src_group_run_iterates = "self"%string /\
  src_model_call = ["detector"; "**self.arguments"]%string.
Proof. repeat split; reflexivity. Qed.
Print Assumptions C01_src_iteration.

(* the model evaluated by the correspondence leg (order = regenerated names) and the specification
   used to judge the implementation (order = spec_order) are both the `trace` of the theorems below *)
Theorem C01_model_is_trace :
  spec_order = physical /\
  forall debug p n,
    fst (model_run (order_of_names src_model_groups) debug p n) = trace debug p n /\
    fst (spec_run debug p n) = trace debug p n.
Proof.
  split; [reflexivity|]. intros. split.
  - apply model_run_is_trace. reflexivity.
  - apply spec_run_is_trace.
Qed.
Print Assumptions C01_model_is_trace.

(* what a "no violation" verdict of the correspondence leg means: the recorded calls are literally
   the observable projection (step, name, arguments) of the trace of the theorems below, for an
   exposure and for every run of an observation (the boolean comparisons decide equality).  The
   specification accepts two readings of "exactly the arguments configured for it" for a model that
   changes its container arguments in place: it is handed the configured objects themselves (the
   code as it is; the trace of p) or a private copy (the trace of `freeze p`); the two coincide for
   every pipeline without such a model (C01_no_growing_model). *)
Theorem C01_judgement_sound :
  (forall c p debug t nodes,
     from_yaml (k_doc c) = Ok p -> k_mode c = Exposure debug -> k_observed c = Ran t nodes ->
     spec_ok c = true ->
     t = map obs_of (trace debug p (k_steps c)) \/
     t = map obs_of (trace debug (freeze p) (k_steps c))) /\
  (forall c p runs t nodes,
     from_yaml (k_doc c) = Ok p -> k_mode c = Observation runs -> k_observed c = Ran t nodes ->
     spec_ok c = true ->
     t = flat_map (fun os => map obs_of (trace false (apply_overrides p os) (k_steps c))) runs \/
     t = flat_map (fun os => map obs_of (trace false (freeze (apply_overrides p os)) (k_steps c))) runs).
Proof. split; [exact judgement_sound_exposure|exact judgement_sound_observation]. Qed.
Print Assumptions C01_judgement_sound.

(* ---------- the property, for ALL pipelines, step counts and debug flags ---------- *)

(* strictly sorted by (step, rank of the group in the physical order, position in the user's list):
   group after group in the physical order, inside a group in listed order, step after step *)
Theorem C01_sorted :
  forall debug p n, StronglySorted (key_lt physical) (trace debug p n).
Proof. apply run_sorted. vm_compute. reflexivity. Qed.
Print Assumptions C01_sorted.

(* position i of group g at step `step` executes once if step < n, the group is present and the
   model at that position is enabled; never otherwise *)
Theorem C01_exactly_once :
  forall debug p n step g i,
    count_pos (trace debug p n) step g i = if executes p n step g i then 1 else 0.
Proof. apply run_exactly_once. vm_compute. reflexivity. Qed.
Print Assumptions C01_exactly_once.

Theorem C01_enabled_once :
  forall debug p n step g i ms m,
    step < n -> get p g = Some ms -> nth_error ms i = Some m -> enabled m = true ->
    count_pos (trace debug p n) step g i = 1.
Proof. apply run_enabled_once. vm_compute. reflexivity. Qed.
Print Assumptions C01_enabled_once.

Theorem C01_disabled_never :
  forall debug p n step g i ms m,
    get p g = Some ms -> nth_error ms i = Some m -> enabled m = false ->
    count_pos (trace debug p n) step g i = 0.
Proof. apply run_disabled_never. vm_compute. reflexivity. Qed.
Print Assumptions C01_disabled_never.

Theorem C01_absent_never :
  forall debug p n step g i, get p g = None -> count_pos (trace debug p n) step g i = 0.
Proof. apply run_absent_never. vm_compute. reflexivity. Qed.
Print Assumptions C01_absent_never.

(* an empty list given to the constructor is an absent group *)
Theorem C01_empty_list_is_absent :
  forall f g, f g = Some [] -> get (mk_pipeline f) g = None.
Proof. exact empty_list_is_absent. Qed.
Print Assumptions C01_empty_list_is_absent.

(* every executed call is an enabled position of the configured pipeline and carries exactly the
   name and the arguments configured for that position.  (For a model that changes its container
   arguments in place, "configured" includes its own changes during the earlier steps of this run:
   ModelFunction.__call__ hands over the stored objects themselves; `recv`.) *)
Theorem C01_args_exact :
  forall debug p n c,
    In c (trace debug p n) ->
    c_step c < n /\
    exists ms m, get p (c_group c) = Some ms /\ nth_error ms (c_pos c) = Some m /\
                 enabled m = true /\ c_name c = name m /\ c_args c = recv (c_step c) m /\
                 (grows m = false -> c_args c = args m).
Proof. apply run_args_exact. Qed.
Print Assumptions C01_args_exact.

(* the order of the group keys in the YAML mapping does not matter (same pipeline, hence same run) *)
Theorem C01_yaml_key_order_irrelevant :
  forall kvs kvs' : doc,
    Permutation kvs kvs' -> NoDup (map fst kvs) -> from_yaml kvs = from_yaml kvs'.
Proof. exact from_yaml_perm. Qed.
Print Assumptions C01_yaml_key_order_irrelevant.

(* YAML = Python construction: a document listing (at least) the populated groups of a constructor
   call, in any order, loads to exactly the pipeline the constructor builds; and every pipeline is
   the image of its own document *)
Theorem C01_yaml_equals_python :
  (forall f keys, (forall g, f g <> None -> In g keys) ->
                  from_yaml (doc_of f keys) = Ok (mk_pipeline f)) /\
  (forall p, normal p -> from_yaml (doc_of (get p) all_groups) = Ok p).
Proof. split; [exact from_yaml_doc_of|exact roundtrip]. Qed.
Print Assumptions C01_yaml_equals_python.

(* debug capture changes nothing in the trace; it only adds one capture per executed model *)
Theorem C01_debug_irrelevant :
  forall p n,
    trace true p n = trace false p n /\
    snd (run_readouts false physical p n) = [] /\
    snd (run_readouts true physical p n) = captures_of (trace true p n).
Proof. apply run_debug_irrelevant. Qed.
Print Assumptions C01_debug_irrelevant.

(* THE EXECUTION THEOREM.  Running the pipeline object p itself for n readout steps the way the code
   does — every call receives the argument objects stored in its ModelFunction at that moment, and a
   model that changes them in place changes what is stored — makes exactly the calls of `trace`, and
   leaves the object as `age n p` (which is p itself when no model grows its arguments) *)
Theorem C01_execution_is_trace :
  forall p n, exec_readouts physical p n = (trace false p n, age n p).
Proof.
  intros p n. rewrite (exec_readouts_closed physical p n) by (vm_compute; reflexivity).
  unfold trace. rewrite run_readouts_fst. reflexivity.
Qed.
Print Assumptions C01_execution_is_trace.

(* ---------- configuration histories: what a run is judged against ---------- *)

(* THE RUN THEOREM.  In any history of operations on any store of pipeline objects, the run started
   by `ORun o m n` after the operations `pre` is a run of exactly the configuration object o has at
   that time; and every run of a history is of this form.  (Both readings of in-place growth.) *)
Theorem C01_history_run :
  (forall inplace st pre o m n post p,
     nth_error (exec_ops inplace st pre) o = Some p ->
     hist_runs inplace st (pre ++ ORun o m n :: post) =
     hist_runs inplace st pre ++
     {| r_obj := o; r_cfg := p; r_mode := m; r_steps := n |} ::
     hist_runs inplace (apply_op inplace (exec_ops inplace st pre) (ORun o m n)) post) /\
  (forall inplace ops st r,
     In r (hist_runs inplace st ops) ->
     exists pre post,
       ops = pre ++ ORun (r_obj r) (r_mode r) (r_steps r) :: post /\
       nth_error (exec_ops inplace st pre) (r_obj r) = Some (r_cfg r)).
Proof. split; [exact hist_runs_at|exact hist_runs_inv]. Qed.
Print Assumptions C01_history_run.

(* hence every run of every history satisfies the property with respect to the configuration AT THAT
   TIME: sorted in the physical order, every enabled position exactly once per step, never a disabled
   one, each with the arguments of that configuration *)
Theorem C01_history_each_run :
  forall inplace ops st r debug,
    In r (hist_runs inplace st ops) ->
    let t := trace debug (r_cfg r) (r_steps r) in
    StronglySorted (key_lt physical) t /\
    (forall step g i, count_pos t step g i = if executes (r_cfg r) (r_steps r) step g i then 1 else 0) /\
    (forall c, In c t ->
       exists ms m, get (r_cfg r) (c_group c) = Some ms /\ nth_error ms (c_pos c) = Some m /\
                    enabled m = true /\ c_name c = name m /\ c_args c = recv (c_step c) m).
Proof.
  intros inplace ops st r debug _ t. split; [apply C01_sorted|]. split; [apply C01_exactly_once|].
  intros c Hc. destruct (C01_args_exact debug _ _ c Hc) as (_ & ms & m & A & B & C & D & E & _).
  exists ms, m. auto.
Qed.
Print Assumptions C01_history_each_run.

(* an operation that does not write object o leaves it as it is: whatever happens to OTHER pipeline
   objects (copies above all) and whatever runs in observation / calibration mode, object o keeps its
   configuration *)
Theorem C01_history_frame :
  forall inplace ops st o,
    o < List.length st -> (forall x, In x ops -> writes inplace x o = false) ->
    nth_error (exec_ops inplace st ops) o = nth_error st o.
Proof. exact exec_ops_frame. Qed.
Print Assumptions C01_history_frame.

(* a changed switch is honoured by the next run of that object (and by every later one until the
   object is written again): the run is judged against the configuration with the new flag, so the
   position executes once per step if it was switched on and never if it was switched off, and every
   other position executes as before *)
Theorem C01_history_toggle :
  forall inplace st pre o g i b mid m n post p ms m0,
    nth_error (exec_ops inplace st pre) o = Some p ->
    get p g = Some ms -> nth_error ms i = Some m0 ->
    (forall x, In x mid -> writes inplace x o = false) ->
    hist_runs inplace st (pre ++ OSetEnabled o g i b :: mid ++ ORun o m n :: post) =
      hist_runs inplace st (pre ++ OSetEnabled o g i b :: mid) ++
      {| r_obj := o; r_cfg := set_enabled g i b p; r_mode := m; r_steps := n |} ::
      hist_runs inplace
        (apply_op inplace (exec_ops inplace st (pre ++ OSetEnabled o g i b :: mid)) (ORun o m n)) post /\
    (forall debug step,
       count_pos (trace debug (set_enabled g i b p) n) step g i = if Nat.ltb step n && b then 1 else 0) /\
    (forall debug step g' i', (g' <> g \/ i' <> i) ->
       count_pos (trace debug (set_enabled g i b p) n) step g' i' = count_pos (trace debug p n) step g' i').
Proof.
  intros inplace st pre o g i b mid m n post p ms m0 Hp Hg Hi W.
  split; [eapply toggle_then_run; eauto|]. split.
  - intros debug step. rewrite C01_exactly_once, (executes_set_enabled p n step g i b g i ms m0 Hg Hi).
    rewrite group_eqb_refl, Nat.eqb_refl. reflexivity.
  - intros debug step g' i' Hne. rewrite !C01_exactly_once.
    rewrite (executes_set_enabled p n step g i b g' i' ms m0 Hg Hi).
    destruct (group_eqb g' g) eqn:Eg; [|reflexivity]. apply group_eqb_eq in Eg.
    destruct (Nat.eqb i' i) eqn:Ei; [|reflexivity]. apply Nat.eqb_eq in Ei.
    destruct Hne as [H|H]; contradiction.
Qed.
Print Assumptions C01_history_toggle.

(* an argument changed through Processor.set (also a key INSIDE a dict / list valued argument) is
   honoured by the next run of that object: the run is judged against the configuration in which the
   first model of that name has the new value at that path — read back through the path it is the
   value that was set, every other argument is as before — while every position keeps its name and
   its switch (so exactly the same positions execute), and every other group is untouched *)
Theorem C01_history_setarg :
  forall inplace st pre o ov mid m n post p ms i m0,
    nth_error (exec_ops inplace st pre) o = Some p ->
    (forall y, In y mid -> writes inplace y o = false) ->
    get p (o_group ov) = Some ms -> first_named (o_model ov) ms = Some i -> nth_error ms i = Some m0 ->
    let p' := apply_override p ov in
    let m1 := set_args m0 (upd_kw (o_key ov) (set_in (o_path ov) (o_value ov)) (args m0)) in
    hist_runs inplace st (pre ++ OSetArg o ov :: mid ++ ORun o m n :: post) =
      hist_runs inplace st (pre ++ OSetArg o ov :: mid) ++
      {| r_obj := o; r_cfg := p'; r_mode := m; r_steps := n |} ::
      hist_runs inplace (apply_op inplace (exec_ops inplace st (pre ++ OSetArg o ov :: mid)) (ORun o m n)) post /\
    (exists ms', get p' (o_group ov) = Some ms' /\ nth_error ms' i = Some m1) /\
    (forall g', g' <> o_group ov -> get p' g' = get p g') /\
    (forall debug step g' i', count_pos (trace debug p' n) step g' i' = count_pos (trace debug p n) step g' i') /\
    name m1 = name m0 /\ enabled m1 = enabled m0 /\
    (forall x, kw_lookup (o_key ov) (args m0) = Some x -> get_in (o_path ov) x <> None ->
       exists y, kw_lookup (o_key ov) (args m1) = Some y /\ get_in (o_path ov) y = Some (o_value ov)) /\
    (forall k', k' <> o_key ov -> kw_lookup k' (args m1) = kw_lookup k' (args m0)).
Proof.
  intros inplace st pre o ov mid m n post p ms i m0 Hp W Hg Hf Hi p' m1.
  destruct (override_effect p ov ms i m0 Hg Hf Hi) as (A & B & C & D & E & _ & F & G).
  split; [apply setarg_then_run; assumption|]. split.
  - eexists. split; [exact A|]. rewrite nth_error_upd_nth_same, Hi. reflexivity.
  - split; [exact B|]. split.
    + intros debug step g' i'. rewrite !C01_exactly_once. fold p'. rewrite C. reflexivity.
    + repeat split; assumption.
Qed.
Print Assumptions C01_history_setarg.

(* a copy (deep copy of the pipeline or of its processor, pickle round trip) is a NEW object with the
   configuration of its source; whatever is then done to one of the two never shows in the other *)
Theorem C01_history_copy_isolated :
  forall inplace st o k p ops,
    nth_error st o = Some p ->
    let st' := apply_op inplace st (OCopy o k) in
    nth_error st' (List.length st) = Some p /\
    ((forall x, In x ops -> writes inplace x o = false) ->
     nth_error (exec_ops inplace st' ops) o = Some p) /\
    ((forall x, In x ops -> writes inplace x (List.length st) = false) ->
     nth_error (exec_ops inplace st' ops) (List.length st) = Some p).
Proof.
  intros inplace st o k p ops H st'. split.
  - apply (copy_appends inplace st o k p H).
  - apply (copy_isolated inplace st o k p ops H).
Qed.
Print Assumptions C01_history_copy_isolated.

(* observation and calibration run copies: they never change any pipeline object; an exposure changes
   its object only through a model that changes its own arguments in place *)
Theorem C01_history_runs_leave_configuration :
  (forall inplace st o m n, (forall d, m <> Exposure d) -> apply_op inplace st (ORun o m n) = st) /\
  (forall inplace st o d n p,
     nth_error st o = Some p -> no_grow p -> apply_op inplace st (ORun o (Exposure d) n) = st) /\
  (forall p, no_grow p -> freeze p = p /\ forall n, age n p = p).
Proof.
  split; [exact run_copies_leave_store|]. split; [exact run_exposure_no_grow|].
  intros p H. split; [apply freeze_no_grow; exact H|intro n; apply age_no_grow; exact H].
Qed.
Print Assumptions C01_history_runs_leave_configuration.

(* what a "no violation" verdict on a history means: every run completed, and the calls recorded in
   each exposure / observation run are literally the projection of the trace of the configuration
   its object had when the run started *)
Theorem C01_history_judgement_sound :
  forall c p,
    from_yaml (h_doc c) = Ok p -> hspec_ok c = true ->
    Forall2 (fun r o => run_matches spec_run
               {| r_obj := 0; r_cfg := r_cfg r; r_mode := r_mode r; r_steps := r_steps r |} o)
            (hist_runs true [p] (h_ops c)) (h_observed c) \/
    Forall2 (fun r o => run_matches frozen_run
               {| r_obj := 0; r_cfg := r_cfg r; r_mode := r_mode r; r_steps := r_steps r |} o)
            (hist_runs false [p] (h_ops c)) (h_observed c).
Proof. exact hist_judgement_sound. Qed.
Print Assumptions C01_history_judgement_sound.

(* Run level (the returned result, not only the calls): an exposure completes for EVERY pipeline with
   debug capture on or off, makes the calls of the run without debug, and with debug on captures each
   of them — none when no model at all executes (no group, or everything disabled; the defect
   C01-debug-empty-run, repaired: the result assembly used to read a tree that did not exist). *)
Theorem C01_debug_runs :
  forall p n debug,
    exposure_result debug physical p n =
    Ok (trace false p n, if debug then captures_of (trace false p n) else []).
Proof. intros. apply exposure_runs. Qed.
Print Assumptions C01_debug_runs.

(* the source side of the two repaired defects: every read of `detector.intermediate` in
   exposure.run_pipeline is guarded by a test of `_intermediate`, and ModelGroup.__setstate__ restores
   every attribute that __init__ sets (a pipeline that went through pickle can run: C01-pickled-group-run) *)
Theorem C01_src_repairs :
  forallb (String.eqb "guarded") src_intermediate_reads = true /\
  forallb (fun a => existsb (String.eqb a) src_group_setstate_attrs) src_group_init_attrs = true.
Proof. split; reflexivity. Qed.
Print Assumptions C01_src_repairs.

(* ---------- non-vacuity: concrete instances of the hypotheses and of the model ---------- *)

Definition m_ (n : string) (e : bool) (a : kwargs) : mfun := {| name := n; enabled := e; grows := false; args := a |}.

Definition ex_a : doc :=
  [("data_processing", Some [m_ "d0" true [("k", VList [VInt 1; VStr "x"])]]);
   ("charge_transfer", Some [])]%string.
Definition ex_b : doc :=
  [("phasing", Some [m_ "p0" false []; m_ "p1" true [("a", VInt 7)]; m_ "p0" true []]);
   ("signal_transfer", None)]%string.
Definition ex_doc : doc := ex_a ++ ex_b.
Definition ex_doc' : doc := ex_b ++ ex_a.

Definition ex_p : pipeline := mk_pipeline (kw_of_doc ex_doc).

Example ex_loads : from_yaml ex_doc = Ok ex_p /\ get ex_p ChargeTransfer = None.
Proof. split; reflexivity. Qed.

(* two steps: phasing (positions 1 and 2; position 0 is disabled, and shares its name with position
   2) before data_processing, although the document lists data_processing first *)
Example ex_trace :
  map (fun c => (c_step c, c_group c, c_pos c, c_name c)) (trace true ex_p 2) =
  [(0, Phasing, 1, "p1"); (0, Phasing, 2, "p0"); (0, DataProcessing, 0, "d0");
   (1, Phasing, 1, "p1"); (1, Phasing, 2, "p0"); (1, DataProcessing, 0, "d0")]%string.
Proof. vm_compute. reflexivity. Qed.

Example ex_counts :
  count_pos (trace false ex_p 2) 1 Phasing 2 = 1 /\ count_pos (trace false ex_p 2) 1 Phasing 0 = 0 /\
  count_pos (trace false ex_p 2) 2 Phasing 2 = 0 /\ count_pos (trace false ex_p 2) 0 ChargeTransfer 0 = 0 /\
  executes ex_p 2 1 Phasing 2 = true.
Proof. vm_compute. repeat split; reflexivity. Qed.

Example ex_perm_hyps : Permutation ex_doc ex_doc' /\ NoDup (map fst ex_doc) /\ ex_doc <> ex_doc'.
Proof.
  split; [apply Permutation_app_comm|]. split; [|discriminate].
  simpl. repeat constructor; simpl; intuition discriminate.
Qed.

(* the formerly failing input: no group at all, one readout, debug on *)
Example ex_debug_empty :
  exposure_result true physical (mk_pipeline (fun _ => None)) 1 = Ok ([], []) /\
  exists t, exposure_result true physical ex_p 2 = Ok (t, captures_of t) /\ t <> [].
Proof.
  split; [reflexivity|]. exists (trace false ex_p 2). split; [apply C01_debug_runs|vm_compute; discriminate].
Qed.

Example ex_unknown_key : from_yaml [("photon_generation", None)]%string = Raise "TypeError".
Proof. reflexivity. Qed.

Example ex_python_hyp :
  forall g, kw_of_doc ex_doc g <> None -> In g [DataProcessing; ChargeTransfer; Phasing; SignalTransfer].
Proof. intros g H. destruct g; simpl; try tauto; exfalso; apply H; reflexivity. Qed.

(* a history: run, switch p0 (position 0 of phasing) on and d0 off, run again; then a copy is changed
   and both objects run: every run is judged against the configuration of its object at that time *)
Definition ex_hist : list op :=
  [ORun 0 (Exposure false) 1;
   OSetEnabled 0 Phasing 0 true; OSetEnabled 0 DataProcessing 0 false;
   ORun 0 (Exposure true) 1;
   OCopy 0 CDeep; OSetEnabled 1 Phasing 1 false;
   ORun 0 (Exposure false) 1; ORun 1 (Exposure false) 1].

Example ex_hist_runs :
  map (fun r => (r_obj r, map (fun c => (c_group c, c_pos c)) (trace false (r_cfg r) (r_steps r))))
      (hist_runs true [ex_p] ex_hist) =
  [(0, [(Phasing, 1); (Phasing, 2); (DataProcessing, 0)]);
   (0, [(Phasing, 0); (Phasing, 1); (Phasing, 2)]);
   (0, [(Phasing, 0); (Phasing, 1); (Phasing, 2)]);
   (1, [(Phasing, 0); (Phasing, 2)])].
Proof. vm_compute. reflexivity. Qed.

(* a growing model: what it receives at steps 0, 1, 2 of one run, and the object after the run *)
Definition ex_grow : pipeline :=
  mk_pipeline (fun g => match g with
                        | ChargeGeneration =>
                            Some [{| name := "frames"; enabled := true; grows := true;
                                     args := [("q", VList [VStr "a"]); ("opt", VDict [VList [VStr "lst"; VList []]])] |}]
                        | _ => None end)%string.

Example ex_grow_trace :
  map c_args (trace false ex_grow 3) =
  [[("q", VList [VStr "a"]); ("opt", VDict [VList [VStr "lst"; VList []]])];
   [("q", VList [VStr "a"; VInt 1]); ("opt", VDict [VList [VStr "lst"; VList [VInt 0]]])];
   [("q", VList [VStr "a"; VInt 1; VInt 2]); ("opt", VDict [VList [VStr "lst"; VList [VInt 0; VInt 1]]])]]%string /\
  age 3 ex_grow <> ex_grow /\ freeze (age 3 ex_grow) <> freeze ex_grow /\
  snd (exec_readouts physical ex_grow 3) = age 3 ex_grow.
Proof. split; [vm_compute; reflexivity|]. split; [discriminate|]. split; [discriminate|vm_compute; reflexivity]. Qed.

(* an override addressing inside a dict inside a list inside a dict *)
Example ex_set_in :
  set_in [PKey "lst"; PIdx 1; PKey "n"] (VInt 7)
         (VDict [VList [VStr "level"; VInt 10]; VList [VStr "lst"; VList [VInt 1; VDict [VList [VStr "n"; VInt 2]]]]]) =
  VDict [VList [VStr "level"; VInt 10]; VList [VStr "lst"; VList [VInt 1; VDict [VList [VStr "n"; VInt 7]]]]]%string.
Proof. vm_compute. reflexivity. Qed.

Example ex_toggle_hyps :
  exists ms m0, nth_error (exec_ops true [ex_p] [ORun 0 (Exposure false) 1]) 0 = Some ex_p /\
                get ex_p Phasing = Some ms /\ nth_error ms 0 = Some m0 /\ enabled m0 = false.
Proof. eexists. eexists. repeat split; reflexivity. Qed.

(* hypotheses of C01_history_setarg: an existing path inside a dict-valued argument *)
Definition ex_light : pipeline :=
  mk_pipeline (fun g => match g with
                        | PhotonCollection =>
                            Some [m_ "light" true [("a", VInt 3);
                                                   ("opt", VDict [VList [VStr "level"; VInt 10];
                                                                  VList [VStr "lst"; VList [VInt 1; VDict [VList [VStr "n"; VInt 2]]]]])]]
                        | _ => None end)%string.
Definition ex_ov : override :=
  {| o_group := PhotonCollection; o_model := "light"; o_key := "opt";
     o_path := [PKey "lst"; PIdx 1; PKey "n"]; o_value := VInt 7 |}%string.

Example ex_setarg_hyps :
  exists ms m0 x, get ex_light PhotonCollection = Some ms /\ first_named "light" ms = Some 0 /\
                  nth_error ms 0 = Some m0 /\ kw_lookup "opt" (args m0) = Some x /\
                  get_in (o_path ex_ov) x = Some (VInt 2) /\
                  map c_args (trace false (apply_override ex_light ex_ov) 1) =
                  [[("a", VInt 3);
                    ("opt", VDict [VList [VStr "level"; VInt 10];
                                   VList [VStr "lst"; VList [VInt 1; VDict [VList [VStr "n"; VInt 7]]]]])]]%string.
Proof. do 3 eexists. repeat split; vm_compute; reflexivity. Qed.
