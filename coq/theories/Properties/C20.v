(* C20 — input files are read and placed on the detector faithfully.
   Only statements here; proofs live in Proofs/Placement*.v.  Gen_C20 is regenerated on every run from
   pyxel/util/image.py (Alignment, _set_relative_position, the decorator and parameter list of
   load_cropped_and_aligned_image), pyxel/inputs/loader.py (the separators load_image tries), everything in these
   files that could keep state between two calls, and the call sites of the two loading models. *)
From Coq Require Import ZArith List Bool Lia ZifyBool String.
From PyxelV Require Import Model.Placement Model.Memo Model.Delim.
From PyxelV Require Import Proofs.Placement Proofs.PlacementMemo Proofs.PlacementDelim.
From PyxelGen Require Import Gen_C20.
Import ListNotations.
Open Scope Z_scope.
Ltac Zify.zify_post_hook ::= Z.to_euclidean_division_equations.

(* ------------------------------------------------------------------ alignment keywords *)

(* the integer expressions of _set_relative_position (as the source has them now) mean what the
   documentation says: bottom/top/left/right edges coincide, centre = half the difference toward 0 *)
Theorem C20_alignment :
  forall kw ax ay ox oy,
    src_align kw ax ay ox oy = doc_align kw ax ay ox oy /\
    align_meets kw ax ay ox oy (src_align kw ax ay ox oy).
Proof.
  intros kw ax ay ox oy.
  assert (E : src_align kw ax ay ox oy = doc_align kw ax ay ox oy).
  { destruct kw; unfold src_align, doc_align; f_equal; lia. }
  split; [exact E|]. rewrite E. apply doc_align_meets.
Qed.
Print Assumptions C20_alignment.

(* exactly the five documented keyword strings are accepted, each with its documented meaning *)
Theorem C20_keywords : forall s, lookup_kw src_align_names s = lookup_kw doc_names s.
Proof.
  intros s. cbn [lookup_kw src_align_names doc_names].
  repeat match goal with
         | |- context [String.eqb ?a s] => destruct (String.eqb_spec a s); subst
         end; try reflexivity; try congruence.
Qed.
Print Assumptions C20_keywords.

(* ------------------------------------------------------------------ placement *)

(* For ALL input shapes and contents, detector shapes, offsets (negative, zero, beyond), alignment
   keywords and both settings of allow_smaller_array, fit_into_array as coded:
   - refuses (ValueError) an input smaller than the detector when smaller inputs are disallowed;
   - refuses an unknown keyword;
   - otherwise refuses iff no detector pixel is reached by the input (overlaps = false);
   - otherwise returns a detector-shaped array with out[i][j] = in[i - py][j - px] where the input
     reaches and 0 elsewhere ((py, px) = the given offset or the keyword's position). *)
Theorem C20_placement :
  forall ay ax a oy ox pos align allow,
    wf_matb ay ax a = true -> 0 <= oy -> 0 <= ox ->
    let r := fit_into_array src_align src_align_names ay ax a oy ox pos align allow in
    if negb allow && ((ay <? oy) || (ax <? ox)) then r = FitErr TooSmall else
    match resolve_position src_align src_align_names ay ax oy ox pos align with
    | None => r = FitErr BadAlign
    | Some (py, px) =>
        if overlaps ay ax oy ox py px
        then exists out, r = FitOk out /\ wf_matb oy ox out = true /\
               forall i j, 0 <= i < oy -> 0 <= j < ox ->
                 getZ out i j = if (0 <=? i - py) && (i - py <? ay) && (0 <=? j - px) && (j - px <? ax)
                                then getZ a (i - py) (j - px) else 0
        else r = FitErr NoOverlap
    end.
Proof. exact (fit_correct src_align src_align_names). Qed.
Print Assumptions C20_placement.

(* `overlaps` is exactly "some detector pixel receives an input pixel" *)
Theorem C20_overlap_meaning :
  forall ay ax oy ox py px,
    overlaps ay ax oy ox py px = true <->
    exists i j, 0 <= i < oy /\ 0 <= j < ox /\ 0 <= i - py < ay /\ 0 <= j - px < ax.
Proof. exact overlaps_iff. Qed.
Print Assumptions C20_overlap_meaning.

(* the executable specification used by the check to judge the implementation's outputs
   (Model.Placement.spec_fit: documented keyword meaning + pixel-by-pixel tabulation) is what the
   model computes *)
Theorem C20_placement_is_spec :
  forall ay ax a oy ox pos align allow,
    wf_matb ay ax a = true -> 0 <= oy -> 0 <= ox ->
    match fit_into_array src_align src_align_names ay ax a oy ox pos align allow with
    | FitOk out => spec_fit ay ax a oy ox pos align allow = Some out
    | FitErr _ => spec_fit ay ax a oy ox pos align allow = None
    end.
Proof.
  intros. apply fit_meets_spec; try assumption.
  - intros. apply C20_alignment.
  - apply C20_keywords.
Qed.
Print Assumptions C20_placement_is_spec.

(* non-vacuity: a 2 x 3 input on a 3 x 3 detector at offset (-1, 1): cropped below, zero-filled *)
Example C20_placement_example :
  fit_into_array src_align src_align_names 2 3 [[1; 2; 3]; [4; 5; 6]] 3 3 (-1, 1) None true
  = FitOk [[0; 4; 5]; [0; 0; 0]; [0; 0; 0]]
  /\ wf_matb 2 3 [[1; 2; 3]; [4; 5; 6]] = true /\ overlaps 2 3 3 3 (-1) 1 = true.
Proof. vm_compute. auto. Qed.

Example C20_center_example :
  fit_into_array src_align src_align_names 1 1 [[7]] 2 4 (0, 0) (Some "center"%string) true
  = FitOk [[0; 7; 0; 0]; [0; 0; 0; 0]]
  /\ fit_into_array src_align src_align_names 1 1 [[7]] 2 2 (2, 0) None true = FitErr NoOverlap
  /\ fit_into_array src_align src_align_names 1 1 [[7]] 2 2 (0, 0) None false = FitErr TooSmall.
Proof. vm_compute. auto. Qed.

(* ------------------------------------------------------------------ freshness of loaded content *)

(* nothing in the loading code keeps content from one call to the next: load_cropped_and_aligned_image is not
   memoised (any more: C20-F15, repaired), no function of pyxel/inputs/loader.py, pyxel/util/image.py and the two
   loading models carries a caching decorator, a mutable default or a function attribute, and no function stores
   into a module-level container — as the source says now *)
Theorem C20_loaders_keep_no_state : src_memoised = false /\ src_loader_state = [].
Proof. split; reflexivity. Qed.
Print Assumptions C20_loaders_keep_no_state.

(* FULL statement: in EVERY history of file writes and loads in one process — through the placing loader
   (Load) and through the direct loaders (LoadRaw) — every load returns what the file holds at that moment *)
Theorem C20_fresh_content :
  forall h, run (fit_of src_align src_align_names) src_memoised src_memo_maxsize src_memo_key mstate0 h
            = fresh_run (fit_of src_align src_align_names) [] h.
Proof. intros h. change src_memoised with false. apply unmemoised_fresh. Qed.
Print Assumptions C20_fresh_content.

(* ... and what it returns is what the SPECIFICATION of the placement says about that content: for every
   well-formed history (written arrays are rectangular, detector shapes have non-negative sides), the loads of the
   code as it is equal, one by one, the specified placement (spec_fit) of the file's current content *)
Theorem C20_loads_place_current_content :
  forall h, wf_history h = true ->
    run (fit_of src_align src_align_names) src_memoised src_memo_maxsize src_memo_key mstate0 h
    = fresh_run spec_fit_of [] h.
Proof.
  intros h W. rewrite C20_fresh_content. apply fresh_run_meets_spec; try assumption.
  - intros. apply C20_alignment.
  - apply C20_keywords.
  - intros p c [=].
Qed.
Print Assumptions C20_loads_place_current_content.

(* the two loading models ask for exactly the detector's (rows, cols), their own file, position = (y, x) and align
   parameters, accept smaller inputs, scale by time_step / time_scale (times multiplier for photons) and ADD the result
   to their bucket — as their call sites say now *)
Theorem C20_models_pass_arguments :
  forall rows cols file pos align,
    let want := {| q_shape := (rows, cols); q_file := file; q_px := snd pos; q_py := fst pos;
                   q_align := align; q_allow := true |} in
    model_request src_photon_call rows cols file pos align = want
    /\ model_request src_charge_call rows cols file pos align = want
    /\ (mc_file src_photon_call && mc_align src_photon_call && mc_adds src_photon_call
        && mc_file src_charge_call && mc_align src_charge_call && mc_adds src_charge_call = true)
    /\ mc_factor src_photon_call = (1, -1, 1) /\ mc_factor src_charge_call = (1, -1, 0).
Proof. intros rows cols file [py px] align. repeat split; reflexivity. Qed.
Print Assumptions C20_models_pass_arguments.

Definition stale_witness : list event :=
  let q := {| q_shape := (1, 1); q_file := "f.npy"%string; q_px := 0; q_py := 0;
              q_align := None; q_allow := true |} in
  [Write "f.npy"%string (1, 1, [[1]]); Load q; Write "f.npy"%string (1, 1, [[2]]); Load q].

(* why the memoisation had to go (and must not come back in this form): whatever fields of the ARGUMENTS form
   the key and whatever the cache size, a file rewritten between two identical requests is served stale *)
Theorem C20_memo_on_arguments_goes_stale :
  forall kf maxsize, (1 <= maxsize)%nat ->
    run (fit_of src_align src_align_names) true maxsize kf mstate0 stale_witness
    <> fresh_run (fit_of src_align src_align_names) [] stale_witness.
Proof.
  intros kf maxsize M.
  apply (memo_on_arguments_stale (fit_of src_align src_align_names) maxsize kf "f.npy"%string
           (1, 1, [[1]]) (1, 1, [[2]]) _ [[1]] [[2]] M); try reflexivity. discriminate.
Qed.
Print Assumptions C20_memo_on_arguments_goes_stale.

Example C20_fresh_content_nonvacuous :
  wf_history stale_witness = true
  /\ fresh_run spec_fit_of [] stale_witness = [Some [[1]]; Some [[2]]]
  /\ wf_history [Write "a.fits"%string (2, 1, [[3]; [4]]); LoadRaw "a.fits"%string;
                 Load {| q_shape := (1, 2); q_file := "a.fits"%string; q_px := 1; q_py := -1;
                         q_align := None; q_allow := true |}] = true
  /\ fresh_run spec_fit_of [] [Write "a.fits"%string (2, 1, [[3]; [4]]); LoadRaw "a.fits"%string;
                 Load {| q_shape := (1, 2); q_file := "a.fits"%string; q_px := 1; q_py := -1;
                         q_align := None; q_allow := true |}] = [Some [[3]; [4]]; Some [[0; 4]]].
Proof. vm_compute. auto. Qed.

(* ------------------------------------------------------------------ delimiter detection *)

(* every rectangular numeric table (>= 1 row, >= 1 column) written with any of the separators the
   source tries is read back unchanged: no earlier separator of the list "succeeds wrongly" *)
Theorem C20_delimiter :
  forall d t, In d src_delims -> rectangular t = true -> detect src_delims (render d t) = Some t.
Proof. intros. apply detect_render; assumption. Qed.
Print Assumptions C20_delimiter.

(* all five documented separators are tried *)
Theorem C20_delimiter_all_five : forall d, In d src_delims.
Proof. intros d. destruct d; vm_compute; tauto. Qed.
Print Assumptions C20_delimiter_all_five.

(* --- the separator decision (which separator wins for which texts), for the regenerated list *)

(* the decision never changes WHAT is read: a text accepted under any separator is read as the numbers of its
   non-blank lines, in order — the separators only decide WHETHER it is accepted *)
Theorem C20_delimiter_reads_the_numbers :
  forall ls t, detect src_delims ls = Some t -> t = numbers_of ls.
Proof. intros ls t. apply detect_numbers. Qed.
Print Assumptions C20_delimiter_reads_the_numbers.

(* priority: the first separator of the source's list under which the whole text parses decides *)
Theorem C20_delimiter_priority :
  forall ls, detect src_delims ls = match winner src_delims ls with Some d => try_parse d ls | None => None end.
Proof. intros ls. apply detect_winner. Qed.
Print Assumptions C20_delimiter_priority.

(* ... and the order in which the separators are tried is irrelevant to the result (any list with the same
   members gives the same answer on every text) *)
Theorem C20_delimiter_order_irrelevant :
  forall order ls, (forall d, In d order <-> In d src_delims) -> detect order ls = detect src_delims ls.
Proof. intros order ls H. apply detect_order_irrelevant. exact H. Qed.
Print Assumptions C20_delimiter_order_irrelevant.

(* what a separator d needs to accept a line: d occurs exactly (columns - 1) times, every other separator
   character of the line is a blank, and the row read is the line's numbers *)
Theorem C20_delimiter_accepts_only :
  forall d l row, parse_line d l = Some row ->
    S (count_sep d l) = List.length row /\ others_blank d l = true /\ row = nums_of l.
Proof.
  intros d l row H. destruct (parse_line_needs d l row H) as [A B].
  repeat split; try assumption. apply (parse_line_nums d l row H).
Qed.
Print Assumptions C20_delimiter_accepts_only.

(* regular texts — the same run of separator characters (a "gap": ", " or " | " or tab + blank ...) between every
   two neighbours: a rectangular table is read back unchanged iff some separator of the list reads the gap (occurs
   once in it, the rest blanks); with two or more columns it is refused otherwise *)
Theorem C20_delimiter_gap :
  forall g t, rectangular t = true -> existsb (fun d => gap_ok d g) src_delims = true ->
    detect src_delims (render_gap g t) = Some t.
Proof.
  intros g t R E. apply existsb_exists in E. destruct E as [d [Hin G]]. apply (detect_gap src_delims g t d Hin G R).
Qed.
Print Assumptions C20_delimiter_gap.

Theorem C20_delimiter_gap_refused :
  forall g x y r t, existsb (fun d => gap_ok d g) src_delims = false ->
    detect src_delims (render_gap g ((x :: y :: r) :: t)) = None.
Proof.
  intros g x y r t E. apply detect_gap_refused. intros d Hin.
  destruct (gap_ok d g) eqn:G; [|reflexivity]. exfalso.
  assert (X : existsb (fun d => gap_ok d g) src_delims = true) by (apply existsb_exists; exists d; auto). congruence.
Qed.
Print Assumptions C20_delimiter_gap_refused.

(* the decision table for some gaps: ", " and " | " and tab + blank are read; two blanks, ",;" and ", ," are not *)
Example C20_delimiter_gap_table :
  map (fun g => filter (fun d => gap_ok d g) src_delims)
      [[DComma; DSpace]; [DSpace; DBar; DSpace]; [DTab; DSpace]; [DSpace; DSpace]; [DComma; DSemicolon];
       [DComma; DSpace; DComma]; [DSemicolon]]
  = [[DComma]; [DBar]; [DTab; DSpace]; []; []; []; [DSemicolon]]
  /\ detect src_delims (render_gap [DComma; DSpace] [[1; 2]; [3; 4]]) = Some [[1; 2]; [3; 4]]
  /\ detect src_delims (render_gap [DSpace; DSpace] [[1; 2]; [3; 4]]) = None
  /\ winner src_delims (render_gap [DTab; DSpace] [[1; 2]]) = Some DTab.
Proof. vm_compute. auto. Qed.

Example C20_delimiter_example :
  detect src_delims (render DBar [[1; -2]; [3; 4]]) = Some [[1; -2]; [3; 4]]
  /\ rectangular [[1; -2]; [3; 4]] = true.
Proof. vm_compute. auto. Qed.
