(* C04 — seeded runs are bit-reproducible and seeding never leaks.
   Only statements here; proofs live in Proofs/Rng.v.  Gen_C04 is regenerated on every run from
   pyxel/util/randomize.py, exposure.py, observation*.py, calibration/*.py and pyxel/models/**.
   Every statement quantifies over ALL generators (type of states, type of values, seeding function,
   transition function per kind of draw), all seeds, all bodies, all prior generator states. *)
From Coq Require Import ZArith List Bool String Permutation.
From PyxelV Require Import Model.Rng Proofs.Rng.
From PyxelGen Require Import Gen_C04.
Import ListNotations.
Open Scope Z_scope.

(* set_random_seed, as read from the source: saves before seeding, reseeds, restores in `finally` *)
Theorem C04_bracket_as_coded : cfg_ok src_srs_cfg = true.
Proof. vm_compute. reflexivity. Qed.
Print Assumptions C04_bracket_as_coded.

(* after `with set_random_seed(s): p` the generator is exactly what it was, however p ends *)
Theorem C04_restores :
  forall gen val seed_gen next swap (s : Z) (p : prog) (g : gen),
    gen_after gen val seed_gen next src_srs_cfg swap (Seeded (Some s) p) g = g.
Proof. intros. apply restores. exact C04_bracket_as_coded. Qed.
Print Assumptions C04_restores.

Theorem C04_restores_when_raising :
  forall gen val seed_gen next swap (s : Z) (p : prog) (g : gen),
    result gen val seed_gen next src_srs_cfg swap p (seed_gen s) = Raised ->
    gen_after gen val seed_gen next src_srs_cfg swap (Seeded (Some s) p) g = g /\
    result gen val seed_gen next src_srs_cfg swap (Seeded (Some s) p) g = Raised.
Proof. intros. apply restores_when_raising; [exact C04_bracket_as_coded | assumption]. Qed.
Print Assumptions C04_restores_when_raising.

(* non-vacuity: a body that draws and then raises, on the free generator, from a non-trivial state *)
Example C04_restores_when_raising_witness :
  result fgen fgen fseed fnext src_srs_cfg no_swap (Seq (Draw 0) Raise) (fseed 5) = Raised /\
  gen_after fgen fgen fseed fnext src_srs_cfg no_swap (Seeded (Some 5) (Seq (Draw 0) Raise)) (OInit 3, [1; 2])
  = (OInit 3, [1; 2]).
Proof. vm_compute. split; reflexivity. Qed.

(* drawn values, probed states and the outcome of a seeded block do not depend on the prior state *)
Theorem C04_deterministic :
  forall gen val seed_gen next swap (s : Z) (p : prog) (g1 g2 : gen),
    visible gen val seed_gen next src_srs_cfg swap (Seeded (Some s) p) g1 =
    visible gen val seed_gen next src_srs_cfg swap (Seeded (Some s) p) g2.
Proof. intros. apply deterministic. exact C04_bracket_as_coded. Qed.
Print Assumptions C04_deterministic.

(* a model-level bracket inside the pipeline-level bracket preserves both streams *)
Theorem C04_nested :
  forall gen val seed_gen next swap (s s' : Z) (p q r : prog) (g : gen),
    let ga := gen_after gen val seed_gen next src_srs_cfg swap in
    let ev := events gen val seed_gen next src_srs_cfg swap in
    let rs := result gen val seed_gen next src_srs_cfg swap in
    let outer := Seeded (Some s) (Seq p (Seq (Seeded (Some s') q) r)) in
    ga outer g = g /\
    (rs p (seed_gen s) = Done ->
     (rs q (seed_gen s') = Done ->
      ev outer g = ev p (seed_gen s) ++ ev q (seed_gen s') ++ ev r (ga p (seed_gen s)) /\
      rs outer g = rs r (ga p (seed_gen s))) /\
     (rs q (seed_gen s') = Raised ->
      ev outer g = ev p (seed_gen s) ++ ev q (seed_gen s') /\ rs outer g = Raised)).
Proof. intros. apply nested. exact C04_bracket_as_coded. Qed.
Print Assumptions C04_nested.

Example C04_nested_witness :
  events fgen fgen fseed fnext src_srs_cfg no_swap
    (Seeded (Some 1) (Seq (Draw 0) (Seq (Seeded (Some 2) (Draw 5)) (Seq (Draw 0) Observe)))) g_init
  = [EvDraw (OSeed 1, [0]); EvDraw (OSeed 2, [5]); EvDraw (OSeed 1, [0; 0]); EvState (OSeed 1, [0; 0])].
Proof. vm_compute. reflexivity. Qed.

(* seed None: the bracket is invisible *)
Theorem C04_unseeded_transparent :
  forall gen val seed_gen next swap (p : prog) (g : gen),
    exec gen val seed_gen next src_srs_cfg swap (Seeded None p) g = exec gen val seed_gen next src_srs_cfg swap p g.
Proof. intros. apply unseeded_transparent. Qed.
Print Assumptions C04_unseeded_transparent.

(* any program whose every draw / probe sits under a bracket with an actual seed (a model given its
   own seed, anywhere, in any mode): independent of the prior state, and the state is restored *)
Theorem C04_self_seeded_reproducible :
  forall p, self_seeded p = true -> reproducible_and_restored src_srs_cfg p.
Proof. intros. apply self_seeded_reproducible; [exact C04_bracket_as_coded | assumption]. Qed.
Print Assumptions C04_self_seeded_reproducible.

(* ---- what the bracket guarantees: ONE thread of control over the process-wide generator ---- *)

(* All theorems above run a program by one thread.  Seen from the generator that means: brackets are
   entered and left in LIFO order.  Stated on its own, for ANY trace of enter/exit operations by ANY
   number of threads (each exit restores what that thread's bracket saved): if the order is LIFO the
   generator ends where it started. *)
Theorem C04_one_thread_of_control :
  forall (gen : Type) (seed_gen : Z -> gen) (tr : list bstep) (g : gen),
    lifo tr = true -> run_steps gen seed_gen tr g [] = (g, []).
Proof. intros. apply lifo_restores. assumption. Qed.
Print Assumptions C04_one_thread_of_control.

(* every program of the model produces such a trace (this is what the correspondence compares with the
   np.random.seed / set_state calls really observed, seeds included) *)
Theorem C04_programs_are_lifo : forall p, lifo (btrace p) = true.
Proof. exact btrace_lifo. Qed.
Print Assumptions C04_programs_are_lifo.

(* and the hypothesis is needed: two threads whose brackets overlap without nesting leave the generator
   in the first one's seeded stream.  Thread interleavings are the subject of C07; here the harness
   only CHECKS (in Coq, on every observed trace) that the runs it judges were LIFO. *)
Theorem C04_interleaved_brackets_leak :
  let tr := [BEnter 1 1; BEnter 2 2; BExit 1; BExit 2] in
  lifo tr = false /\ fst (run_steps fgen fseed tr g_init []) = fseed 1 /\ fseed 1 <> g_init.
Proof. exact interleaved_brackets_leak. Qed.
Print Assumptions C04_interleaved_brackets_leak.

Example C04_trace_witness :
  btrace (mode_prog MExposure true (Some 0) [Seq (Draw 1) (Seeded (Some 7) (Draw 2)); Draw 3])
  = [BEnter 0 0; BEnter 0 7; BExit 0; BExit 0] /\
  lifo [BEnter 3 0; BEnter 3 7; BExit 3; BEnter 4 9; BExit 4; BExit 3] = true.
Proof. vm_compute. split; reflexivity. Qed.

(* ---- from one interpreter process to another (PYTHONHASHSEED) ---- *)

(* if, in addition, no part of the program runs in an order the process chooses (iteration over a set /
   a dict-keys set operation), two different PROCESSES - any two hash orders - see the same thing *)
Theorem C04_reproducible_across_processes :
  forall p, self_seeded p = true -> hash_stable p = true -> reproducible_across_processes src_srs_cfg p.
Proof. intros. apply self_seeded_stable_across_processes; [exact C04_bracket_as_coded | assumption | assumption]. Qed.
Print Assumptions C04_reproducible_across_processes.

(* and the condition is needed: a seeded block that draws while iterating over a hash-ordered collection
   still restores the generator and is reproducible INSIDE one process, but not across processes *)
Theorem C04_unordered_iteration_not_reproducible :
  let p := Seeded (Some 5) (Unord 0 (Draw 0) (Draw 1)) in
  ~ reproducible_across_processes src_srs_cfg p /\ reproducible_and_restored src_srs_cfg p.
Proof. apply unordered_not_reproducible. exact C04_bracket_as_coded. Qed.
Print Assumptions C04_unordered_iteration_not_reproducible.

(* the running modes add no process-chosen order of their own *)
Theorem C04_modes_reproducible_across_processes :
  forall m s bodies, forallb hash_stable bodies = true ->
    reproducible_across_processes src_srs_cfg (mode_prog m true (Some s) bodies).
Proof. intros. apply mode_reproducible_across_processes; [exact C04_bracket_as_coded | assumption]. Qed.
Print Assumptions C04_modes_reproducible_across_processes.

Example C04_across_processes_witness :
  self_seeded (mode_prog MObservation true (Some 0) [Seq (Draw 3) Observe; Draw 4]) = true /\
  hash_stable (mode_prog MObservation true (Some 0) [Seq (Draw 3) Observe; Draw 4]) = true /\
  visible fgen fgen fseed fnext src_srs_cfg (fswap 0) (Seeded (Some 5) (Unord 0 (Draw 0) (Draw 1))) g_init <>
  visible fgen fgen fseed fnext src_srs_cfg (fswap 1) (Seeded (Some 5) (Unord 0 (Draw 0) (Draw 1))) g_init.
Proof. vm_compute. repeat split; try reflexivity. discriminate. Qed.

(* ---- the running modes, with the seed each one ACTUALLY forwards (src_links, regenerated) ---- *)

Theorem C04_mode_reproducible_exposure :
  mode_reproducible src_srs_cfg (forwards_of src_links "exposure") MExposure.
Proof. apply mode_reproducible_fw; [exact C04_bracket_as_coded | vm_compute; reflexivity]. Qed.
Print Assumptions C04_mode_reproducible_exposure.

Theorem C04_mode_reproducible_observation :
  mode_reproducible src_srs_cfg (forwards_of src_links "observation") MObservation.
Proof. apply mode_reproducible_fw; [exact C04_bracket_as_coded | vm_compute; reflexivity]. Qed.
Print Assumptions C04_mode_reproducible_observation.

Theorem C04_mode_reproducible_observation_dask :
  mode_reproducible src_srs_cfg (forwards_of src_links "observation_dask") MObservationDask.
Proof. apply mode_reproducible_fw; [exact C04_bracket_as_coded | vm_compute; reflexivity]. Qed.
Print Assumptions C04_mode_reproducible_observation_dask.

(* ---- every way a seed reaches a run: constructor, YAML builder, attribute setter, override key ---- *)

(* whatever the door (any entry name) and whatever the seed - 0 and 2^32-1 included, and "no seed" -
   what arrives at set_random_seed is exactly what was given *)
Theorem C04_seed_arrives_exposure :
  forall e s, seed_through src_links "exposure" e s = s.
Proof. apply forwards_seed_through. vm_compute. reflexivity. Qed.
Print Assumptions C04_seed_arrives_exposure.

Theorem C04_seed_arrives_observation :
  forall e s, seed_through src_links "observation" e s = s /\ seed_through src_links "observation_dask" e s = s.
Proof. intros; split; apply forwards_seed_through; vm_compute; reflexivity. Qed.
Print Assumptions C04_seed_arrives_observation.

Example C04_seed_entries_nonvacuous :
  forallb (fun e => existsb (fun r => on_path "exposure" e r && negb (String.eqb (link_entry r) "")) src_links)
          ["ctor"; "yaml"; "setter"; "override"]%string = true /\
  seed_through src_links "exposure" "override" (Some 0) = Some 0.
Proof. vm_compute. split; reflexivity. Qed.

(* no seed is ever tested for truthiness (`if seed`, `seed or ..`, `.. if seed else ..`, `if value` in a
   seed setter) in the running modes, run.py, the configuration builders or any model function *)
Theorem C04_no_seed_truthiness : src_seed_truthiness = [].
Proof. vm_compute. reflexivity. Qed.
Print Assumptions C04_no_seed_truthiness.

(* why such a test matters: it loses exactly the legal seed 0, and then the run configured with seed 0
   is the unseeded run, which is not reproducible *)
Theorem C04_truthiness_loses_zero :
  (forall s, apply_xfer XTruthy (Some s) = (if s =? 0 then None else Some s)) /\
  (forall m, ~ (forall bodies,
        reproducible_and_restored src_srs_cfg (mode_prog m true (apply_xfer XTruthy (Some 0)) bodies))).
Proof. split; [apply truthy_loses_only_zero | apply truthy_link_not_reproducible]. Qed.
Print Assumptions C04_truthiness_loses_zero.

(* calibration (C04-F1 repaired: run_calibration hands pipeline_seed to ModelFittingDataTree): every
   fitness evaluation and every champion re-run sits inside the bracket with the seed that was given *)
Theorem C04_mode_reproducible_calibration :
  mode_reproducible src_srs_cfg (forwards_of src_links "calibration") MCalibration.
Proof. apply mode_reproducible_fw; [exact C04_bracket_as_coded | vm_compute; reflexivity]. Qed.
Print Assumptions C04_mode_reproducible_calibration.

Theorem C04_seed_arrives_calibration :
  forall e s, seed_through src_links "calibration" e s = s.
Proof. apply forwards_seed_through. vm_compute. reflexivity. Qed.
Print Assumptions C04_seed_arrives_calibration.

Example C04_calibration_witness :
  self_seeded (mode_prog MCalibration (forwards_of src_links "calibration") (Some 0) [Draw 1; Seq Observe (Draw 2)]) = true /\
  seed_through src_links "calibration" "setter" (Some 0) = Some 0.
Proof. vm_compute. split; reflexivity. Qed.

(* independently of any pipeline seed: a run (any mode, seed forwarded or not, seed given or not) whose
   stochastic models all carry their own seed is reproducible and leaves the generator alone *)
Theorem C04_self_seeded_bodies_reproducible :
  forall m fw seed bodies, forallb self_seeded bodies = true ->
    reproducible_and_restored src_srs_cfg (mode_prog m fw seed bodies).
Proof. intros. apply mode_reproducible_self_seeded_bodies; [exact C04_bracket_as_coded | assumption]. Qed.
Print Assumptions C04_self_seeded_bodies_reproducible.

(* the optimiser seed reaches pygmo's global generator and the archipelago (plumbing only; pygmo's
   generator itself is outside the model) *)
Theorem C04_pygmo_seed_forwarded : forwards_of src_links "calibration_pygmo" = true.
Proof. vm_compute. reflexivity. Qed.
Print Assumptions C04_pygmo_seed_forwarded.

(* ArchipelagoDataTree._build, both branches (table regenerated): the islands are pushed in SUBMISSION
   order, so island i has seed i whatever order the island-creating threads finish in *)
Theorem C04_islands_get_their_seed :
  forall r, In r src_island_build -> forall seeds order,
    Permutation order (seq 0 (List.length seeds)) -> islands (snd r) seeds order = seeds.
Proof. apply build_table_order_independent. vm_compute. reflexivity. Qed.
Print Assumptions C04_islands_get_their_seed.

Theorem C04_island_branches_read :
  build_of src_island_build "parallel" = BMap /\ build_of src_island_build "sequential" = BMap.
Proof. vm_compute. split; reflexivity. Qed.
Print Assumptions C04_island_branches_read.

(* why the construction matters: pushing the islands as they complete makes the archipelago a function
   of thread timing (it IS the completion order); it is right only if the tasks happen to finish in order *)
Theorem C04_as_completed_depends_on_order :
  (forall seeds order, islands BAsCompleted seeds order = map (fun i => nth i seeds (-1)) order) /\
  (forall seeds, islands BAsCompleted seeds (seq 0 (List.length seeds)) = seeds) /\
  (exists seeds o1 o2, Permutation o1 (seq 0 (List.length seeds)) /\ Permutation o2 (seq 0 (List.length seeds)) /\
     islands BAsCompleted seeds o1 <> islands BAsCompleted seeds o2).
Proof.
  split; [apply islands_as_completed|]. split; [apply islands_as_completed_in_order|].
  apply islands_as_completed_depends_on_order.
Qed.
Print Assumptions C04_as_completed_depends_on_order.

Example C04_islands_witness :
  islands (build_of src_island_build "parallel") [11; 22; 33] [2; 0; 1]%nat = [11; 22; 33] /\
  islands BAsCompleted [11; 22; 33] [2; 0; 1]%nat = [33; 11; 22].
Proof. vm_compute. split; reflexivity. Qed.

(* ---- every model function with a `seed` parameter ---- *)

Theorem C04_models_bracketed : forallb bracketed src_seeded_models = true.
Proof. vm_compute. reflexivity. Qed.
Print Assumptions C04_models_bracketed.

Theorem C04_models_reproducible :
  forall r, In r src_seeded_models -> forall s k,
    reproducible_and_restored src_srs_cfg (model_prog r (Some s) k) /\
    bracket_seed r (Some s) = Some s /\
    (forall gen val seed_gen next swap g,
       exec gen val seed_gen next src_srs_cfg swap (model_prog r None k) g =
       exec gen val seed_gen next src_srs_cfg swap (inside_prog r k) g).
Proof.
  apply models_bracketed_reproducible; [exact C04_bracket_as_coded | exact C04_models_bracketed].
Qed.
Print Assumptions C04_models_reproducible.

Example C04_models_table_nonempty : (10 <=? Z.of_nat (List.length src_seeded_models)) = true
  /\ existsb (fun r => 0 <? m_inside r) src_seeded_models = true.
Proof. vm_compute. split; reflexivity. Qed.

(* no seeded model function (nor a helper it calls) iterates over a hash-ordered collection ... *)
Theorem C04_models_order_stable : forallb order_stable src_seeded_models = true.
Proof. vm_compute. reflexivity. Qed.
Print Assumptions C04_models_order_stable.

(* ... hence a model given its own seed returns the same thing in every interpreter process *)
Theorem C04_models_reproducible_across_processes :
  forall r, In r src_seeded_models -> forall s k,
    reproducible_across_processes src_srs_cfg (model_prog r (Some s) k).
Proof.
  apply models_stable_across_processes;
    [exact C04_bracket_as_coded | exact C04_models_bracketed | exact C04_models_order_stable].
Qed.
Print Assumptions C04_models_reproducible_across_processes.

(* ---- nobody else touches the process-wide generator's seed ---- *)

(* no np.random.seed / set_state call anywhere in pyxel/ outside util/randomize.py (C04-seed42 repaired:
   pulse_processing draws inside `with set_random_seed(42)`) *)
Theorem C04_no_global_seeding : src_seed_sites = [].
Proof. vm_compute. reflexivity. Qed.
Print Assumptions C04_no_global_seeding.

(* why such a call would be a leak: whatever the generator was, afterwards it is the seeded one *)
Theorem C04_bare_seed_forgets :
  forall gen val seed_gen next swap (s : Z) (g1 g2 : gen),
    gen_after gen val seed_gen next src_srs_cfg swap (BareSeed s) g1 =
    gen_after gen val seed_gen next src_srs_cfg swap (BareSeed s) g2.
Proof. intros. apply bare_seed_forgets. Qed.
Print Assumptions C04_bare_seed_forgets.

(* full statement: no draw comes from a generator the brackets cannot reach.  FALSE on the unchanged
   tree: the EMCCD multiplication registers call np.random.poisson inside numba-compiled functions,
   which use numba's private generator. *)
Definition C04_all_draws_reachable_full : Prop := src_numba_sites = [].

Theorem C04_all_draws_reachable_refuted : ~ C04_all_draws_reachable_full.
Proof. unfold C04_all_draws_reachable_full. vm_compute. discriminate. Qed.
Print Assumptions C04_all_draws_reachable_refuted.

Definition known_numba_sites : list string :=
  ["pyxel.models.charge_transfer.emccd_poisson.poisson_register"%string;
   "pyxel.models.charge_transfer.emccd_poisson_cic.poisson_register"%string;
   "pyxel.models.charge_transfer.emccd_poisson_cic.multiplication_register_poisson"%string].

Theorem C04_all_draws_reachable_partial :
  forallb (fun s => string_in (fst s) known_numba_sites) src_numba_sites = true.
Proof. vm_compute. reflexivity. Qed.
Print Assumptions C04_all_draws_reachable_partial.
