(* C04 — seeded runs are bit-reproducible and seeding never leaks.
   Only statements here; proofs live in Proofs/Rng.v.  Gen_C04 is regenerated on every run from
   pyxel/util/randomize.py, exposure.py, observation*.py, calibration/*.py and pyxel/models/**.
   Every statement quantifies over ALL generators (type of states, type of values, seeding function,
   transition function per kind of draw), all seeds, all bodies, all prior generator states. *)
From Coq Require Import ZArith List Bool String.
From PyxelV Require Import Model.Rng Proofs.Rng.
From PyxelGen Require Import Gen_C04.
Import ListNotations.
Open Scope Z_scope.

(* set_random_seed, as read from the source: saves before seeding, reseeds, restores in `finally` *)
Theorem C04_bracket_as_coded : cfg_ok src_srs_cfg = true.
Proof. vm_compute. reflexivity. Qed.
Print Assumptions C04_bracket_as_coded.

(* after `with set_random_seed(s): p` the generator is exactly what it was, however p ends *)
Theorem C04_restores :
  forall gen val seed_gen next (s : Z) (p : prog) (g : gen),
    gen_after gen val seed_gen next src_srs_cfg (Seeded (Some s) p) g = g.
Proof. intros. apply restores. exact C04_bracket_as_coded. Qed.
Print Assumptions C04_restores.

Theorem C04_restores_when_raising :
  forall gen val seed_gen next (s : Z) (p : prog) (g : gen),
    result gen val seed_gen next src_srs_cfg p (seed_gen s) = Raised ->
    gen_after gen val seed_gen next src_srs_cfg (Seeded (Some s) p) g = g /\
    result gen val seed_gen next src_srs_cfg (Seeded (Some s) p) g = Raised.
Proof. intros. apply restores_when_raising; [exact C04_bracket_as_coded | assumption]. Qed.
Print Assumptions C04_restores_when_raising.

(* non-vacuity: a body that draws and then raises, on the free generator, from a non-trivial state *)
Example C04_restores_when_raising_witness :
  result fgen fgen fseed fnext src_srs_cfg (Seq (Draw 0) Raise) (fseed 5) = Raised /\
  gen_after fgen fgen fseed fnext src_srs_cfg (Seeded (Some 5) (Seq (Draw 0) Raise)) (OInit 3, [1; 2])
  = (OInit 3, [1; 2]).
Proof. vm_compute. split; reflexivity. Qed.

(* drawn values, probed states and the outcome of a seeded block do not depend on the prior state *)
Theorem C04_deterministic :
  forall gen val seed_gen next (s : Z) (p : prog) (g1 g2 : gen),
    visible gen val seed_gen next src_srs_cfg (Seeded (Some s) p) g1 =
    visible gen val seed_gen next src_srs_cfg (Seeded (Some s) p) g2.
Proof. intros. apply deterministic. exact C04_bracket_as_coded. Qed.
Print Assumptions C04_deterministic.

(* a model-level bracket inside the pipeline-level bracket preserves both streams *)
Theorem C04_nested :
  forall gen val seed_gen next (s s' : Z) (p q r : prog) (g : gen),
    let ga := gen_after gen val seed_gen next src_srs_cfg in
    let ev := events gen val seed_gen next src_srs_cfg in
    let rs := result gen val seed_gen next src_srs_cfg in
    let outer := Seeded (Some s) (Seq p (Seq (Seeded (Some s') q) r)) in
    ga outer g = g /\
    (rs p (seed_gen s) = Done ->
     (rs q (seed_gen s') = Done ->
      ev outer g = ev p (seed_gen s) ++ ev q (seed_gen s') ++ ev r (ga p (seed_gen s)) /\
      rs outer g = rs r (ga p (seed_gen s))) /\
     (rs q (seed_gen s') = Raised ->
      ev outer g = ev p (seed_gen s) ++ ev q (seed_gen s') /\ rs outer g = Raised)).
Proof. intros. apply nested. exact C04_bracket_as_coded. Qed.
Print Assumptions C04_nested.

Example C04_nested_witness :
  events fgen fgen fseed fnext src_srs_cfg
    (Seeded (Some 1) (Seq (Draw 0) (Seq (Seeded (Some 2) (Draw 5)) (Seq (Draw 0) Observe)))) g_init
  = [EvDraw (OSeed 1, [0]); EvDraw (OSeed 2, [5]); EvDraw (OSeed 1, [0; 0]); EvState (OSeed 1, [0; 0])].
Proof. vm_compute. reflexivity. Qed.

(* seed None: the bracket is invisible *)
Theorem C04_unseeded_transparent :
  forall gen val seed_gen next (p : prog) (g : gen),
    exec gen val seed_gen next src_srs_cfg (Seeded None p) g = exec gen val seed_gen next src_srs_cfg p g.
Proof. intros. apply unseeded_transparent. Qed.
Print Assumptions C04_unseeded_transparent.

(* any program whose every draw / probe sits under a bracket with an actual seed (a model given its
   own seed, anywhere, in any mode): independent of the prior state, and the state is restored *)
Theorem C04_self_seeded_reproducible :
  forall p, self_seeded p = true -> reproducible_and_restored src_srs_cfg p.
Proof. intros. apply self_seeded_reproducible; [exact C04_bracket_as_coded | assumption]. Qed.
Print Assumptions C04_self_seeded_reproducible.

(* ---- the running modes, with the seed each one ACTUALLY forwards (src_links, regenerated) ---- *)

Theorem C04_mode_reproducible_exposure :
  mode_reproducible src_srs_cfg (forwards_of src_links "exposure") MExposure.
Proof. apply mode_reproducible_fw; [exact C04_bracket_as_coded | vm_compute; reflexivity]. Qed.
Print Assumptions C04_mode_reproducible_exposure.

Theorem C04_mode_reproducible_observation :
  mode_reproducible src_srs_cfg (forwards_of src_links "observation") MObservation.
Proof. apply mode_reproducible_fw; [exact C04_bracket_as_coded | vm_compute; reflexivity]. Qed.
Print Assumptions C04_mode_reproducible_observation.

Theorem C04_mode_reproducible_observation_dask :
  mode_reproducible src_srs_cfg (forwards_of src_links "observation_dask") MObservationDask.
Proof. apply mode_reproducible_fw; [exact C04_bracket_as_coded | vm_compute; reflexivity]. Qed.
Print Assumptions C04_mode_reproducible_observation_dask.

(* calibration: the full statement, kept visible.  On the unchanged tree it is FALSE: run_calibration
   does not hand pipeline_seed to ModelFittingDataTree (link "Calibration.run_calibration ->
   ModelFittingDataTree" is false), so every fitness evaluation runs unseeded. *)
Definition C04_mode_reproducible_calibration_full : Prop :=
  mode_reproducible src_srs_cfg (forwards_of src_links "calibration") MCalibration.

Theorem C04_mode_reproducible_calibration_refuted : ~ C04_mode_reproducible_calibration_full.
Proof.
  unfold C04_mode_reproducible_calibration_full.
  replace (forwards_of src_links "calibration") with false by (vm_compute; reflexivity).
  apply mode_not_reproducible_unforwarded.
Qed.
Print Assumptions C04_mode_reproducible_calibration_refuted.

(* what IS true of calibration as coded: the pipeline seed is ignored (same program as with no seed),
   and it is reproducible exactly when every stochastic model carries its own seed *)
Theorem C04_mode_reproducible_calibration_partial :
  (forall seed bodies,
     mode_prog MCalibration (forwards_of src_links "calibration") seed bodies =
     mode_prog MCalibration (forwards_of src_links "calibration") None bodies) /\
  (forall seed bodies, forallb self_seeded bodies = true ->
     reproducible_and_restored src_srs_cfg
       (mode_prog MCalibration (forwards_of src_links "calibration") seed bodies)).
Proof.
  split.
  - replace (forwards_of src_links "calibration") with false by (vm_compute; reflexivity).
    intros. apply unforwarded.
  - intros. apply mode_reproducible_self_seeded_bodies; [exact C04_bracket_as_coded | assumption].
Qed.
Print Assumptions C04_mode_reproducible_calibration_partial.

(* the optimiser seed reaches pygmo's global generator and the archipelago (plumbing only; pygmo's
   generator itself is outside the model) *)
Theorem C04_pygmo_seed_forwarded : forwards_of src_links "calibration_pygmo" = true.
Proof. vm_compute. reflexivity. Qed.
Print Assumptions C04_pygmo_seed_forwarded.

(* ---- every model function with a `seed` parameter ---- *)

Theorem C04_models_bracketed : forallb bracketed src_seeded_models = true.
Proof. vm_compute. reflexivity. Qed.
Print Assumptions C04_models_bracketed.

Theorem C04_models_reproducible :
  forall r, In r src_seeded_models -> forall s k,
    reproducible_and_restored src_srs_cfg (model_prog r (Some s) k) /\
    (forall gen val seed_gen next g,
       exec gen val seed_gen next src_srs_cfg (model_prog r None k) g =
       exec gen val seed_gen next src_srs_cfg (if 0 <? m_inside r then Draw (2 * k) else Skip) g).
Proof.
  apply models_bracketed_reproducible; [exact C04_bracket_as_coded | exact C04_models_bracketed].
Qed.
Print Assumptions C04_models_reproducible.

Example C04_models_table_nonempty : (10 <=? Z.of_nat (List.length src_seeded_models)) = true
  /\ existsb (fun r => 0 <? m_inside r) src_seeded_models = true.
Proof. vm_compute. split; reflexivity. Qed.

(* ---- nobody else touches the process-wide generator's seed ---- *)

(* full statement: no np.random.seed / set_state call anywhere outside util/randomize.py.
   FALSE on the unchanged tree: pulse_processing calls np.random.seed(42) with no bracket. *)
Definition C04_no_global_seeding_full : Prop := src_seed_sites = [].

Theorem C04_no_global_seeding_refuted : ~ C04_no_global_seeding_full.
Proof. unfold C04_no_global_seeding_full. vm_compute. discriminate. Qed.
Print Assumptions C04_no_global_seeding_refuted.

Definition known_seed_sites : list string :=
  ["pyxel.models.phasing.pulse_processing.pulse_processing"%string].

Theorem C04_no_global_seeding_partial :
  forallb (fun s => string_in (fst s) known_seed_sites) src_seed_sites = true.
Proof. vm_compute. reflexivity. Qed.
Print Assumptions C04_no_global_seeding_partial.

(* why such a site is a leak: whatever the generator was, afterwards it is the seeded one *)
Theorem C04_bare_seed_forgets :
  forall gen val seed_gen next (s : Z) (g1 g2 : gen),
    gen_after gen val seed_gen next src_srs_cfg (BareSeed s) g1 =
    gen_after gen val seed_gen next src_srs_cfg (BareSeed s) g2.
Proof. intros. apply bare_seed_forgets. Qed.
Print Assumptions C04_bare_seed_forgets.

(* full statement: no draw comes from a generator the brackets cannot reach.  FALSE on the unchanged
   tree: the EMCCD multiplication registers call np.random.poisson inside numba-compiled functions,
   which use numba's private generator. *)
Definition C04_all_draws_reachable_full : Prop := src_numba_sites = [].

Theorem C04_all_draws_reachable_refuted : ~ C04_all_draws_reachable_full.
Proof. unfold C04_all_draws_reachable_full. vm_compute. discriminate. Qed.
Print Assumptions C04_all_draws_reachable_refuted.

Definition known_numba_sites : list string :=
  ["pyxel.models.charge_transfer.emccd_poisson.poisson_register"%string;
   "pyxel.models.charge_transfer.emccd_poisson_cic.poisson_register"%string;
   "pyxel.models.charge_transfer.emccd_poisson_cic.multiplication_register_poisson"%string].

Theorem C04_all_draws_reachable_partial :
  forallb (fun s => string_in (fst s) known_numba_sites) src_numba_sites = true.
Proof. vm_compute. reflexivity. Qed.
Print Assumptions C04_all_draws_reachable_partial.
