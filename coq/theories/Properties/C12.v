(* C12 — a configuration file means what it says, and nonsense is refused.
   Only statements here; proofs live in Proofs/Config.v.  Gen_C12 is regenerated on every run from
   pyxel/detectors/{geometry,characteristics,environment}.py, apd/apd_characteristics.py (src_guards, src_stores)
   pyxel/configuration/configuration.py (src_checks_doc, src_checks_built, src_mode_dispatch, src_detector_dispatch)
   and pyxel/exposure/readout.py (src_readout_params, src_replace_carried).  The documented ranges (Model.Config.documented), the mode / detector key lists and the
   list of readout settings are LITERAL. *)
From Coq Require Import QArith ZArith List Bool String.
From PyxelV Require Import Model.Config Proofs.Config.
From PyxelGen Require Import Gen_C12.
Import ListNotations.
Open Scope Z_scope.
Open Scope string_scope.

(* ---------------------------------------------------------------------------------- same limits *)

(* THE refusal theorem, at full strength, over the guard table regenerated from the current source: for every
   documented field r, for the constructor guard and for the setter guard (s), and for EVERY value x the field
   can be given — every rational, NaN, +inf, -inf, every sequence length, carried by a python int / float or
   by a numpy scalar that is not an instance of int | float —
     * a value carried by int / float is accepted exactly when it is inside the documented range:
         accepts (ctor_guard f) x = accepts (setter_guard f) x = in_documented_range f x
     * whatever carries the number, an out-of-range value (NaN included) is refused.
   There is no exception list.  (History: the unrepaired tree refuted this statement on 46 (field, side, value
   class) triples — unchecked setters, truthiness and isinstance preconditions, NaN-blind comparisons; they were
   repaired by the fix: commits recorded in known_findings.json, and a regression makes this theorem fail.) *)
Theorem C12_same_limits : same_limits documented src_guards [].
Proof. apply check_table_sound. vm_compute. reflexivity. Qed.
Print Assumptions C12_same_limits.

(* the same statement unfolded for one side of one field, for every value *)
Theorem C12_same_limits_pointwise :
  forall r s x k,
    In r documented -> well_kinded (d_range r) x = true -> class_of x = Some k ->
    exists g, guard_at src_guards (d_key r) s = Some g /\
              (is_np x = false -> accepts g x = in_range (d_range r) x) /\
              (accepts g x = true -> in_range (d_range r) x = true).
Proof. exact (same_limits_pointwise _ _ C12_same_limits). Qed.
Print Assumptions C12_same_limits_pointwise.

(* constructor and setter of a field agree with each other on every int / float carried value *)
Theorem C12_ctor_equals_setter :
  forall r x k,
    In r documented -> well_kinded (d_range r) x = true -> class_of x = Some k -> is_np x = false ->
    exists gc gs, guard_at src_guards (d_key r) SCtor = Some gc /\ guard_at src_guards (d_key r) SSetter = Some gs /\
                  accepts gc x = accepts gs x.
Proof. exact (ctor_equals_setter _ _ C12_same_limits). Qed.
Print Assumptions C12_ctor_equals_setter.

(* non-vacuity: an instance spelled out; and the number of well-kinded (field, side, value class) triples covered *)
Example C12_same_limits_instance :
  forall q, exists g,
    guard_at src_guards (CCharacteristics, "quantum_efficiency") SCtor = Some g /\
    accepts g (VNum q) = Qle_bool 0 q && Qle_bool q 1.
Proof.
  exact (same_limits_num_instance documented src_guards
           (DocRow (CCharacteristics, "quantum_efficiency") (closed 0 1) true) SCtor C12_same_limits
           (or_intror (or_intror (or_intror (or_intror (or_intror (or_intror (or_introl eq_refl)))))))
           (ex_intro _ _ (ex_intro _ _ eq_refl))).
Qed.

Example C12_same_limits_instances :
  exists gs gb gv gt,
    guard_at src_guards (CCharacteristics, "adc_bit_resolution") SSetter = Some gs /\
    guard_at src_guards (CAPDCharacteristics, "adc_bit_resolution") SCtor = Some gb /\
    guard_at src_guards (CCharacteristics, "adc_voltage_range") SSetter = Some gv /\
    guard_at src_guards (CEnvironment, "temperature") SCtor = Some gt /\
    accepts gs (VNum 3) = false /\ accepts gs VNaN = false /\ accepts gs (VNum 4) = true /\ accepts gs (VNum 64) = true /\
    accepts gb (VNum 0) = false /\ accepts gv (VSeq 3) = false /\ accepts gv (VSeq 2) = true /\ accepts gv (VNum 5) = false /\
    accepts gt (VNpNum (-5)) = false /\ accepts gt (VNpNum 300) = true /\ accepts gt (VInf true) = false.
Proof. vm_compute. repeat eexists. Qed.

Example C12_same_limits_coverage :
  List.length (filter (fun t => match t with (r, s, k) =>
                  match d_range r, k with DRange _ _, KSeq => false | _, _ => true end end)
                (list_prod (list_prod documented [SCtor; SSetter]) all_classes)) = 194%nat.
Proof. vm_compute. reflexivity. Qed.

(* ---------------------------------------------------------------------------------- what is stored *)

(* What a constructor / a setter KEEPS of a value is regenerated too (src_stores: the expression assigned to
   self._<field>).  For every documented field, both sides and EVERY value the field can be given, the value that is
   stored is the value that was given (a float() of a number is the same number; an int() would not be: 0.5 -> 0,
   7.9 -> 7, and a check made on the raw value says nothing about the truncated one). *)
Theorem C12_stored_is_written :
  forall r s x,
    In r documented -> well_kinded (d_range r) x = true ->
    exists op y, store_at src_stores (d_key r) s = Some op /\ stored op x = Some y /\ value_same y x = true.
Proof. apply check_stores_sound. vm_compute. reflexivity. Qed.
Print Assumptions C12_stored_is_written.

(* refusal and storage together: whatever gets past the guard is kept as written and therefore satisfies the documented
   limit — through the constructor / YAML and through the setter / a sweep alike *)
Theorem C12_accepted_is_kept_in_range :
  forall r s x k,
    In r documented -> well_kinded (d_range r) x = true -> class_of x = Some k ->
    exists g op y, guard_at src_guards (d_key r) s = Some g /\ store_at src_stores (d_key r) s = Some op /\
                   stored op x = Some y /\ value_same y x = true /\
                   (accepts g x = true -> in_range (d_range r) y = true).
Proof. exact (accepted_is_kept_in_range _ _ _ C12_same_limits C12_stored_is_written). Qed.
Print Assumptions C12_accepted_is_kept_in_range.

(* non-vacuity: the array sizes and the ADC resolution, fractional values included; and what a truncating store does *)
Example C12_stored_instances :
  exists g op, guard_at src_guards (CGeometry, "row") SSetter = Some g /\ store_at src_stores (CGeometry, "row") SSetter = Some op /\
    accepts g (VNum (1 # 2)) = true /\ stored op (VNum (1 # 2)) = Some (VNum (1 # 2)) /\
    accepts g (VNum 0) = false /\
    stored StInt (VNum (1 # 2)) = Some (VNum 0) /\ in_range positive (VNum 0) = false /\
    stored StInt (VNum (63 # 8)) = Some (VNum 7) /\ stored (StFloatIf PNotNone) (VNpNum 300) = Some (VNum 300).
Proof. vm_compute. repeat eexists. Qed.

(* None means "not specified": the constructor takes it exactly for the fields documented as optional *)
Theorem C12_none_iff_optional :
  forall r, In r documented ->
  exists g, guard_at src_guards (d_key r) SCtor = Some g /\ accepts g VNone = d_optional r.
Proof. apply none_ok_sound. vm_compute. reflexivity. Qed.
Print Assumptions C12_none_iff_optional.

(* every field of the four classes whose source carries a range check is in the literal table
   (a new validated field cannot escape the theorems above) *)
Theorem C12_no_unlisted_guard :
  forall f gc gs, In (f, (gc, gs)) src_guards ->
  trivial_guard gc && trivial_guard gs = false ->
  exists r, lookup_doc documented f = Some r.
Proof. apply unlisted_sound. vm_compute. reflexivity. Qed.
Print Assumptions C12_no_unlisted_guard.

(* constructor and YAML share the constructor guard; attribute assignment and a sweep (Processor.set ->
   setattr) share the setter guard.  This is how the model is DEFINED (side_of_path); that the code
   behaves so is established by the correspondence leg, not by this statement. *)
Theorem C12_sweep_same_limits :
  forall f, guard_at src_guards f (side_of_path PSweep) = guard_at src_guards f (side_of_path PAttr) /\
            guard_at src_guards f (side_of_path PYaml) = guard_at src_guards f (side_of_path PCtor).
Proof. intro f. split; reflexivity. Qed.
Print Assumptions C12_sweep_same_limits.

(* ---------------------------------------------------------------------------------- exactly one *)

(* A document holds, under each top-level key, nothing / an empty section (`key:`) / an empty mapping / a filled
   section.  The loader of the current source (regenerated: the count checks of _build_configuration WITH their way of
   counting, the order of its two if/elif chains, the count checks of Configuration.__post_init__) hands the sections
   m and d to their builders — `dispatch ... st = Some (m, d)` — exactly when m is the ONLY mode key and d the ONLY
   detector key the document holds, for EVERY assignment of states to keys.  In particular a section that is left
   empty still counts: it is not skipped in favour of another one, and it does not hide another one. *)
Theorem C12_exactly_one :
  forall (st : string -> sstate) m d,
    dispatch src_checks_doc src_checks_built src_mode_dispatch src_detector_dispatch st = Some (m, d) <->
    only_present mode_keys st m /\ only_present detector_keys st d.
Proof. apply loader_sound. vm_compute. reflexivity. Qed.
Print Assumptions C12_exactly_one.

(* two mode keys (or two detector keys) in one document: refused, whatever the two sections hold *)
Theorem C12_two_sections_refused :
  forall (st : string -> sstate) keys k1 k2,
    keys = mode_keys \/ keys = detector_keys ->
    In k1 keys -> In k2 keys -> k1 <> k2 -> st k1 <> SAbsent -> st k2 <> SAbsent ->
    dispatch src_checks_doc src_checks_built src_mode_dispatch src_detector_dispatch st = None.
Proof. apply two_sections_refused. vm_compute. reflexivity. Qed.
Print Assumptions C12_two_sections_refused.

(* and a document is never loaded as another mode / detector than one whose section is filled *)
Theorem C12_exactly_one_uses_it :
  forall (st : string -> sstate) m d k,
    dispatch src_checks_doc src_checks_built src_mode_dispatch src_detector_dispatch st = Some (m, d) ->
    st k = SFilled -> (In k mode_keys -> k = m) /\ (In k detector_keys -> k = d).
Proof. apply never_another_section. vm_compute. reflexivity. Qed.
Print Assumptions C12_exactly_one_uses_it.

(* building the objects in Python and handing them to Configuration(...) directly: for EVERY set of running-mode /
   detector objects given, the checks of Configuration.__post_init__ (regenerated) let it through iff exactly one
   running mode and exactly one detector are given *)
Theorem C12_exactly_one_built :
  forall given : list string,
    checks_pass src_checks_built (given_state given) = true <->
    exactly_one mode_keys (present_of given) /\ exactly_one detector_keys (present_of given).
Proof. apply built_checks_sound. vm_compute. reflexivity. Qed.
Print Assumptions C12_exactly_one_built.

Example C12_exactly_one_accepts :
  dispatch src_checks_doc src_checks_built src_mode_dispatch src_detector_dispatch
           (state_of [("pipeline", SFilled); ("observation", SFilled); ("apd_detector", SFilled)])
  = Some ("observation", "apd_detector").
Proof. vm_compute. reflexivity. Qed.
Example C12_exactly_one_refuses_two_detectors :
  dispatch src_checks_doc src_checks_built src_mode_dispatch src_detector_dispatch
           (state_of (filled_doc ["pipeline"; "exposure"; "ccd_detector"; "cmos_detector"])) = None.
Proof. vm_compute. reflexivity. Qed.
Example C12_exactly_one_refuses_no_mode :
  dispatch src_checks_doc src_checks_built src_mode_dispatch src_detector_dispatch
           (state_of (filled_doc ["pipeline"; "ccd_detector"])) = None.
Proof. vm_compute. reflexivity. Qed.
(* an empty `exposure:` next to a complete `observation:` is two running modes *)
Example C12_exactly_one_refuses_empty_next_to_filled :
  dispatch src_checks_doc src_checks_built src_mode_dispatch src_detector_dispatch
           (state_of [("exposure", SNull); ("observation", SFilled); ("ccd_detector", SFilled); ("pipeline", SFilled)]) = None /\
  dispatch src_checks_doc src_checks_built src_mode_dispatch src_detector_dispatch
           (state_of [("observation", SFilled); ("ccd_detector", SEmptyMap); ("mkid_detector", SFilled)]) = None /\
  dispatch src_checks_doc src_checks_built src_mode_dispatch src_detector_dispatch
           (state_of [("exposure", SNull); ("ccd_detector", SFilled)]) = Some ("exposure", "ccd_detector").
Proof. vm_compute. repeat split; reflexivity. Qed.

(* ---------------------------------------------------------------------------------- settings *)

(* Model of loading: `build` (Model/Config.v).  Every leaf written in the document arrives at the setting of
   the same key, unchanged — except that readout times and parameter values are evaluated to the numbers
   they denote; an absent key gets its default; nothing else appears.  These are theorems about the MODEL
   of the loader; that pyxel.load behaves like the model is established by the correspondence leg. *)
Theorem C12_settings_preserved :
  forall defaults doc k v,
    NoDup (map fst doc) -> In (k, v) doc ->
    lookup k (build kind_of_key defaults doc) = Some (denote_as (kind_of_key k) v).
Proof. exact (build_preserves kind_of_key). Qed.
Print Assumptions C12_settings_preserved.

Theorem C12_settings_defaults :
  forall defaults doc k,
    ~ In k (map fst doc) -> lookup k (build kind_of_key defaults doc) = lookup k defaults.
Proof. exact (build_default kind_of_key). Qed.
Print Assumptions C12_settings_defaults.

Theorem C12_settings_nothing_else :
  forall defaults doc k w,
    lookup k (build kind_of_key defaults doc) = Some w ->
    (exists v, In (k, v) doc /\ w = denote_as (kind_of_key k) v) \/
    (~ In k (map fst doc) /\ lookup k defaults = Some w).
Proof. exact (build_nothing_else kind_of_key). Qed.
Print Assumptions C12_settings_nothing_else.

Example C12_settings_example :
  let doc := [("detector.geometry.row", LNum 3); ("detector.geometry.col", LNum 5);
              ("mode.readout.times", LArange 1 5 1 4)] in
  let defaults := [("mode.readout.start_time", LNum 0); ("detector.geometry.row", LNum 99)] in
  map (fun k => lookup k (build kind_of_key defaults doc))
      ["detector.geometry.row"; "detector.geometry.col"; "mode.readout.times"; "mode.readout.start_time"]
  = [Some (LNum 3); Some (LNum 5); Some (LList [LNum 1; LNum (1+1); LNum (1+1+1); LNum (1+1+1+1)]);
     Some (LNum 0)].
Proof. vm_compute. reflexivity. Qed.

Example C12_arange_len_example : arange_len 1 5 1 = 4%nat /\ arange_len (1#2) 3 (1#4) = 10%nat.
Proof. vm_compute. split; reflexivity. Qed.

(* ---------------------------------------------------------------------------------- derived objects *)

(* A readout derived from the loaded one — Readout.replace with keyword changes (the dask sweep over
   'observation.readout.times' calls replace(times=...)), the `times` setter, a copy — is modelled by `derive`:
   the regenerated list src_replace_carried says which settings replace() hands to the new object. *)

(* every setting of a readout is carried (and nothing the constructor does not take) — over the regenerated lists *)
Theorem C12_replace_carries_every_setting :
  (forall k, In k readout_settings -> In (readout_key k) (map readout_key src_replace_carried)) /\
  (forall k, In k src_replace_carried -> In k src_readout_params).
Proof. apply carries_all_sound. vm_compute. reflexivity. Qed.
Print Assumptions C12_replace_carries_every_setting.

(* for ALL settings and changes: a carried setting that is not changed keeps the value of the original, ... *)
Theorem C12_derived_keeps_unchanged :
  forall settings changes k,
    In k (map readout_key src_replace_carried) -> lookup k changes = None ->
    lookup k (derive (map readout_key src_replace_carried) settings changes) = lookup k settings.
Proof. exact (derive_keeps (map readout_key src_replace_carried)). Qed.
Print Assumptions C12_derived_keeps_unchanged.

(* ... a changed one has the new value, ... *)
Theorem C12_derived_sets_changed :
  forall settings changes k v,
    In k (map readout_key src_replace_carried) -> lookup k changes = Some v ->
    lookup k (derive (map readout_key src_replace_carried) settings changes) = Some v.
Proof. exact (derive_sets (map readout_key src_replace_carried)). Qed.
Print Assumptions C12_derived_sets_changed.

(* ... and nothing else appears. *)
Theorem C12_derived_nothing_else :
  forall settings changes k w,
    lookup k (derive (map readout_key src_replace_carried) settings changes) = Some w ->
    In k (map readout_key src_replace_carried) /\
    (lookup k changes = Some w \/ (lookup k changes = None /\ lookup k settings = Some w)).
Proof. exact (derive_nothing_else (map readout_key src_replace_carried)). Qed.
Print Assumptions C12_derived_nothing_else.

(* composed with loading: whatever other keys a sweep changes, the readout setting the file wrote (or left to its
   default) is still the one the derived readout has — e.g. start_time under a sweep of the readout times *)
Theorem C12_sweep_keeps_file_settings :
  forall defaults doc changes k,
    In k readout_settings -> lookup (readout_key k) changes = None ->
    lookup (readout_key k) (derive (map readout_key src_replace_carried) (build kind_of_key defaults doc) changes)
    = lookup (readout_key k) (build kind_of_key defaults doc).
Proof.
  intros defaults doc changes k.
  apply (derived_keeps_file_setting kind_of_key src_readout_params). vm_compute. reflexivity.
Qed.
Print Assumptions C12_sweep_keeps_file_settings.

Example C12_sweep_example :
  let doc := [("mode.readout.times", LList [LNum 1]); ("mode.readout.start_time", LNum (1#2))] in
  let defaults := [("mode.readout.start_time", LNum 0); ("mode.readout.non_destructive", LBool false)] in
  let swept := derive (map readout_key src_replace_carried) (build kind_of_key defaults doc)
                      [("mode.readout.times", LList [LNum 4])] in
  map (fun k => lookup k swept) ["mode.readout.times"; "mode.readout.start_time"; "mode.readout.non_destructive"]
  = [Some (LList [LNum 4]); Some (LNum (1#2)); Some (LBool false)].
Proof. vm_compute. reflexivity. Qed.

(* ---------------------------------------------------------------------------------- what is compared *)

(* The loaded-settings comparison is testing; this theorem pins its EXTENT to the source: every constructor parameter
   of every class pyxel.load builds an object of (regenerated: src_ctor_params) is in the literal table of compared
   settings or in the short literal table of exclusions (custom observation mode, working directory of a calibration,
   pygmo local optimizer), and both tables name only parameters that exist.  A new constructor parameter breaks it. *)
Theorem C12_every_parameter_compared :
  (forall c ps p, In (c, ps) src_ctor_params -> In p ps ->
     (exists qs, In (c, qs) compared_params /\ In p qs) \/ (exists qs, In (c, qs) uncompared_params /\ In p qs)) /\
  (forall c qs p, In (c, qs) (compared_params ++ uncompared_params) -> In p qs ->
     exists ps, In (c, ps) src_ctor_params /\ In p ps).
Proof. apply params_covered_sound. vm_compute. reflexivity. Qed.
Print Assumptions C12_every_parameter_compared.

Example C12_every_parameter_compared_nonvacuous :
  List.length (flat_map snd src_ctor_params) = 125%nat /\ List.length (flat_map snd uncompared_params) = 4%nat.
Proof. vm_compute. split; reflexivity. Qed.
