(* C10 — calibration candidates map to the right parameters, inside their bounds.
   Only statements here; the model is Model/Decision.v, the proofs are Proofs/Decision.v and
   Proofs/DecisionR.v; the description language, the generic walks and the object store are
   Model/DecisionSrc.v (proofs: Proofs/DecisionSrc.v, Proofs/DecisionSrcR.v); `src_desc` is regenerated from
   the current source by translator/c10.py on every run (Gen_C10.v).  All theorems quantify over every list of variables (any mix of scalar / vector,
   linear / logarithmic, shared / per-component boundaries) and every decision vector; the structural
   ones also over every element type A and every pair of functions log10 / 10**. *)
From Coq Require Import List Bool Arith String QArith Reals Lra.
From PyxelV Require Import Model.Decision Proofs.Decision Proofs.DecisionR.
From PyxelV Require Import Model.DecisionSrc Proofs.DecisionSrc Proofs.DecisionSrcR.
From PyxelV Require Import Model.DecisionKinds Proofs.DecisionKinds.
From PyxelGen Require Import Gen_C10.
Import ListNotations.
Local Close Scope Q_scope.
Local Open Scope nat_scope.

(* The three walks (_set_bound, convert_to_parameters, update_processor) use the same slice
   [off_k, off_k + w_k) for variable k, off_k = sum of the widths declared before it; the slice of the
   bounds is the declared boundary list of variable k (log10 iff logarithmic), the slice of the converted
   vector is the conversion of the same slice of the decision vector, and what Processor.set receives for
   key k is that slice (a number for "_", an array for a list). *)
Theorem C10_walks_agree :
  forall (A : Type) (flog fexp : A -> A) (logdom : A -> bool) (vs : list (@var A)) lb ub x,
    bounds_walk flog logdom vs = Some (lb, ub) -> List.length x = List.length lb ->
    List.length lb = total vs /\ List.length ub = total vs /\
    List.length (convert_walk fexp vs x) = total vs /\
    exists asg, applied fexp vs x = Some asg /\ List.length asg = List.length vs /\
      forall k v, nth_error vs k = Some v ->
        let off := offset vs k in let w := width v in
        off + w <= total vs /\
        offset vs (S k) = off + w /\
        slice off w lb = var_lower flog v /\
        slice off w ub = var_upper flog v /\
        slice off w (convert_walk fexp vs x) = var_convert fexp v (slice off w x) /\
        exists val, var_value v (slice off w (convert_walk fexp vs x)) = Some val /\
                    nth_error asg k = Some (key v, val).
Proof. exact @walks_agree. Qed.
Print Assumptions C10_walks_agree.

(* The slices are consecutive, disjoint, in declaration order and cover exactly [0, total):
   component j belongs to variable k iff off_k <= j < off_k + w_k, and to none iff j >= total. *)
Theorem C10_slices_partition :
  forall (A : Type) (vs : list (@var A)) j,
    offset vs 0 = 0 /\ offset vs (List.length vs) = total vs /\
    (forall k, owner vs j = Some k <->
               exists v, nth_error vs k = Some v /\ offset vs k <= j < offset vs k + width v) /\
    (owner vs j = None <-> total vs <= j).
Proof.
  intros A vs j. split; [reflexivity|]. split; [apply offset_all|].
  split; [intros k; apply owner_spec|apply owner_none].
Qed.
Print Assumptions C10_slices_partition.

(* convert_to_parameters exponentiates component j iff j lies in the slice of a logarithmic variable and
   leaves every other component as it is; the length is unchanged.  (That the caller's array is not
   written to is a statement about numpy copying and is checked on the implementation, see the check.) *)
Theorem C10_log_only_on_log_slices :
  forall (A : Type) (fexp : A -> A) (vs : list (@var A)) x,
    total vs <= List.length x ->
    List.length (convert_walk fexp vs x) = List.length x /\
    forall j, nth_error (convert_walk fexp vs x) j =
              if is_log_comp vs j then option_map fexp (nth_error x j) else nth_error x j.
Proof. exact @log_only_on_log_slices. Qed.
Print Assumptions C10_log_only_on_log_slices.

(* The parameters reported for a decision vector (convert_to_parameters, as _get_champions and
   get_best_individuals store them) are exactly the values update_processor hands to Processor.set in
   fitness: one key per variable, in declaration order, the values concatenated give the reported vector. *)
Theorem C10_reported_is_applied :
  forall (A : Type) (fexp : A -> A) (vs : list (@var A)) x,
    List.length x = total vs ->
    exists asg, applied fexp vs x = Some asg /\
                map fst asg = map key vs /\
                flat_all asg = reported fexp vs x.
Proof. exact @reported_is_applied. Qed.
Print Assumptions C10_reported_is_applied.

(* Construction is refused exactly when some variable is unacceptable: no boundaries, a per-component
   boundary list whose length is not the number of placeholders, per-component boundaries on a scalar,
   or a scalar logarithmic variable with a boundary outside the domain of math.log10. *)
Theorem C10_refusal :
  forall (A : Type) (flog : A -> A) (logdom : A -> bool) (vs : list (@var A)),
    bounds_walk flog logdom vs = None <-> Exists (fun v => var_accept flog logdom v = false) vs.
Proof. exact @bounds_walk_refuses. Qed.
Print Assumptions C10_refusal.

(* Over the reals: a decision vector inside the optimiser's box gives every parameter component a value
   inside its own declared boundary pair (log10 lo <= x <= log10 hi  ->  lo <= 10**x <= hi).
   Positive boundaries are enforced by the code for scalar logarithmic variables (math.log10 raises) and
   are a hypothesis for vector ones (np.log10 does not raise; NaN bounds are refused later by pygmo). *)
Theorem C10_in_bounds :
  forall (vs : list (@var R)) lb ub x,
    bounds_walk log10 rpos vs = Some (lb, ub) ->
    (forall v n, In v vs -> islog v = true -> shape v = Some n -> positive_decl v) ->
    Forall2 Rle lb x -> Forall2 Rle x ub ->
    Forall2 inbox (List.concat (map declared vs)) (convert_walk pow10 vs x).
Proof. exact in_bounds. Qed.
Print Assumptions C10_in_bounds.

Theorem C10_in_bounds_componentwise :
  forall (vs : list (@var R)) lb ub x j d p,
    bounds_walk log10 rpos vs = Some (lb, ub) ->
    (forall v n, In v vs -> islog v = true -> shape v = Some n -> positive_decl v) ->
    Forall2 Rle lb x -> Forall2 Rle x ub ->
    nth_error (List.concat (map declared vs)) j = Some d ->
    nth_error (convert_walk pow10 vs x) j = Some p ->
    (fst d <= p <= snd d)%R.
Proof. exact in_bounds_nth. Qed.
Print Assumptions C10_in_bounds_componentwise.

(* ============================================================================ tied to the source

   `src_desc` is what translator/c10.py read in pyxel/calibration/fitting_datatree.py and
   pyxel/observation/parameter_values.py on THIS run: iteration in declaration order, per class of variable
   the element / column of var.boundaries appended to the lower and upper list and how log10 is applied
   (rebinding or in place), the slice [start, stop) that gets 10 ** and the new offset as linear forms in
   (a, width), the index / slice handed to Processor.set, which copies are taken. *)

(* the description read from the source is one of those for which the walks are the modelled walks *)
Theorem C10_source_as_modelled : desc_ok src_desc = true.
Proof. vm_compute. reflexivity. Qed.
Print Assumptions C10_source_as_modelled.

(* the loops of the source, interpreted, ARE the hand-written walks - for every element type, every list
   of variables, every vector - and leave the ParameterValues objects and the caller's array as they were *)
Theorem C10_src_walks_are_model :
  forall (A : Type) (flog fexp : A -> A) (logdom : A -> bool) (vs : list (@var A)) (x : list A),
    g_bounds flog logdom src_desc vs = (bounds_walk flog logdom vs, vs) /\
    g_convert fexp (d_cv src_desc) vs x = convert_walk fexp vs x /\
    g_convert_after fexp (d_cv src_desc) vs x = x /\
    g_assign (d_up src_desc) vs x = assign_walk vs x.
Proof. intros. apply src_walks_are_model. vm_compute. reflexivity. Qed.
Print Assumptions C10_src_walks_are_model.

(* C10_walks_agree, re-proved over the loops of the source *)
Theorem C10_src_walks_agree :
  forall (A : Type) (flog fexp : A -> A) (logdom : A -> bool) (vs : list (@var A)) lb ub x,
    fst (g_bounds flog logdom src_desc vs) = Some (lb, ub) -> List.length x = List.length lb ->
    snd (g_bounds flog logdom src_desc vs) = vs /\
    List.length lb = total vs /\ List.length ub = total vs /\
    List.length (g_convert fexp (d_cv src_desc) vs x) = total vs /\
    exists asg, g_assign (d_up src_desc) vs (g_convert fexp (d_cv src_desc) vs x) = Some asg /\
      List.length asg = List.length vs /\
      forall k v, nth_error vs k = Some v ->
        let off := offset vs k in let w := width v in
        off + w <= total vs /\
        offset vs (S k) = off + w /\
        slice off w lb = var_lower flog v /\
        slice off w ub = var_upper flog v /\
        slice off w (g_convert fexp (d_cv src_desc) vs x) = var_convert fexp v (slice off w x) /\
        exists val, var_value v (slice off w (g_convert fexp (d_cv src_desc) vs x)) = Some val /\
                    nth_error asg k = Some (key v, val).
Proof. intros A flog fexp logdom vs lb ub x. apply src_walks_agree. vm_compute. reflexivity. Qed.
Print Assumptions C10_src_walks_agree.

Theorem C10_src_log_only_on_log_slices :
  forall (A : Type) (fexp : A -> A) (vs : list (@var A)) x,
    total vs <= List.length x ->
    g_convert_after fexp (d_cv src_desc) vs x = x /\
    List.length (g_convert fexp (d_cv src_desc) vs x) = List.length x /\
    forall j, nth_error (g_convert fexp (d_cv src_desc) vs x) j =
              if is_log_comp vs j then option_map fexp (nth_error x j) else nth_error x j.
Proof. intros A fexp vs x. apply src_log_only_on_log_slices. vm_compute. reflexivity. Qed.
Print Assumptions C10_src_log_only_on_log_slices.

Theorem C10_src_reported_is_applied :
  forall (A : Type) (fexp : A -> A) (vs : list (@var A)) x,
    List.length x = total vs ->
    exists asg, g_assign (d_up src_desc) vs (g_convert fexp (d_cv src_desc) vs x) = Some asg /\
                map fst asg = map key vs /\
                flat_all asg = g_convert fexp (d_cv src_desc) vs x.
Proof. intros A fexp vs x. apply src_reported_is_applied. vm_compute. reflexivity. Qed.
Print Assumptions C10_src_reported_is_applied.

Theorem C10_src_refusal :
  forall (A : Type) (flog : A -> A) (logdom : A -> bool) (vs : list (@var A)),
    fst (g_bounds flog logdom src_desc vs) = None <-> Exists (fun v => var_accept flog logdom v = false) vs.
Proof. intros A flog logdom vs. apply src_refusal. vm_compute. reflexivity. Qed.
Print Assumptions C10_src_refusal.

Theorem C10_src_in_bounds :
  forall (vs : list (@var R)) lb ub x,
    fst (g_bounds log10 rpos src_desc vs) = Some (lb, ub) ->
    (forall v n, In v vs -> islog v = true -> shape v = Some n -> positive_decl v) ->
    Forall2 Rle lb x -> Forall2 Rle x ub ->
    Forall2 inbox (List.concat (map declared vs)) (g_convert pow10 (d_cv src_desc) vs x).
Proof. intros vs lb ub x. apply src_in_bounds. vm_compute. reflexivity. Qed.
Print Assumptions C10_src_in_bounds.

(* what a calibration reports (read from archipelago_datatree.py: _get_champions, get_best_individuals,
   run_evolve; fitting_datatree.py: apply_parameters_to_processors, _apply_parameters): for the decision vector
   x of an island the champion parameters and the parameters of a best individual are convert_to_parameters(x),
   and the final pipeline run of the island - whose simulated outputs the result carries - is configured, key by
   key in declaration order, with exactly the reported parameters *)
Theorem C10_src_reporting :
  forall (A : Type) (fexp : A -> A) (vs : list (@var A)) x,
    List.length x = total vs ->
    g_reported fexp (rp_champion src_report) src_desc vs x = convert_walk fexp vs x /\
    g_reported fexp (rp_best src_report) src_desc vs x = convert_walk fexp vs x /\
    exists asg, g_final_applied fexp src_report src_desc vs x = Some asg /\
                map fst asg = map key vs /\
                flat_all asg = g_reported fexp (rp_champion src_report) src_desc vs x.
Proof. intros A fexp vs x. apply src_reporting; vm_compute; reflexivity. Qed.
Print Assumptions C10_src_reporting.

(* ============================================================================ histories on the object store

   The ParameterValues objects (st_vars), the caller's processor (location 0 of st_procs) and the problems
   built so far are shared by everything that happens later: the same Calibration is run again, get_bounds /
   convert_to_parameters / fitness / update_processor are called any number of times in any order on any of
   the problems.  For the effect sites the source has (which log10 is in place and on what, which copies are
   taken), NO history changes the declaration, NO history changes a processor that existed, problems are only
   added, and every observation is the history-free function of the declaration: in particular the box of a
   problem built after any history is the box of the first one. *)
Theorem C10_history_independent :
  forall (A : Type) (flog fexp : A -> A) (logdom : A -> bool) (st : @store A) (ops : list (@op A)),
    store_consistent flog logdom st ->
    let r := run_hist flog fexp logdom src_desc st ops in
    st_vars (fst r) = st_vars st /\
    heap_extends (st_procs st) (st_procs (fst r)) /\
    (exists new, st_pbs (fst r) = st_pbs st ++ new) /\
    store_consistent flog logdom (fst r) /\
    Forall2 (obs_spec flog fexp logdom (st_vars st)) ops (snd r).
Proof. intros A flog fexp logdom st ops. apply run_hist_ok. vm_compute. reflexivity. Qed.
Print Assumptions C10_history_independent.

Theorem C10_builds_idempotent :
  forall (A : Type) (flog fexp : A -> A) (logdom : A -> bool) (st : @store A) (ops : list (@op A))
         i j lb1 ub1 lb2 ub2,
    store_consistent flog logdom st ->
    nth_error ops i = Some OBuild -> nth_error ops j = Some OBuild ->
    nth_error (snd (run_hist flog fexp logdom src_desc st ops)) i = Some (ObBuilt lb1 ub1) ->
    nth_error (snd (run_hist flog fexp logdom src_desc st ops)) j = Some (ObBuilt lb2 ub2) ->
    lb1 = lb2 /\ ub1 = ub2.
Proof. intros A flog fexp logdom st ops i j lb1 ub1 lb2 ub2. apply builds_agree. vm_compute. reflexivity. Qed.
Print Assumptions C10_builds_idempotent.

(* ============================================================================ any container of placeholders

   `src_kinds` is what translator/c10.py read on THIS run: the outer container convert_values returns for every class
   of object handed to ParameterValues(values=...), and - for _set_bound, the count of __init__,
   convert_to_parameters and update_processor - the if / elif chain on `var.values` as a decision tree over the
   tests the source makes (== "_", isinstance(var.values, list | tuple | str | np.ndarray | Sequence),
   all(x == "_" ...)), its leaves labelled scalar / vector / raise / no branch taken.

   The containers: the string "_", a list (what YAML and JSON produce), a tuple, another string ("" / "__" ...),
   a numpy array of "_" strings, another Sequence (collections.UserList ...), a generator; each with any number of
   placeholders. *)

(* the check over the finite universe (7 kinds x 0 / 1 / 2 placeholders) *)
Theorem C10_same_type_tests : kinds_ok src_kinds = true.
Proof. vm_compute. reflexivity. Qed.
Print Assumptions C10_same_type_tests.

(* ... means, for EVERY container with ANY number of placeholders that ParameterValues accepts: either _set_bound
   refuses the object kept by the ParameterValues, or _set_bound and update_processor take the branch the
   declaration means for it (scalar for "_", vector of n components for n placeholders in a container; a scalar
   only when there is exactly one placeholder) and convert_to_parameters and the count of __init__ a branch of that
   width.  The type tests of the four walks are the same predicate on everything that reaches them. *)
Theorem C10_containers_classified_alike :
  forall v : pval, pv_accepts v = true ->
    let w := norm (kd_norm src_kinds) v in
    classify (kd_sb src_kinds) w = ORaise \/
    (classify (kd_sb src_kinds) w = spec_outcome v /\ classify (kd_up src_kinds) w = spec_outcome v /\
     owidth (classify (kd_cv src_kinds) w) (snd v) = owidth (spec_outcome v) (snd v) /\
     (forall g, kd_init src_kinds = Some g -> owidth (classify g w) (snd v) = owidth (spec_outcome v) (snd v)) /\
     (spec_outcome v = OScalar -> snd v = 1)).
Proof.
  intros v. apply agree_at_meaning. apply kinds_ok_all. vm_compute. reflexivity.
Qed.
Print Assumptions C10_containers_classified_alike.

(* what YAML can produce is never refused because of its container *)
Theorem C10_yaml_containers_accepted :
  forall (A : Type) (l : list (@dvar A)),
    canonical (map snd l) = true -> accepted_objects l = true ->
    views (kd_norm src_kinds) (kd_sb src_kinds) l = Some (map spec_var l).
Proof. intros A l. apply views_canonical. vm_compute. reflexivity. Qed.
Print Assumptions C10_yaml_containers_accepted.

(* for every declaration - any list of variables, each in any container - that the constructor accepts: _set_bound
   and update_processor see the SAME list of variables, the one the declaration means; convert_to_parameters sees
   variables of the same widths and flags; the walks of the source are the hand-written walks of Model/Decision.v
   on the declared variables; the number of parameters counted by __init__ (if the source counts) is the total
   width *)
Theorem C10_containers_same_variables :
  forall (A : Type) (flog fexp : A -> A) (logdom : A -> bool) (l : list (@dvar A)) lb ub,
    k_bounds flog logdom src_kinds src_desc l = Some (lb, ub) ->
    let vs := map spec_var l in
    views (kd_norm src_kinds) (kd_sb src_kinds) l = Some vs /\
    views (kd_norm src_kinds) (kd_up src_kinds) l = Some vs /\
    (exists cs, views (kd_norm src_kinds) (kd_cv src_kinds) l = Some cs /\ Forall2 same_wl cs vs) /\
    bounds_walk flog logdom vs = Some (lb, ub) /\
    (forall x, k_convert fexp src_kinds src_desc l x = Some (convert_walk fexp vs x)) /\
    (forall p, k_assign src_kinds src_desc l p = assign_walk vs p) /\
    (kd_init src_kinds = None \/ k_count src_kinds l = Some (total vs)) /\
    Forall2 (fun dv v => width v = decl_width dv) l vs.
Proof. intros A flog fexp logdom l lb ub. apply k_walks_are_model; vm_compute; reflexivity. Qed.
Print Assumptions C10_containers_same_variables.

(* C10_walks_agree for declarations in any containers: variable k, declared with n_k placeholders in whatever
   container, owns the n_k consecutive components [off_k, off_k + n_k) in the box, in the conversion and in what
   Processor.set receives *)
Theorem C10_containers_walks_agree :
  forall (A : Type) (flog fexp : A -> A) (logdom : A -> bool) (l : list (@dvar A)) lb ub x,
    k_bounds flog logdom src_kinds src_desc l = Some (lb, ub) -> List.length x = List.length lb ->
    let vs := map spec_var l in
    List.length lb = total vs /\ List.length ub = total vs /\
    exists conv asg,
      k_convert fexp src_kinds src_desc l x = Some conv /\ List.length conv = total vs /\
      k_assign src_kinds src_desc l conv = Some asg /\ List.length asg = List.length l /\
      forall k dv, nth_error l k = Some dv ->
        let v := spec_var dv in
        let off := offset vs k in let w := decl_width dv in
        off + w <= total vs /\
        offset vs (S k) = off + w /\
        slice off w lb = var_lower flog v /\
        slice off w ub = var_upper flog v /\
        slice off w conv = var_convert fexp v (slice off w x) /\
        exists val, var_value v (slice off w conv) = Some val /\ nth_error asg k = Some (key v, val).
Proof. intros A flog fexp logdom l lb ub x. apply k_walks_agree; vm_compute; reflexivity. Qed.
Print Assumptions C10_containers_walks_agree.

(* ---------------------------------------------------------------------------- non-vacuity *)

(* a logarithmic vector with per-component boundaries BEFORE a linear scalar, then a linear vector with
   shared boundaries, then a logarithmic scalar *)
Definition ex_vars : list svar :=
  [ mkVar "v"%string (Some 3) true (PerComp [(Raw 1, Raw 10); (Raw (1 # 10), Raw 100); (Raw 10, Raw 1000)]);
    mkVar "s"%string None false (Shared (Raw (1 # 2)) (Raw 2));
    mkVar "w"%string (Some 2) false (Shared (Raw (-1)) (Raw 1));
    mkVar "t"%string None true (Shared (Raw 1) (Raw 100)) ].

Example ex_accepted :
  exists lb ub, s_bounds ex_vars = Some (lb, ub) /\ List.length lb = 7 /\ total ex_vars = 7.
Proof. vm_compute. eauto. Qed.

(* the scalar after the vector reads component 3, not component 1 *)
Example ex_scalar_after_vector :
  s_assign ex_vars (s_convert ex_vars (map Raw [0; 1; 2; 1; 0; (1 # 2); 2]%Q))
  = Some [ ("v"%string, AVector [Ten 0; Ten 1; Ten 2]); ("s"%string, AScalar (Raw 1));
           ("w"%string, AVector [Raw 0; Raw (1 # 2)]); ("t"%string, AScalar (Ten 2)) ].
Proof. vm_compute. reflexivity. Qed.

Example ex_refused_per_component_on_scalar :
  s_bounds [mkVar "s"%string None false (PerComp [(Raw 0, Raw 1)])] = None.
Proof. vm_compute. reflexivity. Qed.

Example ex_refused_wrong_count :
  s_bounds [mkVar "v"%string (Some 3) false (PerComp [(Raw 0, Raw 1); (Raw 0, Raw 1)])] = None.
Proof. vm_compute. reflexivity. Qed.

Example ex_refused_log_nonpositive :
  s_bounds [mkVar "s"%string None true (Shared (Raw 0) (Raw 1))] = None.
Proof. vm_compute. reflexivity. Qed.

(* the hypotheses of C10_in_bounds are satisfiable: logarithmic vector before a linear scalar *)
Definition ex_rvars : list (@var R) :=
  [ mkVar "v"%string (Some 2) true (Shared 1%R 100%R); mkVar "s"%string None false (Shared 0%R 1%R) ].

Example ex_in_bounds_hyps :
  (exists lb ub, bounds_walk log10 rpos ex_rvars = Some (lb, ub) /\ List.length lb = 3) /\
  (forall v n, In v ex_rvars -> islog v = true -> shape v = Some n -> positive_decl v).
Proof.
  split.
  - eexists. eexists. split; reflexivity.
  - intros v n [<-|[<-|[]]] Hl Hs; simpl in *; try discriminate.
    unfold positive_decl, positive_pair. simpl. repeat constructor; simpl; lra.
Qed.

(* ---------------------------------------------------------------------------- descriptions and histories *)

(* log10 applied IN PLACE to the columns of per-component boundaries (views of the kept array) *)
Definition ex_desc_inplace : wdesc :=
  mkDesc WLen
    (mkSb (sb_scalar (d_sb desc_as_coded)) (sb_shared (d_sb desc_as_coded))
          (mkSBranch (mkSide (SColumn 0) (LInPlace NpLog10)) (mkSide (SColumn 1) (LInPlace NpLog10))) GAlias)
    (d_cv desc_as_coded) (d_up desc_as_coded) true true.

(* ... is not an accepted description, and the model says why: the first problem is right, the declaration
   is rewritten, and the second problem built from the same objects gets log10(log10 b) *)
Example ex_inplace_rejected : desc_ok ex_desc_inplace = false.
Proof. vm_compute. reflexivity. Qed.

Example ex_inplace_history :
  let st0 := mkSt [mkVar "v"%string (Some 2) true (PerComp [(Raw 1, Raw 10); (Raw 10, Raw 100)])] [[]] [] in
  let r := run_hist s_log s_exp s_dom ex_desc_inplace st0 [OBuild; OBuild] in
  snd r = [ObBuilt [Log 1; Log 10] [Log 10; Log 100]; ObBuilt [Bad; Bad] [Bad; Bad]] /\
  st_vars (fst r) <> st_vars st0.
Proof. vm_compute. split; [reflexivity|discriminate]. Qed.

(* the same in-place log10 on the FRESH arrays of shared boundaries, or on a view of a COPY, is accepted *)
Example ex_inplace_on_fresh_accepted :
  desc_ok (mkDesc WLen
    (mkSb (sb_scalar (d_sb desc_as_coded))
          (mkSBranch (mkSide (SRepeat 0) (LInPlace NpLog10)) (mkSide (SRepeat 1) (LInPlace NpLog10)))
          (mkSBranch (mkSide (SColumn 0) (LInPlace NpLog10)) (mkSide (SColumn 1) (LInPlace NpLog10))) GCopy)
    (d_cv desc_as_coded) (d_up desc_as_coded) true true) = true.
Proof. vm_compute. reflexivity. Qed.

(* an offset that moves by 1 after a list of placeholders is not accepted *)
Example ex_wrong_step_rejected :
  desc_ok (mkDesc WLen (d_sb desc_as_coded)
    (mkCv true 0 (cv_scalar (d_cv desc_as_coded)) (mkCBranch WLen lin_a lin_ab (mkLin 1 1 0)))
    (d_up desc_as_coded) true true) = false.
Proof. vm_compute. reflexivity. Qed.

(* a history on the description of the source: two problems, bounds asked again, a vector converted, applied
   through fitness and through update_processor: both boxes are equal, the declaration and the caller's
   processor are as before *)
Example ex_history_on_source :
  let vs := [mkVar "v"%string (Some 2) true (PerComp [(Raw 1, Raw 10); (Raw 10, Raw 100)]);
             mkVar "s"%string None false (Shared (Raw 0) (Raw 1))] in
  let c0 := [("v"%string, AVector [Raw 0; Raw 0]); ("s"%string, AScalar (Raw 0))] in
  let st0 := mkSt vs [c0] [] in
  let x := [Raw 1; Raw 2; Raw (1 # 2)] in
  let r := run_hist s_log s_exp s_dom src_desc st0
             [OBuild; OFitness 0 x; OBuild; OBounds 1; OUpdate 1 x; OConvert 0 x] in
  snd r = [ObBuilt [Log 1; Log 10; Raw 0] [Log 10; Log 100; Raw 1];
           ObApplied x [Ten 1; Ten 2; Raw (1 # 2)]
             (Some [("v"%string, AVector [Ten 1; Ten 2]); ("s"%string, AScalar (Raw (1 # 2)))]);
           ObBuilt [Log 1; Log 10; Raw 0] [Log 10; Log 100; Raw 1];
           ObBounds [Log 1; Log 10; Raw 0] [Log 10; Log 100; Raw 1];
           ObApplied x [Ten 1; Ten 2; Raw (1 # 2)]
             (Some [("v"%string, AVector [Ten 1; Ten 2]); ("s"%string, AScalar (Raw (1 # 2)))]);
           ObConv x [Ten 1; Ten 2; Raw (1 # 2)]] /\
  st_vars (fst r) = vs /\ nth_error (st_procs (fst r)) 0 = Some c0 /\ List.length (st_pbs (fst r)) = 2.
Proof. vm_compute. repeat split; reflexivity. Qed.

(* a result whose final runs get the decision vector instead of the reported parameters is not accepted *)
Example ex_final_applies_decision_rejected : rp_ok (mkRp true true false true) = false.
Proof. vm_compute. reflexivity. Qed.

(* C10-F1 (repaired): with `params_array.squeeze().to_numpy()` the island's row of a declaration of total width
   one became a 0-d array and the final application raised IndexError in update_processor; such a description is
   not accepted, and the model says what happened: nothing was applied *)
Example ex_bare_squeeze_rejected :
  rp_ok (mkRp true true true false) = false /\
  g_final_applied s_exp (mkRp true true true false) desc_as_coded
    [mkVar "s"%string None true (Shared (Raw 1) (Raw 100))] [Raw 1] = None /\
  g_final_applied s_exp (mkRp true true true true) desc_as_coded
    [mkVar "s"%string None true (Shared (Raw 1) (Raw 100))] [Raw 1] = Some [("s"%string, AScalar (Ten 1))].
Proof. vm_compute. repeat split; reflexivity. Qed.

(* ---------------------------------------------------------------------------- containers *)

(* a declaration as YAML produces it (a logarithmic list of three placeholders before a linear scalar, then a list of
   two): accepted by the walks of the source, 6 components, the scalar reads component 3 *)
Definition ex_dvars : list (@dvar sym) :=
  [ (mkVar "v"%string None true (Shared (Raw 1) (Raw 100)), (KList, 3));
    (mkVar "s"%string None false (Shared (Raw 1) (Raw 4)), (KUnd, 1));
    (mkVar "w"%string None false (Shared (Raw 0) (Raw 1)), (KList, 2)) ].

Example ex_containers_accepted :
  k_bounds s_log s_dom src_kinds src_desc ex_dvars
  = Some ([Log 1; Log 1; Log 1; Raw 1; Raw 0; Raw 0], [Log 100; Log 100; Log 100; Raw 4; Raw 1; Raw 1]) /\
  k_convert s_exp src_kinds src_desc ex_dvars (map Raw [0; 1; 2; 3; (1 # 2); 1]%Q)
  = Some [Ten 0; Ten 1; Ten 2; Raw 3; Raw (1 # 2); Raw 1] /\
  k_assign src_kinds src_desc ex_dvars [Ten 0; Ten 1; Ten 2; Raw 3; Raw (1 # 2); Raw 1]
  = Some [ ("v"%string, AVector [Ten 0; Ten 1; Ten 2]); ("s"%string, AScalar (Raw 3));
           ("w"%string, AVector [Raw (1 # 2); Raw 1]) ].
Proof. vm_compute. repeat split; reflexivity. Qed.

(* the same with the vectors handed over in a TUPLE and in the string "__" (the tree as repaired: convert_values
   turns both into lists), and with np.array(["_"]) - which equals "_" - as a scalar *)
Example ex_other_containers_accepted :
  let l := [ (mkVar "v"%string None true (Shared (Raw 1) (Raw 100)), (KTuple, 3));
             (mkVar "s"%string None false (Shared (Raw 1) (Raw 4)), (KArr, 1));
             (mkVar "w"%string None false (Shared (Raw 0) (Raw 1)), (KStr, 2)) ] in
  k_bounds s_log s_dom kinds_as_coded desc_as_coded l
  = Some ([Log 1; Log 1; Log 1; Raw 1; Raw 0; Raw 0], [Log 100; Log 100; Log 100; Raw 4; Raw 1; Raw 1]) /\
  k_assign kinds_as_coded desc_as_coded l [Ten 0; Ten 1; Ten 2; Raw 3; Raw (1 # 2); Raw 1]
  = Some [ ("v"%string, AVector [Ten 0; Ten 1; Ten 2]); ("s"%string, AScalar (Raw 3));
           ("w"%string, AVector [Raw (1 # 2); Raw 1]) ] /\
  k_count kinds_as_coded l = Some 6 /\
  (* a generator and an array of two placeholders never get past ParameterValues *)
  k_bounds s_log s_dom kinds_as_coded desc_as_coded
    [ (mkVar "g"%string None false (Shared (Raw 0) (Raw 1)), (KIter, 2)) ] = None /\
  k_bounds s_log s_dom kinds_as_coded desc_as_coded
    [ (mkVar "a"%string None false (Shared (Raw 0) (Raw 1)), (KArr, 2)) ] = None.
Proof. vm_compute. repeat split; reflexivity. Qed.

(* C10-F2 (repaired): _set_bound tested isinstance(var.values, Sequence) where the three other walks test
   isinstance(var.values, list).  convert_values turns every non-empty container into a list, but an EMPTY one
   is ParameterType.Simple and is kept as it is: for values=() (or "", UserList()) the box had no component for
   the variable while convert_to_parameters took one.  Such a description is not accepted, and the model says what
   happened: a logarithmic () before a linear scalar in [1, 4] - the box is the scalar's alone, and 10 ** lands on
   the scalar's component *)
Definition kinds_before_repair : kdesc :=
  mkKd (kd_norm kinds_as_coded)
       (GIf TEq (GLeaf OScalar) (GIf (TAnd (TInst [CSeq]) TAllPh) (GLeaf OVector) (GLeaf ORaise)))
       (kd_init kinds_as_coded) (kd_cv kinds_as_coded) (kd_up kinds_as_coded).

Example ex_sequence_test_rejected :
  kinds_ok kinds_before_repair = false /\ first_disagreement kinds_before_repair = Some (KTuple, 0) /\
  let l := [ (mkVar "v"%string None true (Shared (Raw 1) (Raw 100)), (KTuple, 0));
             (mkVar "s"%string None false (Shared (Raw 1) (Raw 4)), (KUnd, 1)) ] in
  k_bounds s_log s_dom kinds_before_repair desc_as_coded l = Some ([Raw 1], [Raw 4]) /\
  k_convert s_exp kinds_before_repair desc_as_coded l [Raw 2] = Some [Ten 2] /\
  k_count kinds_before_repair l = Some 2 /\
  k_bounds s_log s_dom kinds_as_coded desc_as_coded l = None.
Proof. vm_compute. repeat split; reflexivity. Qed.

(* a convert_values that keeps a tuple a tuple: with the Sequence test in _set_bound EVERY tuple of placeholders
   got a box of n components that the three other walks treated as one scalar; with the same test in the four
   walks the tuple is refused, and the description is accepted *)
Definition norm_keeps_tuples : norm_desc := mkNorm true true [(CTuple, KTuple)] KList.

Example ex_kept_tuple :
  kinds_ok (mkKd norm_keeps_tuples (kd_sb kinds_before_repair) (kd_init kinds_as_coded) (kd_cv kinds_as_coded)
                 (kd_up kinds_as_coded)) = false /\
  kinds_ok (mkKd norm_keeps_tuples (kd_sb kinds_as_coded) (kd_init kinds_as_coded) (kd_cv kinds_as_coded)
                 (kd_up kinds_as_coded)) = true /\
  (* a convert_to_parameters that takes len("_") = 1 components for "_" through its list branch is the same walk *)
  kinds_ok (mkKd (kd_norm kinds_as_coded) (kd_sb kinds_as_coded) (kd_init kinds_as_coded)
                 (GIf (TInst [CList; CStr]) (GLeaf OVector) (GLeaf OScalar)) (kd_up kinds_as_coded)) = true /\
  (* and four walks that all accept lists and tuples are accepted too *)
  let t := TInst [CList; CTuple] in
  kinds_ok (mkKd norm_keeps_tuples (GIf TEq (GLeaf OScalar) (GIf (TAnd t TAllPh) (GLeaf OVector) (GLeaf ORaise)))
                 (Some (GIf t (GLeaf OVector) (GLeaf OScalar))) (GIf t (GLeaf OVector) (GLeaf OScalar))
                 (GIf TEq (GLeaf OScalar) (GIf t (GLeaf OVector) (GLeaf OSkip)))) = true.
Proof. vm_compute. repeat split; reflexivity. Qed.

(* the hypotheses of C10_containers_classified_alike / C10_yaml_containers_accepted are satisfiable *)
Example ex_container_hyps :
  pv_accepts (KTuple, 3) = true /\ pv_accepts (KArr, 1) = true /\ pv_accepts (KIter, 2) = false /\
  canonical (map snd [ (mkVar "a"%string None false (Shared (Raw 0) (Raw 1)), (KList, 3)) ]) = true.
Proof. vm_compute. repeat split; reflexivity. Qed.
