(* C10 — calibration candidates map to the right parameters, inside their bounds.
   Only statements here; the model is Model/Decision.v, the proofs are Proofs/Decision.v and
   Proofs/DecisionR.v.  All theorems quantify over every list of variables (any mix of scalar / vector,
   linear / logarithmic, shared / per-component boundaries) and every decision vector; the structural
   ones also over every element type A and every pair of functions log10 / 10**. *)
From Coq Require Import List Bool Arith String QArith Reals Lra.
From PyxelV Require Import Model.Decision Proofs.Decision Proofs.DecisionR.
Import ListNotations.
Local Close Scope Q_scope.
Local Open Scope nat_scope.

(* The three walks (_set_bound, convert_to_parameters, update_processor) use the same slice
   [off_k, off_k + w_k) for variable k, off_k = sum of the widths declared before it; the slice of the
   bounds is the declared boundary list of variable k (log10 iff logarithmic), the slice of the converted
   vector is the conversion of the same slice of the decision vector, and what Processor.set receives for
   key k is that slice (a number for "_", an array for a list). *)
Theorem C10_walks_agree :
  forall (A : Type) (flog fexp : A -> A) (logdom : A -> bool) (vs : list (@var A)) lb ub x,
    bounds_walk flog logdom vs = Some (lb, ub) -> List.length x = List.length lb ->
    List.length lb = total vs /\ List.length ub = total vs /\
    List.length (convert_walk fexp vs x) = total vs /\
    exists asg, applied fexp vs x = Some asg /\ List.length asg = List.length vs /\
      forall k v, nth_error vs k = Some v ->
        let off := offset vs k in let w := width v in
        off + w <= total vs /\
        offset vs (S k) = off + w /\
        slice off w lb = var_lower flog v /\
        slice off w ub = var_upper flog v /\
        slice off w (convert_walk fexp vs x) = var_convert fexp v (slice off w x) /\
        exists val, var_value v (slice off w (convert_walk fexp vs x)) = Some val /\
                    nth_error asg k = Some (key v, val).
Proof. exact @walks_agree. Qed.
Print Assumptions C10_walks_agree.

(* The slices are consecutive, disjoint, in declaration order and cover exactly [0, total):
   component j belongs to variable k iff off_k <= j < off_k + w_k, and to none iff j >= total. *)
Theorem C10_slices_partition :
  forall (A : Type) (vs : list (@var A)) j,
    offset vs 0 = 0 /\ offset vs (List.length vs) = total vs /\
    (forall k, owner vs j = Some k <->
               exists v, nth_error vs k = Some v /\ offset vs k <= j < offset vs k + width v) /\
    (owner vs j = None <-> total vs <= j).
Proof.
  intros A vs j. split; [reflexivity|]. split; [apply offset_all|].
  split; [intros k; apply owner_spec|apply owner_none].
Qed.
Print Assumptions C10_slices_partition.

(* convert_to_parameters exponentiates component j iff j lies in the slice of a logarithmic variable and
   leaves every other component as it is; the length is unchanged.  (That the caller's array is not
   written to is a statement about numpy copying and is checked on the implementation, see the check.) *)
Theorem C10_log_only_on_log_slices :
  forall (A : Type) (fexp : A -> A) (vs : list (@var A)) x,
    total vs <= List.length x ->
    List.length (convert_walk fexp vs x) = List.length x /\
    forall j, nth_error (convert_walk fexp vs x) j =
              if is_log_comp vs j then option_map fexp (nth_error x j) else nth_error x j.
Proof. exact @log_only_on_log_slices. Qed.
Print Assumptions C10_log_only_on_log_slices.

(* The parameters reported for a decision vector (convert_to_parameters, as _get_champions and
   get_best_individuals store them) are exactly the values update_processor hands to Processor.set in
   fitness: one key per variable, in declaration order, the values concatenated give the reported vector. *)
Theorem C10_reported_is_applied :
  forall (A : Type) (fexp : A -> A) (vs : list (@var A)) x,
    List.length x = total vs ->
    exists asg, applied fexp vs x = Some asg /\
                map fst asg = map key vs /\
                flat_all asg = reported fexp vs x.
Proof. exact @reported_is_applied. Qed.
Print Assumptions C10_reported_is_applied.

(* Construction is refused exactly when some variable is unacceptable: no boundaries, a per-component
   boundary list whose length is not the number of placeholders, per-component boundaries on a scalar,
   or a scalar logarithmic variable with a boundary outside the domain of math.log10. *)
Theorem C10_refusal :
  forall (A : Type) (flog : A -> A) (logdom : A -> bool) (vs : list (@var A)),
    bounds_walk flog logdom vs = None <-> Exists (fun v => var_accept flog logdom v = false) vs.
Proof. exact @bounds_walk_refuses. Qed.
Print Assumptions C10_refusal.

(* Over the reals: a decision vector inside the optimiser's box gives every parameter component a value
   inside its own declared boundary pair (log10 lo <= x <= log10 hi  ->  lo <= 10**x <= hi).
   Positive boundaries are enforced by the code for scalar logarithmic variables (math.log10 raises) and
   are a hypothesis for vector ones (np.log10 does not raise; NaN bounds are refused later by pygmo). *)
Theorem C10_in_bounds :
  forall (vs : list (@var R)) lb ub x,
    bounds_walk log10 rpos vs = Some (lb, ub) ->
    (forall v n, In v vs -> islog v = true -> shape v = Some n -> positive_decl v) ->
    Forall2 Rle lb x -> Forall2 Rle x ub ->
    Forall2 inbox (List.concat (map declared vs)) (convert_walk pow10 vs x).
Proof. exact in_bounds. Qed.
Print Assumptions C10_in_bounds.

Theorem C10_in_bounds_componentwise :
  forall (vs : list (@var R)) lb ub x j d p,
    bounds_walk log10 rpos vs = Some (lb, ub) ->
    (forall v n, In v vs -> islog v = true -> shape v = Some n -> positive_decl v) ->
    Forall2 Rle lb x -> Forall2 Rle x ub ->
    nth_error (List.concat (map declared vs)) j = Some d ->
    nth_error (convert_walk pow10 vs x) j = Some p ->
    (fst d <= p <= snd d)%R.
Proof. exact in_bounds_nth. Qed.
Print Assumptions C10_in_bounds_componentwise.

(* ---------------------------------------------------------------------------- non-vacuity *)

(* a logarithmic vector with per-component boundaries BEFORE a linear scalar, then a linear vector with
   shared boundaries, then a logarithmic scalar *)
Definition ex_vars : list svar :=
  [ mkVar "v"%string (Some 3) true (PerComp [(Raw 1, Raw 10); (Raw (1 # 10), Raw 100); (Raw 10, Raw 1000)]);
    mkVar "s"%string None false (Shared (Raw (1 # 2)) (Raw 2));
    mkVar "w"%string (Some 2) false (Shared (Raw (-1)) (Raw 1));
    mkVar "t"%string None true (Shared (Raw 1) (Raw 100)) ].

Example ex_accepted :
  exists lb ub, s_bounds ex_vars = Some (lb, ub) /\ List.length lb = 7 /\ total ex_vars = 7.
Proof. vm_compute. eauto. Qed.

(* the scalar after the vector reads component 3, not component 1 *)
Example ex_scalar_after_vector :
  s_assign ex_vars (s_convert ex_vars (map Raw [0; 1; 2; 1; 0; (1 # 2); 2]%Q))
  = Some [ ("v"%string, AVector [Ten 0; Ten 1; Ten 2]); ("s"%string, AScalar (Raw 1));
           ("w"%string, AVector [Raw 0; Raw (1 # 2)]); ("t"%string, AScalar (Ten 2)) ].
Proof. vm_compute. reflexivity. Qed.

Example ex_refused_per_component_on_scalar :
  s_bounds [mkVar "s"%string None false (PerComp [(Raw 0, Raw 1)])] = None.
Proof. vm_compute. reflexivity. Qed.

Example ex_refused_wrong_count :
  s_bounds [mkVar "v"%string (Some 3) false (PerComp [(Raw 0, Raw 1); (Raw 0, Raw 1)])] = None.
Proof. vm_compute. reflexivity. Qed.

Example ex_refused_log_nonpositive :
  s_bounds [mkVar "s"%string None true (Shared (Raw 0) (Raw 1))] = None.
Proof. vm_compute. reflexivity. Qed.

(* the hypotheses of C10_in_bounds are satisfiable: logarithmic vector before a linear scalar *)
Definition ex_rvars : list (@var R) :=
  [ mkVar "v"%string (Some 2) true (Shared 1%R 100%R); mkVar "s"%string None false (Shared 0%R 1%R) ].

Example ex_in_bounds_hyps :
  (exists lb ub, bounds_walk log10 rpos ex_rvars = Some (lb, ub) /\ List.length lb = 3) /\
  (forall v n, In v ex_rvars -> islog v = true -> shape v = Some n -> positive_decl v).
Proof.
  split.
  - eexists. eexists. split; reflexivity.
  - intros v n [<-|[<-|[]]] Hl Hs; simpl in *; try discriminate.
    unfold positive_decl, positive_pair. simpl. repeat constructor; simpl; lra.
Qed.
