(* C02 — readout clock and per-step bucket lifecycle (destructive / non-destructive).
   Only statements here; the model is Model/Exposure.v, the proofs are in Proofs/Exposure.v.
   Gen_C02 (src_guards: the guard lists of Readout.__init__, the two Readout setters and
   ReadoutProperties.__init__;  src_empty: the table of Detector.empty(reset) AND what the empty() of every
   container does to each piece of state the container holds -- Charge: the 2-D array and the particle
   dataframe -- and how run_pipeline's loop and its deprecated copy use Detector.empty: the full reset before the
   loop, the per-step reset flag) is regenerated from the source on every run, and the theorems below are re-checked against it; so is src_set_readout (does
   Detector.set_readout always install a NEW ReadoutProperties built from the readout it is given?).

   Reading guide.  [scenario A zero G E form times start nd ops prog d0] = construct a Readout, apply the
   caller's operations [ops] (setters / replace), call run_pipeline on a detector whose buckets hold [d0],
   with the models of each step being the arbitrary state transformer [prog].  It returns [Rejected stage]
   (an exception before any model executed) or [Ran trace], one observation per executed step: the clock
   the models see, the buckets at the start and at the end of the step.
   [valid_scenario] = every schedule the caller installs on the way (the constructor's, then the one in place
   after each setter / replace operation) is valid: strictly increasing times, first time non-zero and later
   than the start time.  The constructor's `times` may come in any form [f]: list / tuple / scalar /
   expression / file (FList) or a numpy array (FNdarray); replace() hands the constructor a numpy array. *)
From Coq Require Import QArith ZArith List Bool Lia.
From PyxelV Require Import Model.Exposure Model.ExposureF Proofs.ExposureEmpty Proofs.Exposure Proofs.ExposureSpec
  Proofs.ExposureSession Proofs.ExposureF.
From PyxelGen Require Import Gen_C02.
Import ListNotations.
Open Scope Q_scope.

(* the pipeline runs once per readout time, in order *)
Theorem C02_once_per_time_in_order :
  forall (A : Type) (zero : A) f r s nd ops (prog : program A) d0, valid_scenario r s nd ops ->
  exists qs trace,
    r_times (final r s nd ops) = R1 (map TQ qs)
    /\ scenario A zero src_guards src_empty f r s nd ops prog d0 = Ran trace
    /\ map (fun o => c_time (o_clock o)) trace = map TQ qs
    /\ length trace = length qs.
Proof. intros A zero. apply (st_once_in_order A zero src_guards src_empty); vm_compute; reflexivity. Qed.
Print Assumptions C02_once_per_time_in_order.

(* during step i the models see time t_i, step t_i - t_(i-1) with t_(-1) = start, absolute time
   start + t_i, counter i, first <-> i = 0, last <-> i = n - 1 *)
Theorem C02_clock :
  forall (A : Type) (zero : A) f r s nd ops (prog : program A) d0, valid_scenario r s nd ops ->
  exists qs st trace,
    r_times (final r s nd ops) = R1 (map TQ qs) /\ r_start (final r s nd ops) = TQ st
    /\ scenario A zero src_guards src_empty f r s nd ops prog d0 = Ran trace
    /\ forall i o, nth_error trace i = Some o ->
         c_time (o_clock o) = TQ (nth i qs 0)
         /\ c_step (o_clock o) = TQ (nth i qs 0 - nth i (st :: qs) 0)
         /\ c_abs (o_clock o) = TQ (st + nth i qs 0)
         /\ c_count (o_clock o) = Z.of_nat i
         /\ c_first (o_clock o) = Nat.eqb i 0
         /\ c_last (o_clock o) = Nat.eqb (S i) (length qs).
Proof. intros A zero. apply (st_clock A zero src_guards src_empty); vm_compute; reflexivity. Qed.
Print Assumptions C02_clock.

(* telescoping: the time steps of any schedule add up to end time - start time (reused by C17) *)
Theorem C02_sum_of_steps :
  forall start ts, qsum (steps_q start ts) == last ts start - start.
Proof. exact steps_telescope. Qed.
Print Assumptions C02_sum_of_steps.

(* ... and these are the steps the models of a run actually see *)
Theorem C02_clock_steps_telescope :
  forall (A : Type) (zero : A) f r s nd ops (prog : program A) d0, valid_scenario r s nd ops ->
  exists qs st trace,
    r_times (final r s nd ops) = R1 (map TQ qs) /\ r_start (final r s nd ops) = TQ st
    /\ scenario A zero src_guards src_empty f r s nd ops prog d0 = Ran trace
    /\ map (fun o => c_step (o_clock o)) trace = map TQ (steps_q st qs)
    /\ qsum (steps_q st qs) == last qs st - st.
Proof. intros A zero. apply (st_steps_sum A zero src_guards src_empty); vm_compute; reflexivity. Qed.
Print Assumptions C02_clock_steps_telescope.

(* at the beginning of every step scene / photon / charge (its 2-D array AND its particle dataframe) / signal /
   image are empty; pixel is zero in destructive mode and at step 0, and the previous step's final pixel content
   in non-destructive mode — for every program of per-step writers (whichever way they fill the containers:
   the program is an arbitrary transformer of all seven pieces of state) and every prior content d0 of the
   detector.  Re-proved against the regenerated table of Detector.empty and the regenerated programs of every
   container's empty(). *)
Theorem C02_step_start_buckets :
  forall (A : Type) (zero : A) f r s nd ops (prog : program A) d0, valid_scenario r s nd ops ->
  exists trace,
    scenario A zero src_guards src_empty f r s nd ops prog d0 = Ran trace
    /\ forall i o, nth_error trace i = Some o ->
         scene (o_begin o) = None /\ photon (o_begin o) = None /\ charge (o_begin o) = None
         /\ cframe (o_begin o) = None
         /\ signal (o_begin o) = None /\ image (o_begin o) = None
         /\ pixel (o_begin o) =
            match i with
            | O => Some zero
            | S j => if r_nd (final r s nd ops)
                     then match nth_error trace j with Some p => pixel (o_end p) | None => Some zero end
                     else Some zero
            end.
Proof. intros A zero. apply (st_step_start A zero src_guards src_empty); vm_compute; reflexivity. Qed.
Print Assumptions C02_step_start_buckets.

(* <Container>.empty(), as coded, on ANY state of the detector: every piece of state the container holds is
   re-initialised (Pixel: zeros; everything else: nothing) whatever the pieces held before -- for Charge both the
   2-D array and the particle dataframe, whichever of them was filled -- and no other container is touched.
   Re-proved against the regenerated programs: [cprog_ok] runs each on all 2^7 shapes of a state. *)
Theorem C02_container_empty_resets_every_piece :
  forall (A : Type) (zero : A) (b : bucket) (d : det A) (p : piece),
  getp p (run_cprog A zero (e_prog src_empty b) d)
  = if bucket_eqb (owner p) b then cleared A zero p else getp p d.
Proof. intros A zero b. apply run_cprog_ok. destruct b; vm_compute; reflexivity. Qed.
Print Assumptions C02_container_empty_resets_every_piece.

(* hence Detector.empty(reset) on any state: all seven pieces empty, except the pixel array, which is zero after
   empty(True) and untouched by empty(False) *)
Theorem C02_detector_empty :
  forall (A : Type) (zero : A) (reset : bool) (d : det A),
  det_empty A zero src_empty reset d
  = {| scene := None; photon := None; charge := None; cframe := None;
       pixel := if reset then Some zero else pixel d; signal := None; image := None |}.
Proof. intros A zero. apply det_empty_ok. vm_compute. reflexivity. Qed.
Print Assumptions C02_detector_empty.

(* why the shape of the run loop is part of the regenerated table: with the per-step flag inverted
   (`detector.empty(detector.non_destructive_readout)`) a destructive run keeps the pixel content from step to
   step; without the full reset before the loop a non-destructive run starts from whatever pixel content an
   earlier run left in the detector *)
Example C02_ex_loop_shape_matters :
  let E p i := {| e_always := e_always src_empty; e_if_reset := e_if_reset src_empty; e_scene := e_scene src_empty;
                  e_photon := e_photon src_empty; e_charge := e_charge src_empty; e_pixel := e_pixel src_empty;
                  e_signal := e_signal src_empty; e_image := e_image src_empty;
                  e_read_stores := e_read_stores src_empty; e_init_reset := i; e_loop_reset := p;
                  e_old_loop_same := true |} in
  let pixels E nd := match scenario Z 0%Z src_guards E FList (R1 [TQ 1; TQ 2]) (TQ 0) nd [] (prog_of [[WAdd Pixel 3]; []]%Z)
                                    (mkdet None None None None (Some 9%Z) None None) with
                     | Ran os => map (fun o => pixel (o_begin o)) os | Rejected _ => [] end in
  pixels (E LIfDestructive true) false = [Some 0; Some 0]%Z
  /\ pixels (E LIfNonDestructive true) false = [Some 0; Some 3]%Z
  /\ pixels (E LIfDestructive true) true = [Some 0; Some 3]%Z
  /\ pixels (E LIfDestructive false) true = [Some 9; Some 12]%Z
  /\ empty_table_ok (E LIfDestructive true) = true
  /\ empty_table_ok (E LIfNonDestructive true) = false /\ empty_table_ok (E LIfDestructive false) = false.
Proof. vm_compute. repeat split. Qed.

(* why the check of the container programs is needed: a Charge.empty() that re-initialises the 2-D array only
   when there was no particle (`if frame holds: reset frame  elif array holds: reset array`) passes on charge
   deposited as an array and leaks charge deposited as particles -- the array derived from them, which
   run_pipeline stored when it extracted the step's result, survives *)
Example C02_ex_conditional_charge_empty_leaks :
  let pr := [[(CHolds PChargeFrame, [PChargeFrame]); (CHolds PChargeArr, [PChargeArr])]] in
  cprog_ok Charge pr = false
  /\ run_cprog Z 0%Z pr (mkdet None None (Some 7%Z) None None None None) = mkdet None None None None None None None
  /\ run_cprog Z 0%Z pr (mkdet None None (Some 7%Z) (Some 7%Z) None None None)
     = mkdet None None (Some 7%Z) None None None None.
Proof. vm_compute. repeat split. Qed.

(* non-vacuity with particles: destructive run over [1; 2; 3], every step deposits 200 e- as particles and 5 e-
   as an array (in that order, then the other way round): every step starts with an empty array and an empty
   dataframe and ends with 205 in the dataframe; the 2-D array only follows the dataframe when it is read *)
Example C02_ex_particles :
  match scenario Z 0%Z src_guards src_empty FList (R1 [TQ 1; TQ 2; TQ 3]) (TQ 0) false []
                 (prog_of [[WPart 200; WAdd Charge 5]; [WAdd Charge 5; WPart 200]; [WPart 200]]%Z)
                 (mkdet None None (Some 9%Z) (Some 9%Z) None None None) with
  | Ran os => map (fun o => (charge (o_begin o), cframe (o_begin o), charge (o_end o), cframe (o_end o))) os
  | Rejected _ => []
  end
  = [(None, None, None, Some 205); (None, None, Some 5, Some 205); (None, None, None, Some 200)]%Z.
Proof. vm_compute. reflexivity. Qed.

(* nothing left in the detector by an earlier run leaks into this one: the whole outcome (every clock,
   every bucket at the start and at the end of every step) is independent of d0 — for ALL scenarios *)
Theorem C02_no_leak :
  forall (A : Type) (zero : A) f r s nd ops (prog : program A) d0 d0',
  scenario A zero src_guards src_empty f r s nd ops prog d0
  = scenario A zero src_guards src_empty f r s nd ops prog d0'.
Proof. intros A zero. apply (scenario_no_leak A zero src_guards src_empty). vm_compute. reflexivity. Qed.
Print Assumptions C02_no_leak.

(* ------------------------------------------------------------------------------------------------ *)
(* binary64: readout times whose differences are not exactly representable (0.1, 0.2, 0.3, ...)       *)

(* numpy computes the steps and the absolute time in binary64; each is the exact rational value (what the
   model above computes over Q) rounded to nearest-even ([rnd64] = Flocq's binary_normalize, on Z).  The
   clock the models see at step i of a valid run is then: time t_i, step fl(t_i - t_(i-1)), absolute time
   fl(start + t_i), counter i, first / last — for every schedule, not only the exactly representable ones *)
Theorem C02_float_clock :
  forall (A : Type) (zero : A) f r s nd ops (prog : program A) d0, valid_scenario r s nd ops ->
  exists qs st trace,
    r_times (final r s nd ops) = R1 (map TQ qs) /\ r_start (final r s nd ops) = TQ st
    /\ round_outcome (scenario A zero src_guards src_empty f r s nd ops prog d0) = Ran trace
    /\ length trace = length qs
    /\ forall i o, nth_error trace i = Some o ->
         c_time (o_clock o) = TQ (nth i qs 0)
         /\ c_step (o_clock o) = rnd64 (TQ (nth i qs 0 - nth i (st :: qs) 0))
         /\ c_abs (o_clock o) = rnd64 (TQ (st + nth i qs 0))
         /\ c_count (o_clock o) = Z.of_nat i
         /\ c_first (o_clock o) = Nat.eqb i 0
         /\ c_last (o_clock o) = Nat.eqb (S i) (length qs).
Proof. intros A zero. apply (st_clock_f A zero src_guards src_empty); vm_compute; reflexivity. Qed.
Print Assumptions C02_float_clock.

(* the binary64 oracle of the correspondence leg ([case_violates_f]) never flags the rounded image of the
   model's own trace *)
Theorem C02_float_oracle_accepts_model :
  forall f r s nd ops plan d0 rp0 os aft,
  valid_scenario r s nd ops ->
  scenario Z 0%Z src_guards src_empty f r s nd ops (prog_of plan) d0 = Ran os ->
  case_violates_f {| k_form := f; k_raw := r; k_start := s; k_nd := nd; k_ops := ops; k_d0 := d0;
                     k_rp0 := rp0; k_plan := plan; k_obs := IRan (map round_obs os); k_after := aft |} = false.
Proof. apply (oracle_f_accepts_model src_guards src_empty); vm_compute; reflexivity. Qed.
Print Assumptions C02_float_oracle_accepts_model.

(* times 0.1, 0.2, 0.3 (the doubles) from start 0: the steps are 0.1, 0.1, 0.09999999999999998 and not three
   times the same number; rounding is the identity on exactly representable values *)
Example C02_ex_float_steps :
  let d01 := TQ (3602879701896397 # 36028797018963968) in
  let d02 := TQ (3602879701896397 # 18014398509481984) in
  let d03 := TQ (5404319552844595 # 18014398509481984) in
  forallb (fun p => tv_eqb (fst p) (snd p))
          (combine (steps_f (TQ 0) [d01; d02; d03]) [d01; d01; TQ (900719925474099 # 9007199254740992)])
  = true
  /\ tv_eqb (rnd64 (tadd d01 d02)) (TQ (5404319552844596 # 18014398509481984)) = true
  /\ tv_eqb (rnd64 (TQ (3 # 2))) (TQ (3 # 2)) = true /\ tv_eqb (rnd64 (TQ (-7 # 1))) (TQ (-7 # 1)) = true
  /\ rnd64 TNaN = TNaN.
Proof. vm_compute. repeat split. Qed.

(* ------------------------------------------------------------------------------------------------ *)
(* several runs on ONE detector object                                                                *)

(* [scenario_st ... st] is the same run on the detector as an object in state [st] = its buckets AND the
   ReadoutProperties object it carries from an earlier run (sampling arrays, start time, mode, running
   clock — whatever an earlier run or the caller's assignments through public setters left there).  The
   object-level run stores time / time_step / pipeline_count INTO that object and the models read the clock
   FROM it.  Its outcome is the functional run above on the detector's buckets: nothing of the object the
   detector carried is read.  Re-proved against the regenerated policy of Detector.set_readout. *)
Theorem C02_run_on_object_refines :
  forall (A : Type) (zero : A) f r s nd ops (prog : program A) (st : dstate A),
  fst (scenario_st A zero src_guards src_empty src_set_readout f r s nd ops prog st)
  = scenario A zero src_guards src_empty f r s nd ops prog (ds_det st).
Proof. intros A zero. exact (scenario_st_new A zero src_guards src_empty). Qed.
Print Assumptions C02_run_on_object_refines.

(* no leak, object level: the outcome is independent of the WHOLE prior state of the detector — buckets and
   ReadoutProperties object (times, steps, num_steps, start, mode, time, time_step, pipeline_count) *)
Theorem C02_no_leak_object :
  forall (A : Type) (zero : A) f r s nd ops (prog : program A) (st st' : dstate A),
  fst (scenario_st A zero src_guards src_empty src_set_readout f r s nd ops prog st)
  = fst (scenario_st A zero src_guards src_empty src_set_readout f r s nd ops prog st').
Proof. intros A zero. apply (scenario_st_no_leak A zero src_guards src_empty). vm_compute. reflexivity. Qed.
Print Assumptions C02_no_leak_object.

(* sessions: any number of runs on one detector, each with its own readout (any construction history — the
   same schedule again, only the start changed, only the mode changed, ...) and its own models, with
   ARBITRARY changes of the detector state by the caller between the runs: run k has exactly the outcome of
   the same scenario made alone on a blank detector *)
Theorem C02_session_no_leak :
  forall (A : Type) (zero : A) (runs : list (run_spec A)) (st : dstate A),
  session A zero src_guards src_empty src_set_readout runs st
  = map (run_alone A zero src_guards src_empty) runs.
Proof. intros A zero. apply (session_no_leak A zero src_guards src_empty). vm_compute. reflexivity. Qed.
Print Assumptions C02_session_no_leak.

(* ... hence every clock field of every step of every valid run of every session is the closed form *)
Theorem C02_session_clock :
  forall (A : Type) (zero : A) (runs : list (run_spec A)) (st : dstate A) k r,
  nth_error runs k = Some r ->
  valid_scenario (rs_raw r) (rs_start r) (rs_nd r) (rs_ops r) ->
  exists qs s0 trace,
    r_times (final (rs_raw r) (rs_start r) (rs_nd r) (rs_ops r)) = R1 (map TQ qs)
    /\ r_start (final (rs_raw r) (rs_start r) (rs_nd r) (rs_ops r)) = TQ s0
    /\ nth_error (session A zero src_guards src_empty src_set_readout runs st) k = Some (Ran trace)
    /\ length trace = length qs
    /\ forall i o, nth_error trace i = Some o ->
         c_time (o_clock o) = TQ (nth i qs 0)
         /\ c_step (o_clock o) = TQ (nth i qs 0 - nth i (s0 :: qs) 0)
         /\ c_abs (o_clock o) = TQ (s0 + nth i qs 0)
         /\ c_count (o_clock o) = Z.of_nat i
         /\ c_first (o_clock o) = Nat.eqb i 0
         /\ c_last (o_clock o) = Nat.eqb (S i) (length qs).
Proof. intros A zero. apply (session_clock A zero src_guards src_empty); vm_compute; reflexivity. Qed.
Print Assumptions C02_session_clock.

(* ... and so is the bucket state at the start of every step of every valid run of every session *)
Theorem C02_session_step_start_buckets :
  forall (A : Type) (zero : A) (runs : list (run_spec A)) (st : dstate A) k r,
  nth_error runs k = Some r ->
  valid_scenario (rs_raw r) (rs_start r) (rs_nd r) (rs_ops r) ->
  exists trace,
    nth_error (session A zero src_guards src_empty src_set_readout runs st) k = Some (Ran trace)
    /\ forall i o, nth_error trace i = Some o ->
         scene (o_begin o) = None /\ photon (o_begin o) = None /\ charge (o_begin o) = None
         /\ cframe (o_begin o) = None
         /\ signal (o_begin o) = None /\ image (o_begin o) = None
         /\ pixel (o_begin o) =
            match i with
            | O => Some zero
            | S j => if r_nd (final (rs_raw r) (rs_start r) (rs_nd r) (rs_ops r))
                     then match nth_error trace j with Some p => pixel (o_end p) | None => Some zero end
                     else Some zero
            end.
Proof. intros A zero. apply (session_step_start A zero src_guards src_empty); vm_compute; reflexivity. Qed.
Print Assumptions C02_session_step_start_buckets.

(* the hypothesis on Detector.set_readout is needed: a set_readout that keeps an object it already has lets
   the previous run's sampling through (same readout, two prior states, different clocks) *)
Example C02_ex_kept_object_leaks :
  let ro_prev := {| r_times := R1 [TQ 1; TQ 2]; r_start := TQ 0; r_nd := false |} in
  let st0 := {| ds_det := blank unit; ds_rp := None |} in
  let st1 := {| ds_det := blank unit; ds_rp := rp_init src_guards ro_prev |} in
  fst (scenario_st unit tt src_guards src_empty SRKeepExisting FList (R1 [TQ 1; TQ 2]) (TQ (1#2)) false []
                   (fun _ d => d) st0)
  <> fst (scenario_st unit tt src_guards src_empty SRKeepExisting FList (R1 [TQ 1; TQ 2]) (TQ (1#2)) false []
                      (fun _ d => d) st1).
Proof. vm_compute. intros H. discriminate H. Qed.

(* non-vacuity of the session theorems: three runs on one detector — the same schedule twice with only the
   start changed, then the other mode — with the caller overwriting the object's start time and clock in
   between; the first-step time steps are 1 - 0, 1 - 1/2, 1 - 1/2 *)
Example C02_ex_session :
  let rs (s : Q) (nd : bool) : run_spec Z :=
    {| rs_tamper := fun st => {| ds_det := ds_det st;
                                 ds_rp := option_map (fun p => mkrp (rp_times p) (rp_steps p) (rp_num p) (TQ 7)
                                                                    (rp_nd p) (TQ 5) (TQ 3) 9%Z) (ds_rp st) |};
       rs_form := FList; rs_raw := R1 [TQ 1; TQ 3]; rs_start := TQ s; rs_nd := nd; rs_ops := [];
       rs_prog := prog_of [[WAdd Pixel 2]; [WAdd Pixel 2]]%Z |} in
  map (fun o => match o with
                | Ran os => map (fun ob => (c_step (o_clock ob), c_abs (o_clock ob), pixel (o_begin ob))) os
                | Rejected _ => []
                end)
      (session Z 0%Z src_guards src_empty src_set_readout [rs 0 false; rs (1#2) false; rs (1#2) true]
               {| ds_det := blank Z; ds_rp := None |})
  = [[(TQ 1, TQ 1, Some 0%Z); (TQ 2, TQ 3, Some 0%Z)];
     [(TQ (1#2), TQ (3#2), Some 0%Z); (TQ 2, TQ (7#2), Some 0%Z)];
     [(TQ (1#2), TQ (3#2), Some 0%Z); (TQ 2, TQ (7#2), Some 2%Z)]].
Proof. vm_compute. reflexivity. Qed.

(* ------------------------------------------------------------------------------------------------ *)
(* invalid schedules                                                                                  *)

(* whatever the caller does (constructor in any form, then any setters / replace), if the schedule that
   would be run is not valid — NaN times and a NaN start time included — an exception is raised before any
   model executes.  Re-proved against the regenerated guard list of ReadoutProperties.__init__ (the
   validation every path goes through before the first model): it must contain the first-time-non-zero test,
   the strictly-increasing test and the start test in its POSITIVE form `not start < times[0]`, which a NaN
   on either side fails (the negative form `start >= times[0]` lets every NaN through). *)
Theorem C02_invalid_rejected :
  forall (A : Type) (zero : A) f r s nd ops (prog : program A) d0,
  ~ ro_valid (final r s nd ops) ->
  exists stage, scenario A zero src_guards src_empty f r s nd ops prog d0 = Rejected stage.
Proof. intros A zero. apply (scenario_invalid A zero src_guards src_empty). vm_compute. reflexivity. Qed.
Print Assumptions C02_invalid_rejected.

(* the same for ANY state a Readout object can be in when run_pipeline receives it (so: through every
   sequence of setter calls, including the `times` setter, which has no monotonicity guard) *)
Theorem C02_invalid_rejected_any_readout_state :
  forall (A : Type) (zero : A) ro (prog : program A) d0,
  ~ ro_valid ro ->
  run_readout A zero src_guards src_empty ro prog d0 = Rejected 2.
Proof. intros A zero. apply (run_invalid A zero src_guards src_empty). vm_compute. reflexivity. Qed.
Print Assumptions C02_invalid_rejected_any_readout_state.

(* ... and on the detector as an object, in a session: an invalid run is refused whatever the detector
   carries, and it leaves the detector exactly as it found it (buckets and ReadoutProperties object) *)
Theorem C02_invalid_rejected_object_untouched :
  forall (A : Type) (zero : A) f r s nd ops (prog : program A) (st : dstate A),
  ~ ro_valid (final r s nd ops) ->
  exists stage,
    scenario_st A zero src_guards src_empty src_set_readout f r s nd ops prog st = (Rejected stage, st).
Proof. intros A zero. apply (scenario_st_invalid A zero src_guards src_empty). vm_compute. reflexivity. Qed.
Print Assumptions C02_invalid_rejected_object_untouched.

(* a caller who only ever installs valid schedules is never refused: every form of `times`, every setter,
   every replace().  Re-proved against the regenerated shape of Readout.__init__ (a numpy array given as
   `times` — what replace() passes — is converted to a list before the checks). *)
Theorem C02_valid_runs :
  forall (A : Type) (zero : A) f r s nd ops (prog : program A) d0,
  Forall ro_valid (intended_all {| r_times := r; r_start := s; r_nd := nd |} ops) ->
  exists trace, scenario A zero src_guards src_empty f r s nd ops prog d0 = Ran trace.
Proof.
  intros A zero f r s nd ops prog d0 Hv.
  destruct (st_runs A zero src_guards src_empty (eq_refl : g_ndarray src_guards = true) f r s nd ops prog d0 Hv)
    as [qs [st [_ [_ [_ H]]]]].
  eexists. exact H.
Qed.
Print Assumptions C02_valid_runs.

(* dichotomy: every scenario either raises before any model executes or runs the final schedule, which is
   then valid — there is no third outcome (no run on an invalid schedule) *)
Theorem C02_ran_only_if_valid :
  forall (A : Type) (zero : A) f r s nd ops (prog : program A) d0 trace,
  scenario A zero src_guards src_empty f r s nd ops prog d0 = Ran trace -> ro_valid (final r s nd ops).
Proof. intros A zero. apply (scenario_ran_valid A zero src_guards src_empty). vm_compute. reflexivity. Qed.
Print Assumptions C02_ran_only_if_valid.

(* the validity test used as the oracle of the correspondence leg (a bool function evaluated on the
   implementation's cases) decides exactly the validity predicate of the theorems above *)
Theorem C02_oracle_validity : forall r s, valid_b r s = true <-> valid r s.
Proof. exact valid_b_iff. Qed.
Print Assumptions C02_oracle_validity.

(* ... and the bool specification evaluated on the implementation's observations ([case_violates]: closed
   forms of C02_clock / C02_step_start_buckets) accepts the model's own trace on every valid scenario,
   for every write plan and prior state: a case flagged by the oracle is a case where the implementation
   departs from what the theorems above describe *)
Theorem C02_oracle_accepts_model :
  forall f r s nd ops plan d0 rp0 os aft,
  valid_scenario r s nd ops ->
  scenario Z 0%Z src_guards src_empty f r s nd ops (prog_of plan) d0 = Ran os ->
  case_violates {| k_form := f; k_raw := r; k_start := s; k_nd := nd; k_ops := ops; k_d0 := d0;
                   k_rp0 := rp0; k_plan := plan; k_obs := IRan os; k_after := aft |} = false.
Proof. apply (oracle_accepts_model src_guards src_empty); vm_compute; reflexivity. Qed.
Print Assumptions C02_oracle_accepts_model.

(* ... and it accepts an exception raised before any model executed whenever some schedule the caller
   installed was not valid; with C02_valid_runs / C02_invalid_rejected: the oracle never flags the model *)
Theorem C02_oracle_accepts_rejection :
  forall f r s nd ops plan d0 rp0 stage aft,
  ~ valid_scenario r s nd ops ->
  case_violates {| k_form := f; k_raw := r; k_start := s; k_nd := nd; k_ops := ops; k_d0 := d0;
                   k_rp0 := rp0; k_plan := plan; k_obs := IRejected stage 0; k_after := aft |} = false.
Proof. exact oracle_accepts_rejection. Qed.
Print Assumptions C02_oracle_accepts_rejection.

(* ------------------------------------------------------------------------------------------------ *)
(* non-vacuity: concrete inputs meeting the hypotheses, and what the model computes on them           *)

Example C02_ex_valid_scenario :
  valid_scenario (R1 [TQ (1#2); TQ 1; TQ 4]) (TQ (-1)) true
                 [OSetTimes (R1 [TQ 2; TQ 3; TQ (7#2)]); OSetStart (TQ 1); OSetND false; OSetND true].
Proof.
  repeat constructor.
  - exists [1#2; 1; 4], (-1). repeat split; try reflexivity; intros Hc; discriminate Hc.
  - exists [2; 3; 7#2], (-1). repeat split; try reflexivity; intros Hc; discriminate Hc.
  - exists [2; 3; 7#2], 1. repeat split; try reflexivity; intros Hc; discriminate Hc.
  - exists [2; 3; 7#2], 1. repeat split; try reflexivity; intros Hc; discriminate Hc.
  - exists [2; 3; 7#2], 1. repeat split; try reflexivity; intros Hc; discriminate Hc.
Qed.

(* non-destructive run over [2; 3; 7/2] from 1 on a detector full of junk, a writer adding 5 to pixel and
   setting photon at every step: clocks (2,1,3,0,T,F) (3,1,4,1,F,F) (7/2,1/2,9/2,2,F,T), pixel 0 -> 5 -> 10 -> 15 *)
Example C02_ex_trace :
  let junk := {| scene := Some 9; photon := Some 9; charge := Some 9; cframe := Some 9; pixel := Some 9;
                 signal := Some 9; image := Some 9 |}%Z in
  match model_of src_guards src_empty src_set_readout
          {| k_form := FList; k_raw := R1 [TQ (1#2); TQ 1; TQ 4]; k_start := TQ (-1); k_nd := true;
             k_ops := [OSetTimes (R1 [TQ 2; TQ 3; TQ (7#2)]); OSetStart (TQ 1)]; k_d0 := junk;
             k_rp0 := Some (mkrp [TQ 7; TQ 8] [TQ 4; TQ 1] 2 (TQ 3) false (TQ 8) (TQ 1) 1);
             k_plan := [[WAdd Pixel 5; WSet Photon 7]; [WAdd Pixel 5; WSet Photon 7]; [WAdd Pixel 5]]%Z;
             k_obs := IRejected 0 0; k_after := None |} with
  | Ran os =>
      map (fun o => (c_count (o_clock o), c_first (o_clock o), c_last (o_clock o), pixel (o_begin o),
                     photon (o_begin o), pixel (o_end o))) os
  | Rejected _ => []
  end
  = [(0, true, false, Some 0, None, Some 5); (1, false, false, Some 5, None, Some 10);
     (2, false, true, Some 10, None, Some 15)]%Z.
Proof. vm_compute. reflexivity. Qed.

(* NaN is refused on every path: as a time or as the start in the constructor, as the start through its
   setter (stage 1), as a later time through the `times` setter — which has no monotonicity guard — by
   ReadoutProperties.__init__ (stage 2); never a run *)
Example C02_ex_nan_rejected :
  let run r s ops := scenario unit tt src_guards src_empty FList r s false ops (fun _ d => d) (blank unit) in
  run (R1 [TNaN]) (TQ 0) [] = Rejected 0
  /\ run (R1 [TQ 1; TNaN; TQ 3]) (TQ 0) [] = Rejected 0
  /\ run (R1 [TQ 1]) TNaN [] = Rejected 0
  /\ run (R1 [TQ 1]) (TQ 0) [OSetStart TNaN] = Rejected 1
  /\ run (R1 [TQ 1]) (TQ 0) [OSetTimes (R1 [TNaN; TQ 2])] = Rejected 1
  /\ run (R1 [TQ 1]) (TQ 0) [OSetTimes (R1 [TQ 1; TNaN])] = Rejected 2.
Proof. vm_compute. repeat split. Qed.

(* replace() without `times` and a numpy array given to the constructor run *)
Example C02_ex_replace_runs :
  let n f ops := match scenario unit tt src_guards src_empty f (R1 [TQ 1; TQ 2]) (TQ 0) false ops (fun _ d => d)
                               (blank unit) with Ran os => Some (length os) | Rejected _ => None end in
  n FList [OReplaceND true] = Some 2%nat /\ n FList [OReplaceStart (TQ (1#2))] = Some 2%nat
  /\ n FNdarray [] = Some 2%nat /\ n FNdarray [OReplaceStart (TQ (-1)); OSetTimes (R1 [TQ 3])] = Some 1%nat.
Proof. vm_compute. repeat split. Qed.

(* invalid, NaN-free schedules exist on every path: the `times` setter accepts decreasing times *)
Example C02_ex_invalid_via_setter :
  let ro := {| r_times := R1 [TQ 1; TQ 2]; r_start := TQ 0; r_nd := false |} in
  apply_ops src_guards ro [OSetTimes (R1 [TQ 3; TQ 2; TQ 1])]
  = Some {| r_times := R1 [TQ 3; TQ 2; TQ 1]; r_start := TQ 0; r_nd := false |}
  /\ nan_free (R1 [TQ 3; TQ 2; TQ 1]) (TQ 0)
  /\ ~ valid (R1 [TQ 3; TQ 2; TQ 1]) (TQ 0).
Proof.
  split; [vm_compute; reflexivity|]. split; [split; reflexivity|].
  intros [qs [st [Hq [Hs Hv]]]]. injection Hq as Hq. injection Hs as Hs. subst st.
  destruct qs as [|a [|b [|c [|d qs]]]]; try discriminate.
  injection Hq as H1 H2 H3. subst a b c. destruct Hv as [_ [_ [Hlt _]]]. discriminate Hlt.
Qed.
