(* C07 — parallel execution yields the same results as sequential execution.
   Only statements here; the model is Model/Parallel.v, proofs live in Proofs/Parallel*.v. *)
From Coq Require Import ZArith List Bool Lia PeanoNat Permutation.
From PyxelV Require Import Model.Parallel Proofs.ParallelParams Proofs.ParallelSched Proofs.ParallelRng.
Import ListNotations.

(* ===================================================================== 1. the parameter arrays *)

(* ---- product mode, any number of parameters, any lengths, any level normalisation that only
   reorders (pandas sorts the levels): the cells of the dask parameter array are exactly the value
   tuples of the sequential runs (as a multiset: none missing, none twice), there is one cell per run,
   and the cell at multi-index mi -- flat position rank mi, which is also its file index -- holds
   exactly the values its coordinates name (no transposition, no neighbour's values) *)
Theorem C07_params_agree_product :
  forall (A : Type) (norm : list A -> list A) (ok : list A -> bool),
  (forall l, Permutation (norm l) l) ->
  forall vs sh cells, dask_product_gen norm ok vs = Some (sh, cells) ->
    Permutation cells (map snd (seq_product vs))
    /\ length cells = prodn sh
    /\ (forall mi, valid_index sh mi ->
          exists t, pick (map norm vs) mi = Some t /\ nth_error cells (rank sh mi) = Some t).
Proof. intros A norm ok H vs sh cells. now apply product_params_agree. Qed.
Print Assumptions C07_params_agree_product.

(* the normalisation of the executable model (insertion sort in tuple order) meets the hypothesis *)
Theorem C07_sort_level_permutes : forall l, Permutation (sort_level l) l.
Proof. exact sort_level_perm. Qed.
Print Assumptions C07_sort_level_permutes.

(* value lists already in increasing order without repeats: the dask array is literally the run list *)
Theorem C07_params_agree_product_sorted :
  forall vs, forallb strictly_sorted vs = true -> forallb nodupb vs = true ->
  dask_params (Product vs) = Some (map (@length pval) vs, seq_params (Product vs)).
Proof. exact product_sorted_exact. Qed.
Print Assumptions C07_params_agree_product_sorted.

Example C07_product_nonvacuous :
  dask_params (Product [[PS 3; PS 1; PS 2]; [PS 100; PS 200]])
  = Some ([3; 2], [[PS 1; PS 100]; [PS 1; PS 200]; [PS 2; PS 100]; [PS 2; PS 200]; [PS 3; PS 100]; [PS 3; PS 200]])
  /\ seq_params (Product [[PS 3; PS 1; PS 2]; [PS 100; PS 200]])
  = [[PS 3; PS 100]; [PS 3; PS 200]; [PS 1; PS 100]; [PS 1; PS 200]; [PS 2; PS 100]; [PS 2; PS 200]].
Proof. vm_compute. split; reflexivity. Qed.

(* FULL statement for product mode: whatever the sequential path runs, the parallel path has a cell for *)
Definition C07_params_agree_product_full : Prop :=
  forall vs, exists sh cells, dask_params (Product vs) = Some (sh, cells)
                         /\ Permutation cells (seq_params (Product vs)).

(* refuted on the unchanged tree: a value that occurs twice in one list makes create_params raise
   (pandas: non-unique MultiIndex), the sequential path runs it *)
Theorem C07_params_agree_product_refuted : ~ C07_params_agree_product_full.
Proof.
  intros H. destruct (H [[PS 1; PS 1; PS 2]]) as (sh & cells & E & _). vm_compute in E. discriminate.
Qed.
Print Assumptions C07_params_agree_product_refuted.

(* strongest true restriction: no repeated value inside a list *)
Theorem C07_params_agree_product_partial :
  forall vs, forallb nodupb vs = true ->
  exists sh cells, dask_params (Product vs) = Some (sh, cells) /\ Permutation cells (seq_params (Product vs))
                   /\ length cells = prodn sh.
Proof.
  intros vs Hn. exists (map (@length pval) vs), (cart (map sort_level vs)).
  assert (E : dask_product vs = Some (map (@length pval) vs, cart (map sort_level vs))).
  { unfold dask_product, dask_product_gen. now rewrite Hn. }
  destruct (product_params_agree sort_level nodupb sort_level_perm vs _ _ E) as (P & L & _).
  repeat split; assumption.
Qed.
Print Assumptions C07_params_agree_product_partial.

(* ---- custom mode, any number of parameters / widths / rows (rows of any length): *)
Definition C07_params_agree_custom_full : Prop :=
  forall ps table, dask_params (Custom ps table) = Some ([length table], seq_params (Custom ps table)).

(* refuted: a parameter declared as a ONE-element list ["_"] receives a 1-element list from the
   sequential path and a bare number from the dask path *)
Theorem C07_params_agree_custom_refuted : ~ C07_params_agree_custom_full.
Proof. intros H. specialize (H [CVec 1] [[5%Z]]). vm_compute in H. discriminate. Qed.
Print Assumptions C07_params_agree_custom_refuted.

Theorem C07_params_agree_custom_partial :
  forall ps table, Forall (fun p => p <> CVec 1) ps ->
  dask_params (Custom ps table) = Some ([length table], seq_params (Custom ps table)).
Proof.
  intros ps table H. unfold dask_params, seq_params. rewrite (custom_agree ps table H).
  unfold seq_custom. now rewrite map_length.
Qed.
Print Assumptions C07_params_agree_custom_partial.

(* and the sequential slicing reads every column exactly once, in order (offset = sum of earlier widths) *)
Theorem C07_custom_columns_in_order :
  forall ps row, length row = list_sum (map width ps) ->
  flat_map (fun v => match v with PS z => [z] | PV zs => zs end) (seq_custom_row ps row) = row.
Proof. exact seq_custom_row_flat. Qed.
Print Assumptions C07_custom_columns_in_order.

Example C07_custom_nonvacuous :
  dask_params (Custom [CScalar; CVec 2] [[1; 10; 20]; [2; 30; 40]]%Z)
  = Some ([2], [[PS 1; PV [10; 20]]; [PS 2; PV [30; 40]]]%Z)
  /\ Forall (fun p => p <> CVec 1) [CScalar; CVec 2].
Proof. split; [vm_compute; reflexivity|]. repeat constructor; discriminate. Qed.

(* ---- sequential mode.  FULL statement: the parallel path runs what the sequential path runs *)
Definition C07_sequential_mode_full : Prop :=
  forall defaults vs, length defaults = length vs ->
  exists sh cells, dask_params (Sequential defaults vs) = Some (sh, cells)
                   /\ Permutation cells (seq_params (Sequential defaults vs)).

(* refuted (DESIGN section 7, F12): with dask, SequentialMode.create_params zips the lists -- 2 runs
   (1,100) (2,200) instead of the 3 + 2 runs of the sequential path *)
Theorem C07_sequential_mode_refuted : ~ C07_sequential_mode_full.
Proof.
  intros H. destruct (H [PS 0; PS 0] [[PS 1; PS 2; PS 3]; [PS 100; PS 200]] eq_refl) as (sh & cells & E & P).
  vm_compute in E. injection E as _ <-. apply Permutation_length in P. vm_compute in P. discriminate.
Qed.
Print Assumptions C07_sequential_mode_refuted.

(* it never agrees: two or more parameters with values => strictly fewer runs *)
Theorem C07_sequential_mode_never_agrees :
  forall (defaults : list pval) l1 l2 rest, l1 <> [] -> l2 <> [] ->
  length (dask_sequential (l1 :: l2 :: rest)) < length (seq_sequential defaults (l1 :: l2 :: rest)).
Proof. intros. now apply sequential_fewer_runs. Qed.
Print Assumptions C07_sequential_mode_never_agrees.

(* strongest true restriction: a single parameter -- same runs, same order, same index *)
Theorem C07_sequential_mode_partial :
  forall (d : pval) (l : list pval),
  dask_params (Sequential [d] [l]) = Some ([length l], seq_params (Sequential [d] [l])).
Proof.
  intros d l. unfold dask_params, seq_params. rewrite (sequential_single d l).
  unfold seq_sequential. simpl. now rewrite app_nil_r, map_length.
Qed.
Print Assumptions C07_sequential_mode_partial.

(* ===================================================================== 2. schedules *)

(* for EVERY order in which the tasks complete, the assembled array is the same, slot s holds the
   result of the task that owns slot s, and no other slot is touched.  Hypotheses: slots distinct,
   the run is a function of its input (each task works on its own copy: C06). *)
Theorem C07_schedule_independent :
  forall (A B : Type) (f : A -> B) (n : nat) (tasks order : list (nat * A)),
  NoDup (map fst tasks) -> Permutation order tasks ->
  assemble f n order = assemble f n tasks
  /\ (forall s a, In (s, a) tasks -> s < n -> nth_error (assemble f n order) s = Some (Some (f a)))
  /\ (forall s, ~ In s (map fst tasks) -> s < n -> nth_error (assemble f n order) s = Some None).
Proof.
  intros A B f n tasks order Hnd Hp. split; [now apply assemble_perm|]. split.
  - intros s a Hin Hs. now apply (assemble_slot f n order tasks).
  - intros s Hnot Hs. apply assemble_untouched; try assumption.
    + eapply Permutation_NoDup; [|exact Hnd]. apply Permutation_map, Permutation_sym, Hp.
    + intros Hin. apply Hnot. eapply Permutation_in; [|exact Hin]. now apply Permutation_map.
Qed.
Print Assumptions C07_schedule_independent.

Example C07_schedule_nonvacuous :
  assemble (fun x => x * 10) 3 [(2, 7); (0, 5); (1, 6)] = [Some 50; Some 60; Some 70]
  /\ assemble_by_completion (fun x => x * 10) [(2, 7); (0, 5); (1, 6)] = [Some 70; Some 50; Some 60]
  /\ NoDup (map fst [(0, 5); (1, 6); (2, 7)]).
Proof. split; [reflexivity|]. split; [reflexivity|]. repeat constructor; simpl; intuition discriminate. Qed.

(* the file index: rank is a bijection between the index space of any shape (any number of
   dimensions) and [0, prod dims) *)
Theorem C07_rank_bijective :
  forall dims,
  (forall mi, valid_index dims mi -> rank dims mi < prodn dims /\ unrank dims (rank dims mi) = mi)
  /\ (forall n, n < prodn dims -> valid_index dims (unrank dims n) /\ rank dims (unrank dims n) = n)
  /\ (forall mi mi', valid_index dims mi -> valid_index dims mi' -> rank dims mi = rank dims mi' -> mi = mi').
Proof.
  intros dims. split; [|split].
  - intros mi H. split; [now apply rank_lt|now apply unrank_rank].
  - intros n H. split; [now apply unrank_valid|now apply rank_unrank].
  - apply rank_injective.
Qed.
Print Assumptions C07_rank_bijective.

Example C07_rank_nonvacuous :
  valid_index [3; 2; 4] [2; 1; 3] /\ rank [3; 2; 4] [2; 1; 3] = 23 /\ unrank [3; 2; 4] 23 = [2; 1; 3].
Proof. simpl. repeat split; lia. Qed.

(* islands: executor.map -- whatever order the creations complete in, island k is the one created
   from seeds[k] *)
Theorem C07_island_order :
  forall (S I : Type) (create : S -> I) (seeds : list S) (completion : list (nat * S)),
  Permutation completion (island_tasks seeds) ->
  assemble create (length seeds) completion = map (fun s => Some (create s)) seeds.
Proof. intros. now apply island_order. Qed.
Print Assumptions C07_island_order.

Example C07_island_nonvacuous :
  Permutation [(2, 30); (0, 10); (1, 20)] (island_tasks [10; 20; 30])
  /\ assemble_by_completion S [(2, 30); (0, 10); (1, 20)] <> map (fun s => Some (S s)) [10; 20; 30].
Proof.
  split; [|discriminate]. unfold island_tasks. simpl.
  apply (Permutation_cons_app [(0, 10); (1, 20)] []). reflexivity.
Qed.

(* DaskBFE: whatever the chunk size, every candidate is evaluated once and lands in its own position *)
Theorem C07_bfe_chunking :
  forall (A B : Type) (f : A -> B) (c : nat) (dvs : list A),
  1 <= c -> concat (map (map f) (chunks c dvs)) = map f dvs.
Proof. intros. now apply bfe_chunking. Qed.
Print Assumptions C07_bfe_chunking.

(* ===================================================================== 3. seeded blocks and workers *)

(* FULL statement: for every generator, every set of seeded blocks and every interleaving of their
   steps on ONE shared generator: when all are finished the generator is back in its initial state
   and every block has drawn the stream of its own seed (= the sequential outcome) *)
Definition C07_seeded_threads_full : Prop :=
  forall (G : Type) (seedf : Z -> G) (next : G -> G) (out : G -> Z) (g0 : G)
         (sns : list (Z * nat)) (sched : list nat),
  let r := run_shared G seedf next out sched g0 (map (start G) sns) in
  all_done G (snd r) = true ->
  fst r = g0 /\ map outs (snd r) = map (fun sn => draws_of G next out (seedf (fst sn)) (snd sn)) sns.

(* refuted (DESIGN section 7, F16): two threads, one draw each; the second thread enters its block
   while the first is inside.  Both draws are wrong AND the first thread's seed stays behind. *)
Definition witness_schedule : list nat := [0; 0; 1; 1; 0; 0; 1; 1].

Theorem C07_seeded_threads_refuted :
  let r := run_shared Z lcg_seed lcg_next lcg_out witness_schedule 12345%Z (map (start Z) [(1%Z, 1); (2%Z, 1)]) in
  all_done Z (snd r) = true
  /\ fst r <> 12345%Z
  /\ nth 0 (map outs (snd r)) [] <> draws_of Z lcg_next lcg_out (lcg_seed 1) 1
  /\ nth 1 (map outs (snd r)) [] <> draws_of Z lcg_next lcg_out (lcg_seed 2) 1.
Proof. vm_compute. repeat split; discriminate. Qed.
Print Assumptions C07_seeded_threads_refuted.

Theorem C07_seeded_threads_full_refuted : ~ C07_seeded_threads_full.
Proof.
  intros H.
  specialize (H Z lcg_seed lcg_next lcg_out 12345%Z [(1%Z, 1); (2%Z, 1)] witness_schedule).
  vm_compute in H. destruct (H eq_refl) as [E _]. discriminate.
Qed.
Print Assumptions C07_seeded_threads_full_refuted.

(* one worker (synchronous scheduler, or a pool of one): the blocks run to completion one after the
   other in ANY order; and separate processes (one generator per worker): ANY interleaving.  Both give
   the sequential outcome, for any generator, any number of blocks, any seeds, any number of draws. *)
Theorem C07_seeded_sync_or_processes :
  forall (G : Type) (seedf : Z -> G) (next : G -> G) (out : G -> Z),
  (* one worker *)
  (forall (sns : list (Z * nat)) (g : G) (order : list nat),
     NoDup order -> (forall k, k < length sns -> In k order) ->
     let ts0 := map (start G) sns in
     let r := run_shared G seedf next out (serial_schedule G ts0 order) g ts0 in
     fst r = g /\ snd r = map (done_thread G seedf next out g) sns)
  /\
  (* one generator per worker, any interleaving *)
  (forall (specs : list (G * (Z * nat))) (sched : list nat),
     let r := run_procs G seedf next out sched (map (fun gs => (fst gs, start G (snd gs))) specs) in
     all_done G (map snd r) = true ->
     r = map (fun gs => (fst gs, done_thread G seedf next out (fst gs) (snd gs))) specs).
Proof.
  intros G seedf next out. split.
  - intros sns g order Hnd Hall. now apply one_worker_all.
  - intros specs sched. apply procs_equal_sequential.
Qed.
Print Assumptions C07_seeded_sync_or_processes.

Example C07_seeded_nonvacuous :
  let ts0 := map (start Z) [(1%Z, 2); (2%Z, 1)] in
  let r := run_shared Z lcg_seed lcg_next lcg_out (serial_schedule Z ts0 [1; 0]) 12345%Z ts0 in
  fst r = 12345%Z /\ map outs (snd r) = [[1; 149]; [2]]%Z /\ all_done Z (snd r) = true
  /\ let p := run_procs Z lcg_seed lcg_next lcg_out witness_schedule [(7%Z, start Z (1%Z, 1)); (9%Z, start Z (2%Z, 1))] in
     all_done Z (map snd p) = true /\ map fst p = [7; 9]%Z /\ map (fun x => outs (snd x)) p = [[1]; [2]]%Z.
Proof. vm_compute. repeat split; reflexivity. Qed.
