(* C07 — parallel execution yields the same results as sequential execution.
   Only statements here; the model is Model/Parallel.v, proofs live in Proofs/Parallel*.v. *)
From Coq Require Import String.
From Coq Require Import ZArith List Bool Lia PeanoNat Permutation.
From PyxelV Require Import Model.Parallel Proofs.ParallelParams Proofs.ParallelSched Proofs.ParallelRng
     Proofs.ParallelFull Proofs.ParallelPickle.
From PyxelGen Require Import Gen_C07.
Import ListNotations.

(* `src_cfg : dask_cfg` (Gen_C07.v) is regenerated from the source on every run by translator/c07.py: how
   create_params of the three modes builds the parameter array and how the dask path binds the values of a cell
   to the parameter keys.  Section 1-2 state the theorems for EVERY configuration with the properties they need;
   section 4 (end of the file) instantiates them with the configuration the code has now. *)

(* ===================================================================== 1. the parameter arrays *)

(* ---- product mode, any number of parameters, any lengths, any level normalisation that only
   reorders (pandas sorts the levels): the cells of the dask parameter array are exactly the value
   tuples of the sequential runs (as a multiset: none missing, none twice), there is one cell per run,
   and the cell at multi-index mi -- flat position rank mi, which is also its file index -- holds
   exactly the values its coordinates name (no transposition, no neighbour's values) *)
Theorem C07_params_agree_product :
  forall (A : Type) (norm : list A -> list A) (ok : list A -> bool),
  (forall l, Permutation (norm l) l) ->
  forall vs sh cells, dask_product_gen norm ok vs = Some (sh, cells) ->
    Permutation cells (map snd (seq_product vs))
    /\ length cells = prodn sh
    /\ (forall mi, valid_index sh mi ->
          exists t, pick (map norm vs) mi = Some t /\ nth_error cells (rank sh mi) = Some t).
Proof. intros A norm ok H vs sh cells. now apply product_params_agree. Qed.
Print Assumptions C07_params_agree_product.

(* the normalisation of the executable model (insertion sort in tuple order) meets the hypothesis *)
Theorem C07_sort_level_permutes : forall l, Permutation (sort_level l) l.
Proof. exact sort_level_perm. Qed.
Print Assumptions C07_sort_level_permutes.

(* value lists already in increasing order without repeats: the dask array is literally the run list *)
Theorem C07_params_agree_product_sorted :
  forall vs, forallb strictly_sorted vs = true -> forallb nodupb vs = true ->
  dask_params (Product vs) = Some (map (@length pval) vs, seq_params (Product vs)).
Proof. exact product_sorted_exact. Qed.
Print Assumptions C07_params_agree_product_sorted.

Example C07_product_nonvacuous :
  dask_params (Product [[PS 3; PS 1; PS 2]; [PS 100; PS 200]])
  = Some ([3; 2], [[PS 1; PS 100]; [PS 1; PS 200]; [PS 2; PS 100]; [PS 2; PS 200]; [PS 3; PS 100]; [PS 3; PS 200]])
  /\ seq_params (Product [[PS 3; PS 1; PS 2]; [PS 100; PS 200]])
  = [[PS 3; PS 100]; [PS 3; PS 200]; [PS 1; PS 100]; [PS 1; PS 200]; [PS 2; PS 100]; [PS 2; PS 200]].
Proof. vm_compute. split; reflexivity. Qed.

(* product mode, FULL (round 2, after the repair of C07-product-duplicate-values: the levels are de-duplicated
   like dict.fromkeys before pandas sees them): for EVERY list of value lists -- repeats included -- the parallel
   path builds an array; its cells are exactly the value tuples the sequential path runs (as a set: the non-dask
   result has one coordinate per distinct value too), no cell occurs twice, one cell per entry of the shape; and
   when no list repeats a value the cells are a permutation of the sequential runs *)
Theorem C07_product_mode :
  forall c vs, cfg_prod c = LevelsDedup ->
  exists sh cells,
    dask_params_cfg c (Product vs) = Some (sh, cells)
    /\ (forall t, In t cells <-> In t (seq_params (Product vs)))
    /\ NoDup cells
    /\ length cells = prodn sh
    /\ (forallb nodupb vs = true -> Permutation cells (seq_params (Product vs))).
Proof. intros c vs H. simpl. rewrite H. apply product_dedup_full. Qed.
Print Assumptions C07_product_mode.

Example C07_product_mode_nonvacuous :
  dask_params_cfg cfg_repaired (Product [[PS 1; PS 1; PS 2]; [PS 5; PS 3]])
  = Some ([2; 2], [[PS 1; PS 3]; [PS 1; PS 5]; [PS 2; PS 3]; [PS 2; PS 5]])
  /\ dask_params_cfg cfg_round1 (Product [[PS 1; PS 1; PS 2]; [PS 5; PS 3]]) = None.
Proof. vm_compute. split; reflexivity. Qed.

(* why the row matters: with the raw levels (round 1) a repeated value makes create_params refuse *)
Theorem C07_product_raw_levels_refuse :
  forall c, cfg_prod c = LevelsRaw -> dask_params_cfg c (Product [[PS 1; PS 1; PS 2]]) = None.
Proof. intros c H. simpl. rewrite H. reflexivity. Qed.
Print Assumptions C07_product_raw_levels_refuse.

(* ---- custom mode, FULL (round 2, after the repair of C07-custom-one-element-list: convert_custom_data returns a
   bare number only for the placeholder "_" itself): any number of parameters, any widths (["_"] included), any
   table (rows of any length): the parallel path runs exactly the rows of the sequential path, in order *)
Theorem C07_custom_mode :
  forall c ps table, cfg_custom c = ByPlaceholder ->
  dask_params_cfg c (Custom ps table) = Some ([length table], seq_params (Custom ps table)).
Proof.
  intros c ps table H. simpl. rewrite H, map_length. f_equal. f_equal.
  unfold seq_custom. apply map_ext. apply custom_row_placeholder.
Qed.
Print Assumptions C07_custom_mode.

(* why the row matters: with the len(params) == 1 test (round 1) a parameter declared ["_"] receives a bare number *)
Theorem C07_custom_bylength_differs :
  forall c, cfg_custom c = ByLength ->
  dask_params_cfg c (Custom [CVec 1] [[5%Z]]) <> Some ([1], seq_params (Custom [CVec 1] [[5%Z]])).
Proof. intros c H. simpl. rewrite H. vm_compute. discriminate. Qed.
Print Assumptions C07_custom_bylength_differs.

(* and the sequential slicing reads every column exactly once, in order (offset = sum of earlier widths) *)
Theorem C07_custom_columns_in_order :
  forall ps row, length row = list_sum (map width ps) ->
  flat_map (fun v => match v with PS z => [z] | PV zs => zs end) (seq_custom_row ps row) = row.
Proof. exact seq_custom_row_flat. Qed.
Print Assumptions C07_custom_columns_in_order.

Example C07_custom_nonvacuous :
  dask_params_cfg cfg_repaired (Custom [CScalar; CVec 2; CVec 1] [[1; 10; 20; 7]; [2; 30; 40; 8]]%Z)
  = Some ([2], [[PS 1; PV [10; 20]; PV [7]]; [PS 2; PV [30; 40]; PV [8]]]%Z).
Proof. vm_compute. reflexivity. Qed.

(* ---- sequential mode, FULL (round 2, after the repair of C07-sequential-mode-zips: create_params takes its rows
   from get_parameters_item, the generator of the non-dask path): any number of parameters, any lengths, any
   defaults: the parallel path runs exactly the runs of the sequential path, in the same order under the same id *)
Theorem C07_sequential_mode :
  forall c defaults vs, cfg_seq c = SeqEnumerate ->
  dask_params_cfg c (Sequential defaults vs)
  = Some ([length (seq_params (Sequential defaults vs))], seq_params (Sequential defaults vs)).
Proof. intros c d vs H. simpl. rewrite H. reflexivity. Qed.
Print Assumptions C07_sequential_mode.

(* what those runs are: there are (sum of the lengths) of them, and the run with index (values listed before
   parameter k) + j sets parameter k to its j-th value and leaves every other parameter at its default *)
Theorem C07_sequential_one_at_a_time :
  forall (defaults : list pval) vs,
  length (seq_params (Sequential defaults vs)) = list_sum (map (@length pval) vs)
  /\ forall k j l v, nth_error vs k = Some l -> nth_error l j = Some v -> k < length defaults ->
       exists run, nth_error (seq_params (Sequential defaults vs)) (list_sum (map (@length pval) (firstn k vs)) + j) = Some run
                   /\ nth_error run k = Some v
                   /\ length run = length defaults
                   /\ forall k', k' <> k -> nth_error run k' = nth_error defaults k'.
Proof.
  intros d vs. split; [apply seq_sequential_from_length|].
  intros k j l v Hk Hj Hkd. exists (set_nth k v d). repeat split.
  - exact (seq_sequential_from_nth d vs 0 k j l v Hk Hj).
  - now apply nth_error_set_nth_same.
  - apply set_nth_length.
  - intros k' Hn. apply nth_error_set_nth_other. intros E. apply Hn. now symmetry.
Qed.
Print Assumptions C07_sequential_one_at_a_time.

Example C07_sequential_nonvacuous :
  dask_params_cfg cfg_repaired (Sequential [PS 7; PS 8] [[PS 1; PS 2; PS 3]; [PS 10; PS 12]])
  = Some ([5], [[PS 1; PS 8]; [PS 2; PS 8]; [PS 3; PS 8]; [PS 7; PS 10]; [PS 7; PS 12]])
  /\ dask_params_cfg cfg_round1 (Sequential [PS 7; PS 8] [[PS 1; PS 2; PS 3]; [PS 10; PS 12]])
  = Some ([2], [[PS 1; PS 10]; [PS 2; PS 12]]).
Proof. vm_compute. split; reflexivity. Qed.

(* why the row matters: zipping the lists (round 1) NEVER agrees with two or more non-empty lists -- strictly
   fewer runs *)
Theorem C07_sequential_zip_never_agrees :
  forall (defaults : list pval) l1 l2 rest, l1 <> [] -> l2 <> [] ->
  length (dask_sequential (l1 :: l2 :: rest)) < length (seq_sequential defaults (l1 :: l2 :: rest)).
Proof. intros. now apply sequential_fewer_runs. Qed.
Print Assumptions C07_sequential_zip_never_agrees.

(* ---- binding of the values of a cell to the parameter keys.  The dask path zips a mapping (dimension names)
   with the tuple POSITIONALLY.  For any keys without repeats: when the zipped mapping iterates in the order in
   which the tuples were built, every key receives its own value ... *)
Theorem C07_binding_sound :
  forall (V : Type) (c : dask_cfg) (keys types_order names_order zip_order tuple_keys : list nat) (tuple : list V),
  NoDup keys -> length tuple = length keys ->
  (cfg_types_steps_order c = true -> types_order = keys) ->
  (cfg_names_keep_order c = true -> names_order = types_order) ->
  (cfg_same_mapping c = true -> zip_order = names_order) ->
  (cfg_tuple_steps_order c = true -> tuple_keys = keys) ->
  binding_ok c = true ->
  received (cfg_bind c) zip_order tuple_keys keys tuple = map Some tuple.
Proof. intros V c keys to no zo tk tuple. apply received_sound. Qed.
Print Assumptions C07_binding_sound.

(* ... and ONLY then: if the mapping iterates in any other order, the tuple (0, .., n-1) is received wrongly *)
Theorem C07_binding_position_needs_order :
  forall keys order, NoDup keys -> Permutation order keys -> order <> keys ->
  received BindPosition order keys keys (seq 0 (length keys)) <> map Some (seq 0 (length keys)).
Proof. intros keys order Hnd Hp Hne H. apply Hne. now apply received_position_complete. Qed.
Print Assumptions C07_binding_position_needs_order.

Example C07_binding_nonvacuous :
  (* keys gain=0, a.level=1, b.level=2; a mapping that lists the two 'level' keys first *)
  received BindPosition [1; 2; 0] [0; 1; 2] [0; 1; 2] [PS 6; PS 100; PS 1000] = [Some (PS 1000); Some (PS 6); Some (PS 100)]
  /\ received BindPosition [0; 1; 2] [0; 1; 2] [0; 1; 2] [PS 6; PS 100; PS 1000] = [Some (PS 6); Some (PS 100); Some (PS 1000)]
  /\ NoDup [0; 1; 2] /\ Permutation [1; 2; 0] [0; 1; 2].
Proof.
  split; [reflexivity|]. split; [reflexivity|]. split; [repeat constructor; simpl; intuition discriminate|].
  apply Permutation_sym. apply (Permutation_cons_app [1; 2] []). reflexivity.
Qed.

(* ===================================================================== 2. schedules *)

(* for EVERY order in which the tasks complete, the assembled array is the same, slot s holds the
   result of the task that owns slot s, and no other slot is touched.  Hypotheses: slots distinct,
   the run is a function of its input (each task works on its own copy: C06). *)
Theorem C07_schedule_independent :
  forall (A B : Type) (f : A -> B) (n : nat) (tasks order : list (nat * A)),
  NoDup (map fst tasks) -> Permutation order tasks ->
  assemble f n order = assemble f n tasks
  /\ (forall s a, In (s, a) tasks -> s < n -> nth_error (assemble f n order) s = Some (Some (f a)))
  /\ (forall s, ~ In s (map fst tasks) -> s < n -> nth_error (assemble f n order) s = Some None).
Proof.
  intros A B f n tasks order Hnd Hp. split; [now apply assemble_perm|]. split.
  - intros s a Hin Hs. now apply (assemble_slot f n order tasks).
  - intros s Hnot Hs. apply assemble_untouched; try assumption.
    + eapply Permutation_NoDup; [|exact Hnd]. apply Permutation_map, Permutation_sym, Hp.
    + intros Hin. apply Hnot. eapply Permutation_in; [|exact Hin]. now apply Permutation_map.
Qed.
Print Assumptions C07_schedule_independent.

Example C07_schedule_nonvacuous :
  assemble (fun x => x * 10) 3 [(2, 7); (0, 5); (1, 6)] = [Some 50; Some 60; Some 70]
  /\ assemble_by_completion (fun x => x * 10) [(2, 7); (0, 5); (1, 6)] = [Some 70; Some 50; Some 60]
  /\ NoDup (map fst [(0, 5); (1, 6); (2, 7)]).
Proof. split; [reflexivity|]. split; [reflexivity|]. repeat constructor; simpl; intuition discriminate. Qed.

(* the file index: rank is a bijection between the index space of any shape (any number of
   dimensions) and [0, prod dims) *)
Theorem C07_rank_bijective :
  forall dims,
  (forall mi, valid_index dims mi -> rank dims mi < prodn dims /\ unrank dims (rank dims mi) = mi)
  /\ (forall n, n < prodn dims -> valid_index dims (unrank dims n) /\ rank dims (unrank dims n) = n)
  /\ (forall mi mi', valid_index dims mi -> valid_index dims mi' -> rank dims mi = rank dims mi' -> mi = mi').
Proof.
  intros dims. split; [|split].
  - intros mi H. split; [now apply rank_lt|now apply unrank_rank].
  - intros n H. split; [now apply unrank_valid|now apply rank_unrank].
  - apply rank_injective.
Qed.
Print Assumptions C07_rank_bijective.

Example C07_rank_nonvacuous :
  valid_index [3; 2; 4] [2; 1; 3] /\ rank [3; 2; 4] [2; 1; 3] = 23 /\ unrank [3; 2; 4] 23 = [2; 1; 3].
Proof. simpl. repeat split; lia. Qed.

(* islands: executor.map -- whatever order the creations complete in, island k is the one created
   from seeds[k] *)
Theorem C07_island_order :
  forall (S I : Type) (create : S -> I) (seeds : list S) (completion : list (nat * S)),
  Permutation completion (island_tasks seeds) ->
  assemble create (length seeds) completion = map (fun s => Some (create s)) seeds.
Proof. intros. now apply island_order. Qed.
Print Assumptions C07_island_order.

Example C07_island_nonvacuous :
  Permutation [(2, 30); (0, 10); (1, 20)] (island_tasks [10; 20; 30])
  /\ assemble_by_completion S [(2, 30); (0, 10); (1, 20)] <> map (fun s => Some (S s)) [10; 20; 30].
Proof.
  split; [|discriminate]. unfold island_tasks. simpl.
  apply (Permutation_cons_app [(0, 10); (1, 20)] []). reflexivity.
Qed.

(* DaskBFE: whatever the chunk size, every candidate is evaluated once and lands in its own position *)
Theorem C07_bfe_chunking :
  forall (A B : Type) (f : A -> B) (c : nat) (dvs : list A),
  1 <= c -> concat (map (map f) (chunks c dvs)) = map f dvs.
Proof. intros. now apply bfe_chunking. Qed.
Print Assumptions C07_bfe_chunking.

(* ===================================================================== 3. seeded blocks and workers *)

(* FULL statement: for every generator, every set of seeded blocks and every interleaving of their
   steps on ONE shared generator: when all are finished the generator is back in its initial state
   and every block has drawn the stream of its own seed (= the sequential outcome) *)
Definition C07_seeded_threads_full : Prop :=
  forall (G : Type) (seedf : Z -> G) (next : G -> G) (out : G -> Z) (g0 : G)
         (sns : list (Z * nat)) (sched : list nat),
  let r := run_shared G seedf next out sched g0 (map (start G) sns) in
  all_done G (snd r) = true ->
  fst r = g0 /\ map outs (snd r) = map (fun sn => draws_of G next out (seedf (fst sn)) (snd sn)) sns.

(* refuted (DESIGN section 7, F16): two threads, one draw each; the second thread enters its block
   while the first is inside.  Both draws are wrong AND the first thread's seed stays behind. *)
Definition witness_schedule : list nat := [0; 0; 1; 1; 0; 0; 1; 1].

Theorem C07_seeded_threads_refuted :
  let r := run_shared Z lcg_seed lcg_next lcg_out witness_schedule 12345%Z (map (start Z) [(1%Z, 1); (2%Z, 1)]) in
  all_done Z (snd r) = true
  /\ fst r <> 12345%Z
  /\ nth 0 (map outs (snd r)) [] <> draws_of Z lcg_next lcg_out (lcg_seed 1) 1
  /\ nth 1 (map outs (snd r)) [] <> draws_of Z lcg_next lcg_out (lcg_seed 2) 1.
Proof. vm_compute. repeat split; discriminate. Qed.
Print Assumptions C07_seeded_threads_refuted.

Theorem C07_seeded_threads_full_refuted : ~ C07_seeded_threads_full.
Proof.
  intros H.
  specialize (H Z lcg_seed lcg_next lcg_out 12345%Z [(1%Z, 1); (2%Z, 1)] witness_schedule).
  vm_compute in H. destruct (H eq_refl) as [E _]. discriminate.
Qed.
Print Assumptions C07_seeded_threads_full_refuted.

(* one worker (synchronous scheduler, or a pool of one): the blocks run to completion one after the
   other in ANY order; and separate processes (one generator per worker): ANY interleaving.  Both give
   the sequential outcome, for any generator, any number of blocks, any seeds, any number of draws. *)
Theorem C07_seeded_sync_or_processes :
  forall (G : Type) (seedf : Z -> G) (next : G -> G) (out : G -> Z),
  (* one worker *)
  (forall (sns : list (Z * nat)) (g : G) (order : list nat),
     NoDup order -> (forall k, k < length sns -> In k order) ->
     let ts0 := map (start G) sns in
     let r := run_shared G seedf next out (serial_schedule G ts0 order) g ts0 in
     fst r = g /\ snd r = map (done_thread G seedf next out g) sns)
  /\
  (* one generator per worker, any interleaving *)
  (forall (specs : list (G * (Z * nat))) (sched : list nat),
     let r := run_procs G seedf next out sched (map (fun gs => (fst gs, start G (snd gs))) specs) in
     all_done G (map snd r) = true ->
     r = map (fun gs => (fst gs, done_thread G seedf next out (fst gs) (snd gs))) specs).
Proof.
  intros G seedf next out. split.
  - intros sns g order Hnd Hall. now apply one_worker_all.
  - intros specs sched. apply procs_equal_sequential.
Qed.
Print Assumptions C07_seeded_sync_or_processes.

Example C07_seeded_nonvacuous :
  let ts0 := map (start Z) [(1%Z, 2); (2%Z, 1)] in
  let r := run_shared Z lcg_seed lcg_next lcg_out (serial_schedule Z ts0 [1; 0]) 12345%Z ts0 in
  fst r = 12345%Z /\ map outs (snd r) = [[1; 149]; [2]]%Z /\ all_done Z (snd r) = true
  /\ let p := run_procs Z lcg_seed lcg_next lcg_out witness_schedule [(7%Z, start Z (1%Z, 1)); (9%Z, start Z (2%Z, 1))] in
     all_done Z (map snd p) = true /\ map fst p = [7; 9]%Z /\ map (fun x => outs (snd x)) p = [[1]; [2]]%Z.
Proof. vm_compute. repeat split; reflexivity. Qed.

(* ===================================================================== 4. parallel result = sequential result *)

(* END TO END, all three modes, any parameter space (repeats, one-element lists, any lengths and defaults), any
   keys without repeats, any run function f of the values received (C06: the run works on its own copy), EVERY
   completion order of the tasks: the parameter array exists, has one cell per entry of its shape, its cells are
   the sequential runs (product: as a set, without a double cell, a permutation when no list repeats a value;
   sequential and custom: the same list); the assembled result holds under every cell's label the result of the run
   that received exactly that cell's values; and, as label -> data maps, the parallel result equals the
   sequential one. *)
Theorem C07_parallel_equals_sequential :
  forall (B : Type) (f : list (option pval) -> B) (c : dask_cfg)
         (keys types_order names_order zip_order tuple_keys : list nat) (m : mode),
  cfg_seq c = SeqEnumerate -> cfg_prod c = LevelsDedup -> cfg_custom c = ByPlaceholder -> binding_ok c = true ->
  NoDup keys -> mode_wf (length keys) m ->
  (cfg_types_steps_order c = true -> types_order = keys) ->
  (cfg_names_keep_order c = true -> names_order = types_order) ->
  (cfg_same_mapping c = true -> zip_order = names_order) ->
  (cfg_tuple_steps_order c = true -> tuple_keys = keys) ->
  exists sh cells,
    dask_params_cfg c m = Some (sh, cells)
    /\ length cells = prodn sh
    /\ (forall t, In t cells <-> In t (seq_params m))
    /\ match m with
       | Product vs => NoDup cells /\ (forallb nodupb vs = true -> Permutation cells (seq_params m))
       | _ => cells = seq_params m
       end
    /\ forall completion,
         Permutation completion (dask_tasks (cfg_bind c) zip_order tuple_keys keys cells) ->
         dask_result f cells completion = map (fun t => (t, Some (f (map Some t)))) cells
         /\ forall t r, In (t, Some r) (dask_result f cells completion) <-> In (t, r) (seq_result f m).
Proof. intros B f c keys to no zo tk m. apply parallel_equals_sequential. Qed.
Print Assumptions C07_parallel_equals_sequential.

Example C07_parallel_equals_sequential_nonvacuous :
  let m := Product [[PS 2; PS 1; PS 2]; [PS 5]] in
  let f := fun (r : list (option pval)) => length r in
  mode_wf 2 m /\ NoDup [0; 1] /\ binding_ok cfg_repaired = true
  /\ dask_params_cfg cfg_repaired m = Some ([2; 1], [[PS 1; PS 5]; [PS 2; PS 5]])
  /\ dask_result f [[PS 1; PS 5]; [PS 2; PS 5]]
        (rev (dask_tasks BindPosition [0; 1] [0; 1] [0; 1] [[PS 1; PS 5]; [PS 2; PS 5]]))
      = [([PS 1; PS 5], Some 2); ([PS 2; PS 5], Some 2)].
Proof.
  split; [reflexivity|]. split; [repeat constructor; simpl; intuition discriminate|].
  split; [reflexivity|]. split; vm_compute; reflexivity.
Qed.

(* ---- the code AS IT IS NOW (rows regenerated by translator/c07.py into Gen_C07.v) has these properties *)
Theorem C07_sequential_as_coded : cfg_seq src_cfg = SeqEnumerate.
Proof. vm_compute. reflexivity. Qed.
Print Assumptions C07_sequential_as_coded.

Theorem C07_product_as_coded : cfg_prod src_cfg = LevelsDedup.
Proof. vm_compute. reflexivity. Qed.
Print Assumptions C07_product_as_coded.

Theorem C07_custom_as_coded : cfg_custom src_cfg = ByPlaceholder.
Proof. vm_compute. reflexivity. Qed.
Print Assumptions C07_custom_as_coded.

Theorem C07_binding_as_coded :
  binding_ok src_cfg = true
  /\ forall (V : Type) (keys : list nat) (tuple : list V), NoDup keys -> length tuple = length keys ->
     received (cfg_bind src_cfg) keys keys keys tuple = map Some tuple.
Proof.
  split; [vm_compute; reflexivity|]. intros V keys tuple Hnd Hl.
  apply (received_sound src_cfg keys keys keys keys keys tuple Hnd Hl); auto.
Qed.
Print Assumptions C07_binding_as_coded.

(* ... hence, for the code as it is now: for every mode and parameter space, every set of distinct keys, every run
   function and EVERY completion order, the parallel result and the sequential result are the same label -> data map *)
Theorem C07_parallel_equals_sequential_as_coded :
  forall (B : Type) (f : list (option pval) -> B) (keys : list nat) (m : mode),
  NoDup keys -> mode_wf (length keys) m ->
  exists sh cells,
    dask_params_cfg src_cfg m = Some (sh, cells)
    /\ length cells = prodn sh
    /\ (forall t, In t cells <-> In t (seq_params m))
    /\ forall completion,
         Permutation completion (dask_tasks (cfg_bind src_cfg) keys keys keys cells) ->
         forall t r, In (t, Some r) (dask_result f cells completion) <-> In (t, r) (seq_result f m).
Proof.
  intros B f keys m Hnd Hwf.
  destruct (C07_parallel_equals_sequential B f src_cfg keys keys keys keys keys m
              C07_sequential_as_coded C07_product_as_coded C07_custom_as_coded (proj1 C07_binding_as_coded) Hnd Hwf
              (fun _ => eq_refl) (fun _ => eq_refl) (fun _ => eq_refl) (fun _ => eq_refl))
    as (sh & cells & E & L & S & _ & R).
  exists sh, cells. repeat split; try assumption; try apply S; apply (R completion H).
Qed.
Print Assumptions C07_parallel_equals_sequential_as_coded.

(* the schedule theorems of section 2 speak about the code as it is now: tasks own one cell each and the file index
   is the row-major position (C07_schedule_independent, C07_rank_bijective), islands are pushed in submission order
   (C07_island_order), the batch evaluator cuts and re-joins row-major with chunks of >= 1 row (C07_bfe_chunking) *)
Theorem C07_schedule_rows_as_coded :
  src_file_index_row_major = true /\ src_islands_by_submission = true /\ src_bfe_row_major = true.
Proof. vm_compute. repeat split; reflexivity. Qed.
Print Assumptions C07_schedule_rows_as_coded.

(* file index of the cell with multi-index mi = its flat position in the cells = rank sh mi, for the array the
   code builds now, any product space *)
Theorem C07_file_index_as_coded :
  forall vs sh cells, dask_params_cfg src_cfg (Product vs) = Some (sh, cells) ->
  forall mi, valid_index sh mi -> rank sh mi < length cells /\ unrank sh (rank sh mi) = mi.
Proof.
  intros vs sh cells E mi Hv.
  destruct (C07_product_mode src_cfg vs C07_product_as_coded) as (sh' & cells' & E' & _ & _ & L & _).
  rewrite E in E'. injection E' as <- <-. rewrite L.
  split; [now apply rank_lt|now apply unrank_rank].
Qed.
Print Assumptions C07_file_index_as_coded.

(* ===================================================================== 5. what a worker receives (round 2b) *)

(* Under the synchronous / threaded scheduler a task works on a deep copy of the caller's processor; under a process
   pool on what a pickle round trip restores.  `src_pickle_hooks` (Gen_C07.v) is regenerated from every
   __getstate__ / __setstate__ under pyxel/{pipelines,detectors,data_structure,outputs,exposure,observation,
   calibration}.  When every attribute of every hooked class comes back (hooks_faithful), the pipeline a worker
   receives is the caller's, pickled or not -- for every pipeline (any models, any enabled flags) *)
(* deep copies (the sequential path, the synchronous and the threaded scheduler) do not go through the hooks of a class
   that has a __deepcopy__ of its own: whatever those hooks do, the run works on the caller's pipeline *)
Theorem C07_deep_copies_bypass_hooks :
  forall hooks ms, forallb hk_deepcopy hooks = true -> worker_models hooks false ms = Some ms.
Proof. exact worker_models_direct. Qed.
Print Assumptions C07_deep_copies_bypass_hooks.

Theorem C07_worker_receives_the_pipeline :
  forall hooks, hooks_faithful hooks = true ->
  forall (pickled : bool) (ms : list minst), worker_models hooks pickled ms = Some ms.
Proof. exact worker_models_faithful. Qed.
Print Assumptions C07_worker_receives_the_pipeline.

(* why the rows matter (1): a group whose models are rebuilt from a definition WITHOUT the `enabled` flag comes back
   with every model switched on -- every model of the group executes, and as soon as ONE model of the caller's group
   is switched off the worker's run differs from the sequential one (for every such pipeline, not for a witness) *)
Theorem C07_definition_without_enabled_runs_everything :
  forall kept ms,
  has_field FFunc kept = true -> has_field FName kept = true -> has_field FArgs kept = true ->
  has_field FEnabled kept = false ->
  exists ms', restore_models (ARebuilt kept) ms = Some ms'
              /\ executed ms' = map mi_ident ms
              /\ (existsb (fun m => negb (mi_enabled m)) ms = true -> executed ms' <> executed ms).
Proof. intros kept ms. apply rebuild_without_enabled. Qed.
Print Assumptions C07_definition_without_enabled_runs_everything.

(* why the rows matter (2): an attribute a hook does not restore is not on the unpickled object, the restored ones
   keep their value; and restoring all of them gives the object back *)
Theorem C07_unrestored_attribute_is_lost :
  forall (V : Type) (restored : list string) (o : list (string * V)),
  ((forall a, In a (map fst o) -> In a restored) -> unpickle_obj restored o = o)
  /\ (forall a, ~ In a restored -> ~ In a (map fst (unpickle_obj restored o)))
  /\ (forall a v, In a restored -> In (a, v) o -> In (a, v) (unpickle_obj restored o)).
Proof.
  intros V restored o. split; [apply unpickle_all|]. split; [intros a; apply unpickle_lost|].
  intros a v. apply unpickle_kept.
Qed.
Print Assumptions C07_unrestored_attribute_is_lost.

Example C07_worker_nonvacuous :
  let ms := [mkMI 3 true; mkMI 5 false; mkMI 0 true] in
  let good := [mkHook "ModelGroup" true [("_log", ARecreated); ("_name", AWhole); ("models", AWhole)]]%string in
  let forgetful := [mkHook "ModelGroup" true [("_log", ARecreated); ("_name", AWhole);
                                              ("models", ARebuilt [FFunc; FName; FArgs])]]%string in
  hooks_faithful good = true /\ worker_models good true ms = Some ms /\ executed ms = [3; 0]%Z
  /\ hooks_faithful forgetful = false
  /\ option_map executed (worker_models forgetful true ms) = Some [3; 5; 0]%Z
  /\ worker_models forgetful false ms = Some ms
  /\ worker_models [mkHook "ModelGroup" true [("_name", AWhole); ("models", AMissing)]]%string true ms = None
  (* the same hooks on a class WITHOUT a __deepcopy__ of its own: every deep copy is rebuilt too *)
  /\ option_map executed (worker_models [mkHook "ModelGroup" false [("models", ARebuilt [FFunc; FName; FArgs])]]%string
                                        false ms) = Some [3; 5; 0]%Z.
Proof. vm_compute. repeat split; reflexivity. Qed.

(* the code AS IT IS NOW: every hook restores every attribute __init__ sets *)
Theorem C07_pickle_hooks_as_coded : hooks_faithful src_pickle_hooks = true.
Proof. vm_compute. reflexivity. Qed.
Print Assumptions C07_pickle_hooks_as_coded.

(* ... and a group executes exactly the models that are switched on, in order (`executed`): ModelGroup.__iter__ / run *)
Theorem C07_group_runs_enabled_only_as_coded : src_group_runs_enabled_only = true.
Proof. vm_compute. reflexivity. Qed.
Print Assumptions C07_group_runs_enabled_only_as_coded.

(* ... hence, for the code as it is now, UNDER EVERY SCHEDULER KIND (tasks pickled or not): for every pipeline, every
   run function of (pipeline received, values received), every mode and parameter space, every set of distinct keys
   and EVERY completion order, the parallel result computed on what the workers receive and the sequential result
   computed on the caller's pipeline are the same label -> data map *)
Theorem C07_any_scheduler_as_coded :
  forall (B : Type) (run : list minst -> list (option pval) -> B) (pickled : bool) (ms : list minst)
         (keys : list nat) (m : mode),
  NoDup keys -> mode_wf (length keys) m ->
  exists ms' sh cells,
    worker_models src_pickle_hooks pickled ms = Some ms'
    /\ executed ms' = executed ms
    /\ dask_params_cfg src_cfg m = Some (sh, cells)
    /\ length cells = prodn sh
    /\ (forall t, In t cells <-> In t (seq_params m))
    /\ forall completion,
         Permutation completion (dask_tasks (cfg_bind src_cfg) keys keys keys cells) ->
         forall t r, In (t, Some r) (dask_result (run ms') cells completion) <-> In (t, r) (seq_result (run ms) m).
Proof.
  intros B run pickled ms keys m Hnd Hwf.
  destruct (C07_parallel_equals_sequential_as_coded B (run ms) keys m Hnd Hwf) as (sh & cells & E & L & S & R).
  exists ms, sh, cells. split; [apply (C07_worker_receives_the_pipeline _ C07_pickle_hooks_as_coded)|].
  split; [reflexivity|]. repeat split; try assumption; try apply S; apply (R completion H).
Qed.
Print Assumptions C07_any_scheduler_as_coded.
