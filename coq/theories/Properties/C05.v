(* C05 -- Observation runs exactly the requested parameter space, correctly labelled.
   Statements only; the model is Model/ParamSpace.v (pyxel/observation/misc.py ProductMode /
   SequentialMode / CustomMode, observation.py short dimension names), proofs in
   Proofs/ParamSpace.v and Proofs/ParamSpaceNames.v.  Gen_C05.src_cfg is regenerated from the source on
   every run (translator/c05.py); the loops of the three modes are tied to the code by the
   correspondence leg (harness/props/c05.py). *)
From Coq Require Import ZArith List Bool Arith String Lia.
From PyxelV Require Import Model.ParamSpace Proofs.ParamSpace Proofs.ParamSpaceNames.
From PyxelGen Require Import Gen_C05.
Import ListNotations.
Local Open Scope string_scope.
Local Open Scope list_scope.
Local Open Scope nat_scope.

(* Product mode, any number of parameters, any list lengths: as many runs as the product of the
   lengths of the enabled lists; no index tuple twice and exactly the in-range tuples; run number n
   has the row-major (last parameter fastest) digits of n as its index tuple and gives parameter k
   the element number i_k of list k -- no transposition, no neighbour's label. *)
Theorem C05_product_complete : forall ps,
  let en := enabled ps in
  let dims := map plen en in
  let runs := product_runs ps in
  List.length runs = list_prod dims /\
  NoDup (map r_index runs) /\
  (forall ix, In ix (map r_index runs) <-> Forall2 lt ix dims) /\
  (forall n, n < list_prod dims ->
     exists r, nth_error runs n = Some r /\ r_run_index r = n /\ r_index r = unrank dims n /\
               r_params r = dict_of (combine (map p_key en) (pick (r_index r) en))) /\
  (NoDup (map p_key en) ->
     forall r k p, In r runs -> nth_error en k = Some p ->
       dict_get (p_key p) (r_params r) = Some (nth (nth k (r_index r) 0) (piter p) Ph) /\
       nth k (r_index r) 0 < plen p /\
       map fst (r_params r) = map p_key en).
Proof. exact product_complete. Qed.
Print Assumptions C05_product_complete.

(* With distinct keys the coded run list IS the requested space, as an equation. *)
Theorem C05_product_is_spec : forall ps,
  NoDup (map p_key (enabled ps)) -> product_runs ps = spec_product (enabled ps).
Proof. exact product_runs_spec. Qed.
Print Assumptions C05_product_is_spec.

(* Sequential mode: the runs are, parameter after parameter in declaration order, the configured
   values of all swept keys with only the current parameter's key replaced by each of its values. *)
Theorem C05_sequential : forall get ps,
  let en := enabled ps in
  let runs := sequential_runs get ps in
  map r_params runs = spec_sequential_params get en /\
  List.length runs = sum_nat (map plen en) /\
  map r_run_index runs = seq 0 (List.length runs) /\
  map r_index runs = map (fun n => [n]) (seq 0 (List.length runs)) /\
  (forall k, In k (map p_key en) -> dict_get k (seq_defaults get en) = Some (get k)).
Proof. exact sequential_correct. Qed.
Print Assumptions C05_sequential.

(* what "defaults with one key replaced" means, key by key *)
Theorem C05_sequential_override : forall d k v k',
  dict_get k' (override d k v) =
  if String.eqb k k' then option_map (fun _ => v) (dict_get k' d) else dict_get k' d.
Proof. exact override_get. Qed.
Print Assumptions C05_sequential_override.

(* Custom mode (all enabled parameters are '_' placeholders of widths w_k): refused exactly when the
   widths do not add up to the number of columns; otherwise one run per row, in order, and
   parameter k takes the columns [off_k, off_k + w_k) with off_k the sum of the widths before it. *)
Theorem C05_custom : forall ncols rows ps,
  let en := enabled ps in
  let total := sum_nat (map pwidth en) in
  forallb is_placeholder en = true ->
  (custom_runs ncols rows ps = None <-> (total = 0 \/ total <> ncols)) /\
  (total <> 0 -> total = ncols ->
   custom_runs ncols rows ps =
   Some (map (fun nr => mkRun (fst nr) [fst nr] (dict_of (spec_custom_row en (snd nr))))
             (enumerate_from 0 rows))).
Proof. exact custom_correct. Qed.
Print Assumptions C05_custom.

Theorem C05_custom_columns : forall en row k p,
  nth_error en k = Some p ->
  nth_error (spec_custom_row en row) k =
  Some (p_key p, spec_custom_value p (sum_nat (map pwidth (firstn k en))) row).
Proof. exact spec_custom_row_nth. Qed.
Print Assumptions C05_custom_columns.

(* Disabled parameters are ignored in every mode, and no run assigns a key that does not belong to an
   enabled parameter. *)
Theorem C05_disabled_ignored : forall ps get ncols rows,
  product_runs ps = product_runs (enabled ps) /\
  sequential_runs get ps = sequential_runs get (enabled ps) /\
  custom_runs ncols rows ps = custom_runs ncols rows (enabled ps) /\
  (forall r k, In r (product_runs ps) -> In k (map fst (r_params r)) -> In k (map p_key (enabled ps))) /\
  (forall r k, In r (sequential_runs get ps) -> In k (map fst (r_params r)) -> In k (map p_key (enabled ps))).
Proof. exact disabled_ignored. Qed.
Print Assumptions C05_disabled_ignored.

(* Dimension names (observation.py _get_short_dimension_names_new + misc.py _get_short_name_with_model, as
   read from the source by the translator: Gen_C05.src_cfg).  Distinct swept keys get distinct names -- the
   names are the rendered strings, so this is also injectivity of the rendering.  (Round 1 refuted this for
   the unrepaired rule -- DESIGN F19: "<model>.<argument>" drops the model group; repaired by falling back to
   the full key when a name is still shared.) *)
Theorem C05_dim_names_inj : forall keys m,
  NoDup keys -> dim_names src_cfg keys = Some m -> NoDup (map snd m).
Proof. intros keys m. exact (dim_names_inj src_cfg keys m eq_refl eq_refl). Qed.
Print Assumptions C05_dim_names_inj.

(* ... every key gets a name (round 1: a key without five components whose last component is shared made
   the five-tuple unpacking raise) ... *)
Theorem C05_dim_names_defined : forall keys,
  exists m, dim_names src_cfg keys = Some m /\ map fst m = keys.
Proof. intros keys. exact (dim_names_total src_cfg keys eq_refl). Qed.
Print Assumptions C05_dim_names_defined.

(* ... and a key whose last component is not shared with another swept key is still named by that last
   component: results of sweeps without a collision keep their coordinate names. *)
Theorem C05_dim_names_short_kept : forall keys m k n,
  NoDup keys -> dim_names src_cfg keys = Some m -> In (k, n) m ->
  count_str (short_of k) (map short_of keys) = 1 -> n = short_of k.
Proof. intros keys m k n. exact (dim_names_short_kept src_cfg keys m k n eq_refl). Qed.
Print Assumptions C05_dim_names_short_kept.

(* ------------------------------------------------------------------------------------ non-vacuity *)

Definition ex_ps : list param :=
  [ mkParam "pipeline.charge_collection.m1.arguments.a" (Lit [Sc 8; Sc 16; Sc 16]) true;
    mkParam "detector.environment.temperature" (Lit [Sc 800]) false;
    mkParam "pipeline.charge_collection.m1.arguments.v" (Lit [Vec [8; 16]%Z; Vec [24; 32]%Z]) true ].

Example ex_product_keys_distinct : NoDup (map p_key (enabled ex_ps)).
Proof. vm_compute. repeat constructor; simpl; intuition discriminate. Qed.

Example ex_product_six_runs :
  map (fun r => (r_run_index r, r_index r, r_params r)) (product_runs ex_ps) =
  map (fun r => (r_run_index r, r_index r, r_params r)) (spec_product (enabled ex_ps))
  /\ List.length (product_runs ex_ps) = 6
  /\ nth_error (map r_index (product_runs ex_ps)) 3 = Some [1; 1].
Proof. vm_compute. auto. Qed.

Example ex_sequential_five_runs :
  map r_params (sequential_runs (fun _ => Sc 0) ex_ps) =
  [ [("pipeline.charge_collection.m1.arguments.a", Sc 8); ("pipeline.charge_collection.m1.arguments.v", Sc 0)];
    [("pipeline.charge_collection.m1.arguments.a", Sc 16); ("pipeline.charge_collection.m1.arguments.v", Sc 0)];
    [("pipeline.charge_collection.m1.arguments.a", Sc 16); ("pipeline.charge_collection.m1.arguments.v", Sc 0)];
    [("pipeline.charge_collection.m1.arguments.a", Sc 0); ("pipeline.charge_collection.m1.arguments.v", Vec [8; 16]%Z)];
    [("pipeline.charge_collection.m1.arguments.a", Sc 0); ("pipeline.charge_collection.m1.arguments.v", Vec [24; 32]%Z)] ].
Proof. vm_compute. reflexivity. Qed.

Definition ex_custom : list param :=
  [ mkParam "k.a" Under true; mkParam "k.off" (Unders 3) false; mkParam "k.v" (Unders 2) true; mkParam "k.b" Under true ].

Example ex_custom_placeholders : forallb is_placeholder (enabled ex_custom) = true.
Proof. reflexivity. Qed.

Example ex_custom_accepts_and_slices :
  option_map (map r_params) (custom_runs 4 [[1; 2; 3; 4]; [5; 6; 7; 8]]%Z ex_custom) =
  Some [ [("k.a", Sc 1); ("k.v", Vec [2; 3]%Z); ("k.b", Sc 4)];
         [("k.a", Sc 5); ("k.v", Vec [6; 7]%Z); ("k.b", Sc 8)] ]%Z
  /\ custom_runs 5 [[1; 2; 3; 4; 5]]%Z ex_custom = None.
Proof. vm_compute. auto. Qed.

Example ex_src_cfg_is_repaired : src_cfg = cfg_repaired.
Proof. reflexivity. Qed.

Example ex_dim_names_fallback_distinct :
  option_map (map snd) (dim_names cfg_repaired ["pipeline.charge_collection.m1.arguments.a";
                                                "pipeline.charge_collection.m2.arguments.a";
                                                "detector.environment.temperature"]) =
  Some ["m1.a"; "m2.a"; "temperature"].
Proof. vm_compute. reflexivity. Qed.

(* the two round-1 witnesses now get distinct, defined names *)
Example ex_dim_names_same_model_two_groups :
  option_map (map snd) (dim_names cfg_repaired ["pipeline.charge_collection.m1.arguments.a";
                                                "pipeline.charge_measurement.m1.arguments.a";
                                                "pipeline.charge_measurement.m2.arguments.b"]) =
  Some ["pipeline.charge_collection.m1.arguments.a"; "pipeline.charge_measurement.m1.arguments.a"; "b"].
Proof. vm_compute. reflexivity. Qed.

Example ex_dim_names_detector_and_argument :
  option_map (map snd) (dim_names cfg_repaired ["detector.environment.temperature";
                                                "pipeline.charge_collection.m1.arguments.temperature"]) =
  Some ["detector.environment.temperature"; "m1.temperature"].
Proof. vm_compute. reflexivity. Qed.
