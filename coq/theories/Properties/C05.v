(* C05 -- Observation runs exactly the requested parameter space, correctly labelled.
   Statements only; the model is Model/ParamSpace.v (pyxel/observation/misc.py ProductMode /
   SequentialMode / CustomMode, observation.py short dimension names), proofs in
   Proofs/ParamSpace.v and Proofs/ParamSpaceNames.v.  Gen_C05.src_cfg is regenerated from the source on
   every run (translator/c05.py); the loops of the three modes are tied to the code by the
   correspondence leg (harness/props/c05.py). *)
From Coq Require Import ZArith List Bool Arith String Lia.
From Coq Require Import Permutation.
From PyxelV Require Import Model.ParamSpace Proofs.ParamSpace Proofs.ParamSpaceNames Proofs.ParamSpaceLabels
                           Proofs.ParamSpaceObserve Proofs.ParamSpaceDask Proofs.ParamSpaceHist
                           Proofs.ParamSpaceRank.
From PyxelGen Require Import Gen_C05.
Import ListNotations.
Local Open Scope string_scope.
Local Open Scope list_scope.
Local Open Scope nat_scope.

(* Product mode, any number of parameters, any list lengths: as many runs as the product of the
   lengths of the enabled lists; no index tuple twice and exactly the in-range tuples; run number n
   has the row-major (last parameter fastest) digits of n as its index tuple and gives parameter k
   the element number i_k of list k -- no transposition, no neighbour's label. *)
Theorem C05_product_complete : forall ps,
  let en := enabled ps in
  let dims := map plen en in
  let runs := product_runs ps in
  List.length runs = list_prod dims /\
  NoDup (map r_index runs) /\
  (forall ix, In ix (map r_index runs) <-> Forall2 lt ix dims) /\
  (forall n, n < list_prod dims ->
     exists r, nth_error runs n = Some r /\ r_run_index r = n /\ r_index r = unrank dims n /\
               r_params r = dict_of (combine (map p_key en) (pick (r_index r) en))) /\
  (NoDup (map p_key en) ->
     forall r k p, In r runs -> nth_error en k = Some p ->
       dict_get (p_key p) (r_params r) = Some (nth (nth k (r_index r) 0) (piter p) Ph) /\
       nth k (r_index r) 0 < plen p /\
       map fst (r_params r) = map p_key en).
Proof. exact product_complete. Qed.
Print Assumptions C05_product_complete.

(* With distinct keys the coded run list IS the requested space, as an equation. *)
Theorem C05_product_is_spec : forall ps,
  NoDup (map p_key (enabled ps)) -> product_runs ps = spec_product (enabled ps).
Proof. exact product_runs_spec. Qed.
Print Assumptions C05_product_is_spec.

(* Run number and index tuple determine each other: with distinct keys, every in-bounds index tuple
   is carried by exactly one run of the CODED run list, and that run is number `rank dims ix`
   (mixed radix, last parameter fastest).  Any number of parameters, any list lengths. *)
Theorem C05_product_index_bijection : forall ps ix,
  NoDup (map p_key (enabled ps)) ->
  Forall2 lt ix (map plen (enabled ps)) ->
  exists r, In r (product_runs ps) /\ r_index r = ix /\
            r_run_index r = rank (map plen (enabled ps)) ix /\
            forall r', In r' (product_runs ps) -> r_index r' = ix -> r_run_index r' = r_run_index r.
Proof. exact product_runs_index_unique. Qed.
Print Assumptions C05_product_index_bijection.

(* The coded product run list is empty exactly when an enabled parameter has no value (no hypothesis
   on the keys): an empty sweep never produces a spurious run, a non-empty one never loses all. *)
Theorem C05_product_empty_iff : forall ps,
  product_runs ps = [] <-> exists p, In p (enabled ps) /\ plen p = 0.
Proof. exact product_runs_empty_iff. Qed.
Print Assumptions C05_product_empty_iff.

(* Sequential mode: the runs are, parameter after parameter in declaration order, the configured
   values of all swept keys with only the current parameter's key replaced by each of its values. *)
Theorem C05_sequential : forall get ps,
  let en := enabled ps in
  let runs := sequential_runs get ps in
  map r_params runs = spec_sequential_params get en /\
  List.length runs = sum_nat (map plen en) /\
  map r_run_index runs = seq 0 (List.length runs) /\
  map r_index runs = map (fun n => [n]) (seq 0 (List.length runs)) /\
  (forall k, In k (map p_key en) -> dict_get k (seq_defaults get en) = Some (get k)).
Proof. exact sequential_correct. Qed.
Print Assumptions C05_sequential.

(* what "defaults with one key replaced" means, key by key *)
Theorem C05_sequential_override : forall d k v k',
  dict_get k' (override d k v) =
  if String.eqb k k' then option_map (fun _ => v) (dict_get k' d) else dict_get k' d.
Proof. exact override_get. Qed.
Print Assumptions C05_sequential_override.

(* Custom mode (all enabled parameters are '_' placeholders of widths w_k): refused exactly when the
   widths do not add up to the number of columns; otherwise one run per row, in order, and
   parameter k takes the columns [off_k, off_k + w_k) with off_k the sum of the widths before it. *)
Theorem C05_custom : forall ncols rows ps,
  let en := enabled ps in
  let total := sum_nat (map pwidth en) in
  forallb is_placeholder en = true ->
  (custom_runs ncols rows ps = None <-> (total = 0 \/ total <> ncols)) /\
  (total <> 0 -> total = ncols ->
   custom_runs ncols rows ps =
   Some (map (fun nr => mkRun (fst nr) [fst nr] (dict_of (spec_custom_row en (snd nr))))
             (enumerate_from 0 rows))).
Proof. exact custom_correct. Qed.
Print Assumptions C05_custom.

Theorem C05_custom_columns : forall en row k p,
  nth_error en k = Some p ->
  nth_error (spec_custom_row en row) k =
  Some (p_key p, spec_custom_value p (sum_nat (map pwidth (firstn k en))) row).
Proof. exact spec_custom_row_nth. Qed.
Print Assumptions C05_custom_columns.

(* Disabled parameters are ignored in every mode, and no run assigns a key that does not belong to an
   enabled parameter. *)
Theorem C05_disabled_ignored : forall ps get ncols rows,
  product_runs ps = product_runs (enabled ps) /\
  sequential_runs get ps = sequential_runs get (enabled ps) /\
  custom_runs ncols rows ps = custom_runs ncols rows (enabled ps) /\
  (forall r k, In r (product_runs ps) -> In k (map fst (r_params r)) -> In k (map p_key (enabled ps))) /\
  (forall r k, In r (sequential_runs get ps) -> In k (map fst (r_params r)) -> In k (map p_key (enabled ps))).
Proof. exact disabled_ignored. Qed.
Print Assumptions C05_disabled_ignored.

(* Dimension names (observation.py _get_short_dimension_names_new + misc.py _get_short_name_with_model, as
   read from the source by the translator: Gen_C05.src_cfg).  Distinct swept keys get distinct names -- the
   names are the rendered strings, so this is also injectivity of the rendering.  (Round 1 refuted this for
   the unrepaired rule -- DESIGN F19: "<model>.<argument>" drops the model group; repaired by falling back to
   the full key when a name is still shared.) *)
Theorem C05_dim_names_inj : forall keys m,
  NoDup keys -> dim_names src_cfg keys = Some m -> NoDup (map snd m).
Proof. intros keys m. exact (dim_names_inj src_cfg keys m eq_refl eq_refl). Qed.
Print Assumptions C05_dim_names_inj.

(* ... every key gets a name (round 1: a key without five components whose last component is shared made
   the five-tuple unpacking raise) ... *)
Theorem C05_dim_names_defined : forall keys,
  exists m, dim_names src_cfg keys = Some m /\ map fst m = keys.
Proof. intros keys. exact (dim_names_total src_cfg keys eq_refl). Qed.
Print Assumptions C05_dim_names_defined.

(* ... and a key whose last component is not shared with another swept key is still named by that last
   component: results of sweeps without a collision keep their coordinate names. *)
Theorem C05_dim_names_short_kept : forall keys m k n,
  NoDup keys -> dim_names src_cfg keys = Some m -> In (k, n) m ->
  count_str (short_of k) (map short_of keys) = 1 -> n = short_of k.
Proof. intros keys m k n. exact (dim_names_short_kept src_cfg keys m k n eq_refl). Qed.
Print Assumptions C05_dim_names_short_kept.

(* ------------------------------------------------------------------------------------ labels -> data

   The merge of the per-run results (xr.merge; `assemble`) and the selection by label (`lookup`): after a
   successful merge every run is found under its own labels with its own data, nothing else is stored
   and no label appears twice ... *)
Theorem C05_lookup : forall es r,
  assemble es = Some r ->
  (forall l d, In (l, d) es -> lookup l r = Some d) /\
  (forall l d, In (l, d) r -> In (l, d) es) /\
  labels_nodup (map fst r) = true.
Proof. exact assemble_sound. Qed.
Print Assumptions C05_lookup.

(* ... and the merge fails exactly when two runs carry the same labels and different data. *)
Theorem C05_merge_conflict : forall es,
  assemble es = None <->
  exists l d l' d', In (l, d) es /\ In (l', d') es /\ label_eqb l l' = true /\ d <> d'.
Proof. exact assemble_none_iff. Qed.
Print Assumptions C05_merge_conflict.

(* Labels identify runs.  Product mode: with pairwise distinct dimension names, two runs with equal
   labels have equal parameter values; sequential / custom mode: the id alone tells runs apart. *)
Theorem C05_labels_identify_runs :
  (forall names types keys ix1 ix2 v1 v2,
     NoDup (map (name_of names) keys) ->
     List.length v1 = List.length keys -> List.length v2 = List.length keys ->
     List.length ix1 = List.length keys -> List.length ix2 = List.length keys ->
     label_eqb (product_label names types ix1 (combine keys v1))
               (product_label names types ix2 (combine keys v2)) = true -> v1 = v2) /\
  (forall names i j p q, label_eqb (custom_label names i p) (custom_label names j q) = true -> i = j).
Proof. split; [exact product_label_inj | exact id_label_inj]. Qed.
Print Assumptions C05_labels_identify_runs.

(* The whole observation, sequential path, product mode, for the naming rule read from the source:
   distinct keys and no clash with the array dimensions (the code's own "Dimension already exists").
   The observation runs, executes exactly the requested runs in order, and selecting a run's labels in
   the assembled result gives the data produced with exactly that run's values. *)
Theorem C05_product_lookup : forall ps slots table range names,
  let en := enabled ps in
  let keys := map p_key en in
  let types := types_of en in
  let runs := product_runs ps in
  NoDup keys ->
  existsb has_ph en = false ->
  dim_names src_cfg keys = Some names ->
  forallb (fun r => str_nodup (product_dims names types (r_index r) (r_params r) ++ reserved_dims)) runs = true ->
  exists oc, observe src_cfg Product ps slots table range = Some oc /\
    oc_runs oc = map (fun r => received slots (r_params r)) runs /\
    (forall r, In r runs ->
       lookup (product_label names types (r_index r) (r_params r)) (oc_result oc)
       = Some (data_of slots (r_params r))) /\
    (forall l d, In (l, d) (oc_result oc) ->
       exists r, In r runs /\ l = product_label names types (r_index r) (r_params r)
                 /\ d = data_of slots (r_params r)) /\
    labels_nodup (map fst (oc_result oc)) = true.
Proof. exact (product_observe_lookup_cfg src_cfg eq_refl eq_refl). Qed.
Print Assumptions C05_product_lookup.

(* Sequential mode: any parameters (a key may be swept twice), any vector lengths. *)
Theorem C05_sequential_lookup : forall ps slots table range,
  let en := enabled ps in
  let runs := sequential_runs (default_of slots) ps in
  existsb has_ph en = false ->
  exists names oc,
    dim_names src_cfg (unique (map p_key en)) = Some names /\
    observe src_cfg Sequential ps slots table range = Some oc /\
    oc_runs oc = map (fun r => received slots (r_params r)) runs /\
    (forall r, In r runs ->
       lookup (custom_label names (hd 0 (r_index r)) (r_params r)) (oc_result oc)
       = Some (data_of slots (r_params r))) /\
    (forall l d, In (l, d) (oc_result oc) ->
       exists r, In r runs /\ l = custom_label names (hd 0 (r_index r)) (r_params r)
                 /\ d = data_of slots (r_params r)) /\
    labels_nodup (map fst (oc_result oc)) = true.
Proof. exact (sequential_observe_lookup_cfg src_cfg eq_refl eq_refl). Qed.
Print Assumptions C05_sequential_lookup.

(* Custom mode: placeholders whose widths add up to the number of selected columns (column_range may be
   absent = the whole table), any mix of widths. *)
Theorem C05_custom_lookup : forall ps slots table range rows,
  let en := enabled ps in
  let total := sum_nat (map pwidth en) in
  let runs := map (fun nr => mkRun (fst nr) [fst nr] (dict_of (spec_custom_row en (snd nr))))
                  (enumerate_from 0 rows) in
  forallb is_placeholder en = true ->
  rows = match range with Some (lo, hi) => map (select_cols lo hi) table | None => table end ->
  total <> 0 -> total = List.length (hd [] rows) ->
  exists names oc,
    dim_names src_cfg (unique (map p_key en)) = Some names /\
    observe src_cfg Custom ps slots table range = Some oc /\
    oc_runs oc = map (fun r => received slots (r_params r)) runs /\
    (forall r, In r runs ->
       lookup (custom_label names (hd 0 (r_index r)) (r_params r)) (oc_result oc)
       = Some (data_of slots (r_params r))) /\
    (forall l d, In (l, d) (oc_result oc) ->
       exists r, In r runs /\ l = custom_label names (hd 0 (r_index r)) (r_params r)
                 /\ d = data_of slots (r_params r)) /\
    labels_nodup (map fst (oc_result oc)) = true.
Proof. exact (custom_observe_lookup_cfg src_cfg eq_refl eq_refl eq_refl). Qed.
Print Assumptions C05_custom_lookup.

(* The coordinates _add_product_parameters attaches are the labels the specification (spec_label, used by
   the check on the implementation's output) expects: the value under the parameter's name and, for a
   vector-valued parameter, its position under <name>_id. *)
Theorem C05_product_label_is_spec : forall names en ix vals,
  NoDup (map p_key en) -> List.length vals = List.length en -> List.length ix = List.length en ->
  product_label names (types_of en) ix (combine (map p_key en) vals)
  = spec_label Product names en ix (combine (map p_key en) vals).
Proof. exact product_label_is_spec. Qed.
Print Assumptions C05_product_label_is_spec.

(* where the coordinates attached in sequential / custom mode are the specification's labels *)
Theorem C05_custom_label_is_spec : forall names i params,
  NoDup (map (fun kv => name_of names (fst kv)) params) ->
  custom_label names i params = ("id", LI i) :: map (fun kv => (name_of names (fst kv), LV (snd kv))) params.
Proof. exact custom_label_is_spec. Qed.
Print Assumptions C05_custom_label_is_spec.

(* ------------------------------------------------------------------------------------ the dask path

   Product mode: create_params labels the axes of the parameter array with pandas' (sorted) levels.  For
   ANY reordering of the levels: the cells are exactly the requested runs, each once; the merge of the
   cells never conflicts; every requested run is found under the label made of exactly its values and
   holds the data produced with them; nothing else is stored. *)
Theorem C05_dask_product_labels : forall norm names slots en,
  (forall l, Permutation (norm l) l) ->
  NoDup (map p_key en) ->
  NoDup (map (name_of names) (map p_key en)) ->
  let cells := dask_product_cells norm (dask_steps en) in
  Permutation cells (map r_params (spec_product en)) /\
  exists res,
    assemble (map (fun c => (dask_product_label names c, data_of slots c)) cells) = Some res /\
    (forall r, In r (spec_product en) ->
       lookup (spec_label_dask Product names en (r_index r) (r_params r)) res
       = Some (data_of slots (r_params r))) /\
    (forall l d, In (l, d) res ->
       exists r, In r (spec_product en) /\ l = spec_label_dask Product names en (r_index r) (r_params r)
                 /\ d = data_of slots (r_params r)) /\
    labels_nodup (map fst res) = true.
Proof.
  intros norm names slots en Hp N NN cells. split;
    [apply dask_product_cells_are_space | apply dask_product_lookup]; auto.
Qed.
Print Assumptions C05_dask_product_labels.

Theorem C05_dask_sort_level_permutes : forall l, Permutation (sort_level l) l.
Proof. exact sort_level_perm. Qed.
Print Assumptions C05_dask_sort_level_permutes.

(* Full statement for the coded dask path: every well-formed product request (distinct keys, no
   placeholder, names defined and not clashing with the array dimensions) is run. *)
Definition C05_dask_product_accepts_full : Prop :=
  forall ps slots table range names,
    let en := enabled ps in
    NoDup (map p_key en) -> existsb has_ph en = false ->
    dim_names src_cfg (map p_key en) = Some names ->
    str_nodup (map (name_of names) (map p_key en) ++ reserved_dims) = true ->
    observe_dask src_cfg Product ps slots table range <> None.

(* It is decided by what ProductMode.create_params does with a repeated value (read from the source):
   true if the value lists are de-duplicated; false -- witness a = [1.0, 1.0]: pandas refuses the non-unique
   MultiIndex, finding C05-dask-product-duplicates -- if they are not. *)
Theorem C05_dask_product_accepts_decided :
  if cf_dask_product_dedup src_cfg then C05_dask_product_accepts_full else ~ C05_dask_product_accepts_full.
Proof. exact (dask_product_accepts_decided src_cfg eq_refl eq_refl). Qed.
Print Assumptions C05_dask_product_accepts_decided.

(* What holds either way: when no list repeats a value (or the lists are de-duplicated) the request is run,
   exactly the requested runs are executed (never more executions than requested runs), and every run is
   found under its value-labels with its own data. *)
Theorem C05_dask_product_accepts_partial : forall ps slots table range names,
  let en := enabled ps in
  let keys := map p_key en in
  NoDup keys ->
  existsb has_ph en = false ->
  dim_names src_cfg keys = Some names ->
  str_nodup (map (name_of names) keys ++ reserved_dims) = true ->
  cf_dask_product_dedup src_cfg = true \/ forallb (fun s => pvals_nodup (snd s)) (dask_steps en) = true ->
  exists oc, observe_dask src_cfg Product ps slots table range = Some oc /\
    (forall x, In x (oc_runs oc) <-> In x (map (fun r => received slots (r_params r)) (spec_product en))) /\
    List.length (oc_runs oc) <= List.length (spec_product en) /\
    (forall r, In r (spec_product en) ->
       lookup (spec_label_dask Product names en (r_index r) (r_params r)) (oc_result oc)
       = Some (data_of slots (r_params r))) /\
    (forall l d, In (l, d) (oc_result oc) ->
       exists r, In r (spec_product en) /\ l = spec_label_dask Product names en (r_index r) (r_params r)
                 /\ d = data_of slots (r_params r)) /\
    labels_nodup (map fst (oc_result oc)) = true.
Proof. exact (dask_product_observe_cfg src_cfg eq_refl eq_refl). Qed.
Print Assumptions C05_dask_product_accepts_partial.

(* Custom mode on the dask path (convert_custom_data as read from the source): the cell of a table row
   gives every parameter the columns [off_k, off_k + w_k) -- "_" a number, a list of "_" a vector. *)
Theorem C05_dask_custom_columns : forall en row,
  dask_custom_row src_cfg en row 0 = spec_custom_row en row.
Proof. intros en row. exact (dask_custom_row_spec src_cfg en row eq_refl). Qed.
Print Assumptions C05_dask_custom_columns.

(* Sequential mode on the dask path.  Full statement: the rows of create_params are the requested runs. *)
Definition C05_dask_sequential_full : Prop :=
  forall get ps, dask_seq_cells src_cfg get ps = spec_sequential_params get (enabled ps).

(* It is decided by how SequentialMode.create_params builds its rows (read from the source): true if they
   come from get_parameters_item (one parameter at a time over the configured values); false -- witness
   [1,2,3] x [10,12]: the lists are zipped, DESIGN F12, finding C05-dask-sequential-zips -- otherwise. *)
Theorem C05_dask_sequential_decided :
  if cf_dask_sequential_rows src_cfg then C05_dask_sequential_full else ~ C05_dask_sequential_full.
Proof. exact (dask_sequential_decided src_cfg). Qed.
Print Assumptions C05_dask_sequential_decided.

(* What holds either way: with one enabled parameter the rows are the requested runs, in order. *)
Theorem C05_dask_sequential_partial : forall get ps p,
  enabled ps = [p] -> dask_seq_cells src_cfg get ps = spec_sequential_params get [p].
Proof. exact (dask_seq_cells_one src_cfg). Qed.
Print Assumptions C05_dask_sequential_partial.

(* ------------------------------------------------------------------------------------ histories on one object

   The same Observation object (one parameter-mode object, one detector, one pipeline) is run, its configuration is
   edited through its public attributes -- a configured value of the detector or of a model argument (ESlot), the
   parameter list of the mode object: value lists, enabled flags, order, members (EParams), the custom table and its
   columns (ETable), with_dask (EDask), the mode (EMode) -- and it is run again, any number of times, in any order.
   `hist_run` is the object as coded (st = the dict it keeps in Observation.parameter_types, the only attribute the
   run path writes: the translator fails closed on any other); `run_confs` lists the configuration at the time of
   every Run; `observe_conf` is what a NEW object with that configuration does -- the subject of every theorem above.

   For every op sequence and every past of the object: run number k does exactly what a new object configured like
   the object at that moment does -- same executed runs, same labels, same data.  (Before the repair of
   Observation._get_parameter_types this was false: Proofs/ParamSpaceHist.v history_stale_witness, finding
   C05-stale-parameter-types.) *)
Theorem C05_history : forall ops st c,
  hist_run src_cfg st c ops = map (observe_conf src_cfg) (run_confs c ops).
Proof. exact (history_correct src_cfg eq_refl). Qed.
Print Assumptions C05_history.

(* a new object has no past, whatever the source says about parameter_types *)
Theorem C05_history_new_object : forall cf c, observe_conf_st cf [] c = observe_conf cf c.
Proof. exact observe_conf_new_object. Qed.
Print Assumptions C05_history_new_object.

(* Sequential mode inside a history: run number k steps every parameter around the values configured AT THAT TIME
   (f_slots of the configuration at run k) -- executed runs, labels and data. *)
Theorem C05_history_sequential : forall ops st c k c',
  nth_error (run_confs c ops) k = Some c' ->
  f_mode c' = Sequential -> f_dask c' = false ->
  existsb has_ph (enabled (f_params c')) = false ->
  let runs := sequential_runs (default_of (f_slots c')) (f_params c') in
  exists names oc,
    dim_names src_cfg (unique (map p_key (enabled (f_params c')))) = Some names /\
    nth_error (hist_run src_cfg st c ops) k = Some (Some oc) /\
    oc_runs oc = map (fun r => received (f_slots c') (r_params r)) runs /\
    map r_params runs = spec_sequential_params (default_of (f_slots c')) (enabled (f_params c')) /\
    (forall r, In r runs ->
       lookup (custom_label names (hd 0 (r_index r)) (r_params r)) (oc_result oc)
       = Some (data_of (f_slots c') (r_params r))) /\
    (forall l d, In (l, d) (oc_result oc) ->
       exists r, In r runs /\ l = custom_label names (hd 0 (r_index r)) (r_params r)
                 /\ d = data_of (f_slots c') (r_params r)) /\
    labels_nodup (map fst (oc_result oc)) = true.
Proof. exact (history_sequential src_cfg eq_refl eq_refl eq_refl). Qed.
Print Assumptions C05_history_sequential.

(* an edited configured value is what the next run steps around *)
Theorem C05_history_edit_default : forall slots k v k',
  default_of (override slots k v) k' =
  if String.eqb k k' then (match dict_get k' slots with Some _ => v | None => Sc 0 end) else default_of slots k'.
Proof. exact default_of_override. Qed.
Print Assumptions C05_history_edit_default.

(* ------------------------------------------------------------------------------------ non-vacuity *)

Definition ex_ps : list param :=
  [ mkParam "pipeline.charge_collection.m1.arguments.a" (Lit [Sc 8; Sc 16; Sc 16]) true;
    mkParam "detector.environment.temperature" (Lit [Sc 800]) false;
    mkParam "pipeline.charge_collection.m1.arguments.v" (Lit [Vec [8; 16]%Z; Vec [24; 32]%Z]) true ].

Example ex_product_keys_distinct : NoDup (map p_key (enabled ex_ps)).
Proof. vm_compute. repeat constructor; simpl; intuition discriminate. Qed.

Example ex_product_six_runs :
  map (fun r => (r_run_index r, r_index r, r_params r)) (product_runs ex_ps) =
  map (fun r => (r_run_index r, r_index r, r_params r)) (spec_product (enabled ex_ps))
  /\ List.length (product_runs ex_ps) = 6
  /\ nth_error (map r_index (product_runs ex_ps)) 3 = Some [1; 1].
Proof. vm_compute. auto. Qed.

Example ex_sequential_five_runs :
  map r_params (sequential_runs (fun _ => Sc 0) ex_ps) =
  [ [("pipeline.charge_collection.m1.arguments.a", Sc 8); ("pipeline.charge_collection.m1.arguments.v", Sc 0)];
    [("pipeline.charge_collection.m1.arguments.a", Sc 16); ("pipeline.charge_collection.m1.arguments.v", Sc 0)];
    [("pipeline.charge_collection.m1.arguments.a", Sc 16); ("pipeline.charge_collection.m1.arguments.v", Sc 0)];
    [("pipeline.charge_collection.m1.arguments.a", Sc 0); ("pipeline.charge_collection.m1.arguments.v", Vec [8; 16]%Z)];
    [("pipeline.charge_collection.m1.arguments.a", Sc 0); ("pipeline.charge_collection.m1.arguments.v", Vec [24; 32]%Z)] ].
Proof. vm_compute. reflexivity. Qed.

Definition ex_custom : list param :=
  [ mkParam "k.a" Under true; mkParam "k.off" (Unders 3) false; mkParam "k.v" (Unders 2) true; mkParam "k.b" Under true ].

Example ex_custom_placeholders : forallb is_placeholder (enabled ex_custom) = true.
Proof. reflexivity. Qed.

Example ex_custom_accepts_and_slices :
  option_map (map r_params) (custom_runs 4 [[1; 2; 3; 4]; [5; 6; 7; 8]]%Z ex_custom) =
  Some [ [("k.a", Sc 1); ("k.v", Vec [2; 3]%Z); ("k.b", Sc 4)];
         [("k.a", Sc 5); ("k.v", Vec [6; 7]%Z); ("k.b", Sc 8)] ]%Z
  /\ custom_runs 5 [[1; 2; 3; 4; 5]]%Z ex_custom = None.
Proof. vm_compute. auto. Qed.

(* the naming rule read from the source is the repaired one *)
Example ex_src_cfg_names_repaired : cf_name_fallback_full src_cfg = true /\ cf_name_stage3 src_cfg = true.
Proof. split; reflexivity. Qed.

Example ex_dim_names_fallback_distinct :
  option_map (map snd) (dim_names cfg_repaired ["pipeline.charge_collection.m1.arguments.a";
                                                "pipeline.charge_collection.m2.arguments.a";
                                                "detector.environment.temperature"]) =
  Some ["m1.a"; "m2.a"; "temperature"].
Proof. vm_compute. reflexivity. Qed.

(* the two round-1 witnesses now get distinct, defined names *)
Example ex_dim_names_same_model_two_groups :
  option_map (map snd) (dim_names cfg_repaired ["pipeline.charge_collection.m1.arguments.a";
                                                "pipeline.charge_measurement.m1.arguments.a";
                                                "pipeline.charge_measurement.m2.arguments.b"]) =
  Some ["pipeline.charge_collection.m1.arguments.a"; "pipeline.charge_measurement.m1.arguments.a"; "b"].
Proof. vm_compute. reflexivity. Qed.

Example ex_dim_names_detector_and_argument :
  option_map (map snd) (dim_names cfg_repaired ["detector.environment.temperature";
                                                "pipeline.charge_collection.m1.arguments.temperature"]) =
  Some ["detector.environment.temperature"; "m1.temperature"].
Proof. vm_compute. reflexivity. Qed.

(* the hypotheses of C05_product_lookup / C05_dask_product_accepts_partial are satisfiable *)
Definition ex_names : list (string * string) :=
  [("pipeline.charge_collection.m1.arguments.a", "a"); ("pipeline.charge_collection.m1.arguments.v", "v")].

Example ex_product_lookup_hypotheses :
  dim_names cfg_repaired (map p_key (enabled ex_ps)) = Some ex_names /\
  existsb has_ph (enabled ex_ps) = false /\
  forallb (fun r => str_nodup (product_dims ex_names (types_of (enabled ex_ps)) (r_index r) (r_params r)
                               ++ reserved_dims)) (product_runs ex_ps) = true.
Proof. vm_compute. auto. Qed.

Definition ex_ps_unsorted : list param :=
  [ mkParam "pipeline.charge_collection.m1.arguments.a" (Lit [Sc 24; Sc 8; Sc 16]) true;
    mkParam "pipeline.charge_collection.m1.arguments.v" (Lit [Vec [8; 16]%Z; Vec [4; 2]%Z]) true ].

(* the dask path on an unsorted list: the run with a = 3.0 (24/8), v = (1.0, 2.0) is found under exactly
   these labels, with the data its values encode *)
Example ex_dask_unsorted_lookup :
  forallb (fun s => pvals_nodup (snd s)) (dask_steps (enabled ex_ps_unsorted)) = true /\
  option_map (fun oc => lookup [("a", LV (Sc 24)); ("v", LV (Vec [8; 16]%Z))] (oc_result oc))
             (observe_dask cfg_repaired Product ex_ps_unsorted
                [("pipeline.charge_collection.m1.arguments.a", Sc 1);
                 ("pipeline.charge_collection.m1.arguments.v", Vec [1; 1]%Z)] [] None)
  = Some (Some (24 + 64 * (8 + 64 * 16))%Z).
Proof. vm_compute. auto. Qed.

Example ex_merge_conflict :
  assemble [([("a", LV (Sc 8))], 1%Z); ([("a", LV (Sc 8))], 2%Z)] = None /\
  assemble [([("a", LV (Sc 8))], 1%Z); ([("a", LV (Sc 8))], 1%Z)] = Some [([("a", LV (Sc 8))], 1%Z)].
Proof. vm_compute. auto. Qed.

Example ex_dask_custom_columns :
  dask_custom_row cfg_repaired (enabled ex_custom) [1; 2; 3; 4]%Z 0 =
  [("k.a", Sc 1); ("k.v", Vec [2; 3]%Z); ("k.b", Sc 4)]%Z.
Proof. vm_compute. reflexivity. Qed.

(* a history: sequential sweep of a and v; run; the configured value of v is edited; run again *)
Definition ex_hist_conf : conf :=
  mkConf Sequential ex_ps [("pipeline.charge_collection.m1.arguments.a", Sc 8);
                           ("pipeline.charge_collection.m1.arguments.v", Vec [8; 8]%Z)] [] None false.
Definition ex_hist_ops : list hop :=
  [HRun; HEdit (ESlot "pipeline.charge_collection.m1.arguments.v" (Vec [40; 48]%Z)); HRun].

(* the hypotheses of C05_history_sequential hold for the second run, and that run gives v its NEW configured value
   while a is stepped (first executed run: a = 1.0 (8/8), v = (5.0, 6.0)) *)
Example ex_history_second_run_sees_edit :
  (exists c', nth_error (run_confs ex_hist_conf ex_hist_ops) 1 = Some c' /\ f_mode c' = Sequential /\
              f_dask c' = false /\ existsb has_ph (enabled (f_params c')) = false) /\
  option_map (option_map (fun oc => hd [] (oc_runs oc))) (nth_error (hist_run cfg_all_repaired [] ex_hist_conf ex_hist_ops) 1)
  = Some (Some [Sc 8; Vec [40; 48]%Z]) /\
  option_map (option_map (fun oc => hd [] (oc_runs oc))) (nth_error (hist_run cfg_all_repaired [] ex_hist_conf ex_hist_ops) 0)
  = Some (Some [Sc 8; Vec [8; 8]%Z]).
Proof. split; [eexists; repeat split; reflexivity | vm_compute; auto]. Qed.

(* the statement of C05_history has content: for the source configuration of the unrepaired tree it is false *)
Example ex_history_stale_types_differs :
  hist_run cfg_stale_types [] (wit_conf false) wit_ops_disable
  <> map (observe_conf cfg_stale_types) (run_confs (wit_conf false) wit_ops_disable).
Proof. intros E. vm_compute in E. discriminate E. Qed.

Example ex_src_cfg_types_fresh : cf_types_fresh src_cfg = true.
Proof. reflexivity. Qed.
