(* IEEE-754 binary64 as Flocq's BinarySingleNaN (computes on Z; no primitive floats). *)
From Coq Require Import ZArith List Bool.
From Flocq Require Import Core BinarySingleNaN.
Import ListNotations.
Open Scope Z_scope.

Definition b64 := binary_float 53 1024.

#[export] Instance prec_gt_0_53 : Prec_gt_0 53.
Proof. reflexivity. Defined.
#[export] Instance prec_lt_emax_53_1024 : Prec_lt_emax 53 1024.
Proof. reflexivity. Defined.

(* m * 2^e rounded to nearest even: how numpy / CPython turn a literal or a Python int into a double *)
Definition mk (m e : Z) : b64 := binary_normalize 53 1024 _ _ mode_NE m e false.
Definition bofZ (z : Z) : b64 := mk z 0.
Definition pzero : b64 := B754_zero false.
Definition nzero : b64 := B754_zero true.
Definition pinf : b64 := B754_infinity false.
Definition ninf : b64 := B754_infinity true.
Definition bnan : b64 := B754_nan.

Definition badd (x y : b64) : b64 := Bplus mode_NE x y.
Definition bsub (x y : b64) : b64 := Bminus mode_NE x y.
Definition bmul (x y : b64) : b64 := Bmult mode_NE x y.
Definition bdiv (x y : b64) : b64 := Bdiv mode_NE x y.

Definition bis_nan (x : b64) : bool := match x with B754_nan => true | _ => false end.

(* comparisons as IEEE / numpy: anything involving NaN is false *)
Definition blt (x y : b64) : bool := match Bcompare x y with Some Lt => true | _ => false end.
Definition ble (x y : b64) : bool := match Bcompare x y with Some Lt | Some Eq => true | _ => false end.
Definition bge (x y : b64) : bool := ble y x.
Definition bgt (x y : b64) : bool := blt y x.
Definition beq (x y : b64) : bool := match Bcompare x y with Some Eq => true | _ => false end.

(* np.maximum / np.minimum propagate NaN *)
Definition bmaximum (x y : b64) : b64 :=
  if bis_nan x then x else if bis_nan y then y else if bge x y then x else y.
Definition bminimum (x y : b64) : b64 :=
  if bis_nan x then x else if bis_nan y then y else if ble x y then x else y.
(* np.clip(x, a_min, a_max) = minimum(maximum(x, a_min), a_max) *)
Definition bclip (x lo hi : b64) : b64 := bminimum (bmaximum x lo) hi.

(* np.trunc as a float -> float operation (round toward zero to an integer; NaN and infinities unchanged) *)
Definition btrunc (x : b64) : b64 := Bnearbyint mode_ZR x.
(* np.nextafter(x, 0.0) for a positive x: the next double toward zero *)
Definition bpred (x : b64) : b64 := Bpred x.

(* np.trunc followed by a C cast to an integer: the integer part; None where the cast is undefined *)
Definition btruncZ (x : b64) : option Z :=
  match x with
  | B754_nan | B754_infinity _ => None
  | _ => Some (Btrunc x)
  end.

(* cast to an unsigned type of [w] bits: defined only when the value fits *)
Definition cast_unsigned (w : Z) (z : option Z) : option Z :=
  match z with
  | Some v => if (0 <=? v) && (v <? 2 ^ w) then Some v else None
  | None => None
  end.
