(* Executable model of the three functions that walk the calibration decision vector (C10).

     pyxel/calibration/fitting_datatree.py   ModelFittingDataTree._set_bound            -> bounds_walk
                                             ModelFittingDataTree.convert_to_parameters -> convert_walk
                                             ModelFittingDataTree.update_processor      -> assign_walk
     pyxel/observation/parameter_values.py   ParameterValues.__init__ (boundary shape)  -> pv_ok

   The walks are modelled as coded: `_set_bound` appends to two growing lists, the other two carry an
   explicit running offset `a` and address the vector by absolute index / numpy slice (clamped at the
   end of the array).  The element type A and the functions log10 / 10** are parameters, so that the
   structural theorems hold for binary64, Q and R alike; the file ends with the symbolic instance that
   the correspondence leg evaluates, and with the specification functions (structural, offset-free)
   that are the right-hand sides of the theorems.  No proofs in this file. *)
From Coq Require Import List Bool Arith String ZArith QArith Qabs Qround.
Import ListNotations.
Local Close Scope Q_scope.
Local Open Scope nat_scope.

Section Walks.
  Context {A : Type}.
  Variable flog : A -> A.        (* log10 *)
  Variable fexp : A -> A.        (* 10 ** x *)
  Variable logdom : A -> bool.   (* math.log10 accepts the value (raises ValueError otherwise) *)

  (* boundaries=None | (lo, hi) | [(lo, hi), ...] *)
  Inductive bnd := NoB | Shared (lo hi : A) | PerComp (l : list (A * A)).

  (* values = "_"  -> shape None ;  values = ["_"] * n -> shape (Some n) *)
  Record var := mkVar { key : string; shape : option nat; islog : bool; bounds : bnd }.

  (* what Processor.set receives: parameter[a] (a number) or parameter[a:a+b] (an array) *)
  Inductive aval := AScalar (a : A) | AVector (l : list A).

  Definition width (v : var) : nat := match shape v with None => 1 | Some n => n end.

  Fixpoint total (vs : list var) : nat :=
    match vs with [] => 0 | v :: r => width v + total r end.

  Definition offset (vs : list var) (k : nat) : nat := total (firstn k vs).

  Definition slice {B : Type} (off w : nat) (l : list B) : list B := firstn w (skipn off l).

  (* ParameterValues.__init__: a 2-D boundary array must have shape (len(values), 2); len("_") = 1 *)
  Definition pv_ok (v : var) : bool :=
    match bounds v with PerComp l => Nat.eqb (List.length l) (width v) | _ => true end.

  Definition logs (b : bool) (l : list A) : list A := if b then map flog l else l.

  (* one iteration of the loop of _set_bound; None = AssertionError / ValueError *)
  Definition var_bounds (v : var) : option (list A * list A) :=
    match bounds v, shape v with
    | NoB, _ => None                                   (* assert var.boundaries is not None *)
    | PerComp _, None => None                          (* assert var.boundaries.shape == (2,) *)
    | Shared lo hi, None =>
        if islog v
        then (if logdom lo && logdom hi then Some ([flog lo], [flog hi]) else None)   (* math.log10 *)
        else Some ([lo], [hi])
    | Shared lo hi, Some n => Some (logs (islog v) (repeat lo n), logs (islog v) (repeat hi n))
    | PerComp l, Some _ => Some (logs (islog v) (map fst l), logs (islog v) (map snd l))
    end.

  (* lbd += ... ; ubd += ... *)
  Fixpoint bounds_from (lbd ubd : list A) (vs : list var) : option (list A * list A) :=
    match vs with
    | [] => Some (lbd, ubd)
    | v :: r =>
        if pv_ok v then
          match var_bounds v with
          | None => None
          | Some (lo, hi) => bounds_from (lbd ++ lo) (ubd ++ hi) r
          end
        else None
    end.

  Definition bounds_walk (vs : list var) : option (list A * list A) := bounds_from [] [] vs.

  (* parameters[start:stop] = f(parameters[start:stop]); i = absolute index of the head of l *)
  Fixpoint map_range (f : A -> A) (start stop i : nat) (l : list A) : list A :=
    match l with
    | [] => []
    | x :: r => (if (start <=? i) && (i <? stop) then f x else x) :: map_range f start stop (S i) r
    end.

  (* a = 0; for var: b = width; if log: parameters[a:a+b] = 10 ** parameters[a:a+b]; a += b *)
  Fixpoint convert_from (a : nat) (vs : list var) (p : list A) : list A :=
    match vs with
    | [] => p
    | v :: r =>
        let b := width v in
        convert_from (a + b) r (if islog v then map_range fexp a (a + b) 0 p else p)
    end.

  Definition convert_walk (vs : list var) (x : list A) : list A := convert_from 0 vs x.

  (* a = 0; for var: "_" -> set(key, parameter[a]), b = 1; list -> set(key, parameter[a:a+b]); a += b.
     None = IndexError of parameter[a] *)
  Fixpoint assign_from (a : nat) (vs : list var) (p : list A) : option (list (string * aval)) :=
    match vs with
    | [] => Some []
    | v :: r =>
        match shape v with
        | None =>
            match nth_error p a with
            | None => None
            | Some x => option_map (cons (key v, AScalar x)) (assign_from (a + 1) r p)
            end
        | Some n => option_map (cons (key v, AVector (slice a n p))) (assign_from (a + n) r p)
        end
    end.

  Definition assign_walk (vs : list var) (p : list A) : option (list (string * aval)) :=
    assign_from 0 vs p.

  (* fitness(x): update_processor(convert_to_parameters(x)) ; _get_champions: convert_to_parameters(x) *)
  Definition applied (vs : list var) (x : list A) := assign_walk vs (convert_walk vs x).
  Definition reported (vs : list var) (x : list A) := convert_walk vs x.

  (* ------------------------------------------------------------ specification (offset-free) *)

  (* the declared boundary pair of every component of a variable *)
  Definition declared (v : var) : list (A * A) :=
    match bounds v with
    | NoB => []
    | Shared lo hi => repeat (lo, hi) (width v)
    | PerComp l => l
    end.

  Definition var_lower (v : var) : list A := logs (islog v) (map fst (declared v)).
  Definition var_upper (v : var) : list A := logs (islog v) (map snd (declared v)).
  Definition var_convert (v : var) (s : list A) : list A := if islog v then map fexp s else s.

  Definition var_value (v : var) (s : list A) : option aval :=
    match shape v with
    | None => match s with [a] => Some (AScalar a) | _ => None end
    | Some _ => Some (AVector s)
    end.

  Definition var_accept (v : var) : bool :=
    pv_ok v && match var_bounds v with Some _ => true | None => false end.

  (* index of the variable that owns component j: declaration order, consecutive components *)
  Fixpoint owner (vs : list var) (j : nat) : option nat :=
    match vs with
    | [] => None
    | v :: r => if j <? width v then Some 0 else option_map S (owner r (j - width v))
    end.

  Definition is_log_comp (vs : list var) (j : nat) : bool :=
    match owner vs j with
    | Some k => match nth_error vs k with Some v => islog v | None => false end
    | None => false
    end.

  Fixpoint sconvert (vs : list var) (q : list A) : list A :=
    match vs with
    | [] => q
    | v :: r => var_convert v (firstn (width v) q) ++ sconvert r (skipn (width v) q)
    end.

  Fixpoint sassign (vs : list var) (q : list A) : option (list (string * aval)) :=
    match vs with
    | [] => Some []
    | v :: r =>
        match var_value v (firstn (width v) q), sassign r (skipn (width v) q) with
        | Some a, Some l => Some ((key v, a) :: l)
        | _, _ => None
        end
    end.

  Definition flat (a : aval) : list A := match a with AScalar x => [x] | AVector l => l end.
  Definition flat_all (asg : list (string * aval)) : list A := List.concat (map (fun kv => flat (snd kv)) asg).

End Walks.

Arguments NoB {A}.
Arguments Shared {A} lo hi.
Arguments PerComp {A} l.
Arguments mkVar {A} key shape islog bounds.
Arguments AScalar {A} a.
Arguments AVector {A} l.

(* ==================================================================== symbolic instance (correspondence)

   The implementation's numbers are binary64; they reach Coq as exact rationals.  10**x and log10 are not
   rational functions, so the walks are run on symbolic values and the meaning of `Ten`/`Log` is given by
   the comparison `sym_match` (exact where the value is rational, a stated relative tolerance on the
   implementation side otherwise). *)

Local Open Scope Q_scope.

Inductive sym := Raw (q : Q) | Ten (q : Q) | Log (q : Q) | Bad.

Definition s_log (s : sym) : sym := match s with Raw q => Log q | _ => Bad end.
Definition s_exp (s : sym) : sym := match s with Raw q => Ten q | _ => Bad end.
Definition s_dom (s : sym) : bool := match s with Raw q => negb (Qle_bool q 0) | _ => false end.

Definition svar := @var sym.

Definition s_bounds := @bounds_walk sym s_log s_dom.
Definition s_convert := @convert_walk sym s_exp.
Definition s_assign := @assign_walk sym.

(* 10 ^ z as a rational *)
Definition q10 (z : Z) : Q := Qpower (10 # 1) z.

(* relative tolerance granted to the implementation's pow/log10: 4 ulp = 4 * 2^-52 *)
Definition tol : Q := 1 # (2 ^ 50).

Definition qle (a b : Q) : bool := Qle_bool a b.
Definition qeq (a b : Q) : bool := Qeq_bool a b.
Definition near (m f : Q) : bool := qle (Qabs (f - m)) (tol * Qabs m).
Definition is_int (q : Q) : bool := qeq (inject_Z (Qfloor q)) q.

(* f is (within tol) 10 ** x: exact-to-tolerance when x is an integer, else bracketed by its decade *)
Definition ten_ok (x f : Q) : bool :=
  let k := Qfloor x in
  if is_int x then near (q10 k) f
  else qle (q10 k * (1 - tol)) f && qle f (q10 (k + 1) * (1 + tol)).

(* log10 of a binary64 neighbour (within tol) of a power of ten 10^k, |k| <= 40 *)
Fixpoint find_log (q : Q) (k : Z) (n : nat) : option Z :=
  match n with
  | O => None
  | S n' => if near (q10 k) q then Some k else find_log q (k + 1) n'
  end.
(* The candidates are the few integers around (log2 num - log2 den) * log10 2: the bit lengths give log2 q
   within 1, hence log10 q within 0.31 + the truncation, and at most one k can be `near`. *)
Definition log10_est (q : Q) : Z :=
  match Qnum q with
  | Zpos n => ((Z.log2 (Zpos n) - Z.log2 (Zpos (Qden q))) * 30103) / 100000
  | _ => 0
  end%Z.
Definition exact_log10 (q : Q) : option Z :=
  let lo := Z.max (-40) (log10_est q - 2) in
  let hi := Z.min 40 (log10_est q + 2) in
  find_log q lo (Z.to_nat (hi - lo + 1)).

(* f is (within tol) log10 q.  Only powers of ten are decidable here; the generators use nothing else. *)
Definition log_ok (q f : Q) : bool :=
  match exact_log10 q with Some k => near (inject_Z k) f | None => false end.

Definition sym_match (s : sym) (f : Q) : bool :=
  match s with
  | Raw q => qeq q f
  | Ten x => ten_ok x f
  | Log q => log_ok q f
  | Bad => false
  end.

Fixpoint all2 {X Y : Type} (p : X -> Y -> bool) (l : list X) (m : list Y) : bool :=
  match l, m with
  | [], [] => true
  | x :: l', y :: m' => p x y && all2 p l' m'
  | _, _ => false
  end.

Definition aval_match (a : @aval sym) (b : @aval Q) : bool :=
  match a, b with
  | AScalar s, AScalar f => sym_match s f
  | AVector l, AVector m => all2 sym_match l m
  | _, _ => false
  end.

Definition kv_match (a : string * @aval sym) (b : string * @aval Q) : bool :=
  String.eqb (fst a) (fst b) && aval_match (snd a) (snd b).

(* ---------------------------------------------------------------------------- case records *)

(* one decision vector driven through the implementation *)
Record probe := {
  p_x : list Q;                                   (* the decision vector handed in *)
  p_x_after : list Q;                             (* the same array after convert_to_parameters / fitness *)
  p_conv : option (list Q);                       (* convert_to_parameters(x)  (= what is reported) *)
  p_applied : option (list (string * @aval Q))    (* what the probe model received, in declaration order;
                                                     None = no evaluation with this vector was observed *)
}.

Record c10_case := {
  c_vars : list svar;
  c_bounds : option (list Q * list Q);            (* get_bounds(); None = construction refused *)
  c_probes : list probe
}.

(* ---------------------------------------------------------------------------- model vs implementation *)

Definition probe_mismatch (vs : list svar) (p : probe) : bool :=
  let x := map Raw (p_x p) in
  negb (match p_conv p with
        | Some c => all2 sym_match (s_convert vs x) c
        | None => true
        end
        &&
        match p_applied p, s_assign vs (s_convert vs x) with
        | Some a, Some m => all2 kv_match m a
        | None, _ => true
        | Some _, None => false
        end).

Definition case_mismatch (c : c10_case) : bool :=
  match s_bounds (c_vars c), c_bounds c with
  | None, None => false
  | Some (lb, ub), Some (ilb, iub) =>
      negb (all2 sym_match lb ilb && all2 sym_match ub iub) || existsb (probe_mismatch (c_vars c)) (c_probes c)
  | _, _ => true
  end.

(* ---------------------------------------------------------------------------- specification on impl outputs
   Uses only the declaration (c_vars) and the structural, offset-free spec functions. *)

Definition decl_lower (vs : list svar) : list sym := List.concat (map (var_lower s_log) vs).
Definition decl_upper (vs : list svar) : list sym := List.concat (map (var_upper s_log) vs).
Definition decl_pairs (vs : list svar) : list (sym * sym * bool) :=
  List.concat (map (fun v => map (fun d => (fst d, snd d, islog v)) (declared v)) vs).

Definition in_box (d : sym * sym * bool) (f : Q) : bool :=
  match d with
  | (Raw lo, Raw hi, false) => qle lo f && qle f hi
  | (Raw lo, Raw hi, true) => qle (lo * (1 - tol)) f && qle f (hi * (1 + tol))
  | _ => false
  end.

Definition q_of_aval (a : @aval Q) : list Q := flat a.

Definition shape_ok (v : svar) (a : string * @aval Q) : bool :=
  String.eqb (key v) (fst a) &&
  match shape v, snd a with
  | None, AScalar _ => true
  | Some n, AVector l => Nat.eqb (List.length l) n
  | _, _ => false
  end.

(* clause numbers: 1 bounds, 2 conversion (log only on log slices), 3 inside the declared box,
   4 reported = applied, 5 decision vector left unmodified, 6 candidate outside the optimiser's box
   with an evaluation observed, 7 refusal/acceptance differs from the declared rules *)
Definition probe_clauses (vs : list svar) (ilb iub : list Q) (p : probe) : list nat :=
  let x := p_x p in
  let inbox := all2 qle ilb x && all2 qle x iub in
  (match p_conv p with
   | Some c =>
       (if all2 sym_match (sconvert s_exp vs (map Raw x)) c then [] else [2%nat]) ++
       (if negb inbox || all2 in_box (decl_pairs vs) c then [] else [3%nat]) ++
       (match p_applied p with
        | Some a => if all2 shape_ok vs a && all2 qeq (List.concat (map (fun kv => q_of_aval (snd kv)) a)) c
                    then [] else [4%nat]
        | None => []
        end)
   | None => [2%nat]
   end) ++
  (if all2 qeq x (p_x_after p) then [] else [5%nat]) ++
  (match p_applied p with Some _ => if inbox then [] else [6%nat] | None => [] end).

Definition case_clauses (c : c10_case) : list nat :=
  let vs := c_vars c in
  match c_bounds c with
  | None => if forallb (var_accept s_log s_dom) vs then [7%nat] else []
  | Some (ilb, iub) =>
      if negb (forallb (var_accept s_log s_dom) vs) then [7%nat]
      else
        (if all2 sym_match (decl_lower vs) ilb && all2 sym_match (decl_upper vs) iub then [] else [1%nat]) ++
        List.concat (map (probe_clauses vs ilb iub) (c_probes c))
  end.

Definition case_violates (c : c10_case) : bool := match case_clauses c with [] => false | _ => true end.

Fixpoint indices_where {X : Type} (p : X -> bool) (l : list X) (i : Z) : list Z :=
  match l with
  | [] => []
  | x :: r => if p x then i :: indices_where p r (i + 1)%Z else indices_where p r (i + 1)%Z
  end.

Definition mismatches (cs : list c10_case) : list Z := indices_where case_mismatch cs 0%Z.
Definition violations (cs : list c10_case) : list Z := indices_where case_violates cs 0%Z.
(* per violating case: (index, clause numbers, index of the first offending probe) *)
Definition first_bad_probe (c : c10_case) : Z :=
  match c_bounds c with
  | Some (ilb, iub) =>
      match indices_where (fun p => match probe_clauses (c_vars c) ilb iub p with [] => false | _ => true end)
              (c_probes c) 0%Z with
      | i :: _ => i
      | [] => (-1)%Z
      end
  | None => (-1)%Z
  end.
(* flat encoding, per violating case: index, first offending probe, number of clauses, the clauses *)
Definition violation_details (cs : list c10_case) : list Z :=
  (fix go (l : list c10_case) (i : Z) : list Z :=
     match l with
     | [] => []
     | c :: r => match case_clauses c with
                 | [] => go r (i + 1)%Z
                 | cl => (i :: first_bad_probe c :: Z.of_nat (List.length cl) :: map Z.of_nat cl) ++ go r (i + 1)%Z
                 end
     end) cs 0%Z.
