(* Delimiter detection of pyxel/inputs/loader.py load_image for .txt/.data files (C20):
     for sep in <src_delims>: try np.loadtxt(delimiter=sep, ndmin=2) ; first success wins.
   A line of text is a list of tokens: numbers are atomic (the text of a number contains none of
   the five separator characters), separators are single characters.
   try_parse is the model of np.loadtxt on such lines (split at the separator, strip blanks around
   each field, float() of the field, all rows of equal length, blank lines skipped).
   The order in which separators are tried is a PARAMETER (Gen_C20.src_delims).
   No proofs here (Proofs/PlacementDelim.v). *)
From Coq Require Import ZArith List Bool.
Import ListNotations.
Open Scope Z_scope.

Inductive delim := DTab | DSpace | DComma | DBar | DSemicolon.

Definition delim_eqb (a b : delim) : bool :=
  match a, b with
  | DTab, DTab | DSpace, DSpace | DComma, DComma | DBar, DBar | DSemicolon, DSemicolon => true
  | _, _ => false
  end.

Definition all_delims : list delim := [DTab; DSpace; DComma; DBar; DSemicolon].

Inductive tok := Num (z : Z) | Sep (d : delim).
Definition line := list tok.
Definition table := list (list Z).

(* ---------------------------------------------------------------- writing *)

Definition render_row (d : delim) (row : list Z) : line :=
  match row with
  | [] => []
  | x :: t => Num x :: flat_map (fun y => [Sep d; Num y]) t
  end.

Definition render (d : delim) (t : table) : list line := map (render_row d) t.

(* ---------------------------------------------------------------- reading *)

Fixpoint split (d : delim) (l : line) : list line :=
  match l with
  | [] => [[]]
  | tk :: t =>
      let cut := match tk with Sep d' => delim_eqb d d' | Num _ => false end in
      if cut then [] :: split d t
      else match split d t with
           | f :: r => (tk :: f) :: r
           | [] => [[tk]]
           end
  end.

Definition is_blank (tk : tok) : bool :=
  match tk with Sep DTab | Sep DSpace => true | _ => false end.

Fixpoint drop_front (l : line) : line :=
  match l with
  | tk :: t => if is_blank tk then drop_front t else l
  | [] => []
  end.

Fixpoint drop_back (l : line) : line :=
  match l with
  | [] => []
  | tk :: t => match drop_back t with
               | [] => if is_blank tk then [] else [tk]
               | t' => tk :: t'
               end
  end.

(* float(field) after stripping blanks: exactly one number and nothing else *)
Definition parse_field (f : line) : option Z :=
  match drop_front (drop_back f) with
  | [Num z] => Some z
  | _ => None
  end.

Fixpoint all_some {A} (l : list (option A)) : option (list A) :=
  match l with
  | [] => Some []
  | Some x :: t => match all_some t with Some r => Some (x :: r) | None => None end
  | None :: _ => None
  end.

Definition parse_line (d : delim) (l : line) : option (list Z) := all_some (map parse_field (split d l)).

Definition same_lengths (t : table) : bool :=
  match t with
  | [] => true
  | r :: rest => forallb (fun r' => Nat.eqb (length r') (length r)) rest
  end.

Definition blank_line (l : line) : bool := forallb is_blank l.

(* None = np.loadtxt raises ValueError *)
Definition try_parse (d : delim) (ls : list line) : option table :=
  match all_some (map (parse_line d) (filter (fun l => negb (blank_line l)) ls)) with
  | Some t => if same_lengths t then Some t else None
  | None => None
  end.

Fixpoint detect (order : list delim) (ls : list line) : option table :=
  match order with
  | [] => None                                  (* "Cannot find the separator" *)
  | d :: rest => match try_parse d ls with
                 | Some t => Some t
                 | None => detect rest ls
                 end
  end.

(* ---------------------------------------------------------------- the property's right-hand side *)

Definition rectangular (t : table) : bool :=
  match t with
  | [] => false
  | r :: rest => negb (Nat.eqb (length r) 0) && forallb (fun r' => Nat.eqb (length r') (length r)) rest
  end.

Definition table_eqb (a b : table) : bool :=
  (Nat.eqb (length a) (length b)) &&
  forallb (fun rr => (Nat.eqb (length (fst rr)) (length (snd rr))) &&
                     forallb (fun xy => fst xy =? snd xy) (combine (fst rr) (snd rr)))
          (combine a b).

Definition otable_agree (m o : option table) : bool :=
  match m, o with
  | None, None => true
  | Some x, Some y => table_eqb x y
  | _, _ => false
  end.

(* a file's text and what the loader returned (None = ValueError) *)
Record delim_case := { d_lines : list line; d_obs : option table }.

(* a stored table and what came back through a format *)
Record roundtrip_case := { r_table : table; r_obs : option table }.

Fixpoint indices_where {A} (f : A -> bool) (l : list A) (i : Z) : list Z :=
  match l with
  | [] => []
  | a :: t => if f a then i :: indices_where f t (i + 1) else indices_where f t (i + 1)
  end.

Definition delim_mismatches (order : list delim) (cs : list delim_case) : list Z :=
  indices_where (fun c => negb (otable_agree (detect order (d_lines c)) (d_obs c))) cs 0.

(* read back with the same shape and values *)
Definition roundtrip_violations (cs : list roundtrip_case) : list Z :=
  indices_where (fun c => negb (otable_agree (Some (r_table c)) (r_obs c))) cs 0.

(* ---------------------------------------------------------------- what the decision can depend on *)

(* the numbers of a line, in order, whatever separates them *)
Fixpoint nums_of (l : line) : list Z :=
  match l with
  | [] => []
  | Num z :: t => z :: nums_of t
  | Sep _ :: t => nums_of t
  end.

(* the table a text holds if it is accepted at all: the numbers of its non-blank lines *)
Definition numbers_of (ls : list line) : table :=
  map nums_of (filter (fun l => negb (blank_line l)) ls).

Definition accepted (d : delim) (ls : list line) : bool :=
  match try_parse d ls with Some _ => true | None => false end.

(* the separator that decides: the first one of the list under which the whole text parses *)
Definition winner (order : list delim) (ls : list line) : option delim := find (fun d => accepted d ls) order.

Fixpoint count_sep (d : delim) (l : line) : nat :=
  match l with
  | [] => 0
  | Sep d' :: t => (if delim_eqb d d' then 1 else 0) + count_sep d t
  | Num _ :: t => count_sep d t
  end.

(* every separator character of the line other than d is a blank (tab / space) *)
Definition others_blank (d : delim) (l : line) : bool :=
  forallb (fun tk => match tk with Num _ => true | Sep d' => delim_eqb d d' || is_blank tk end) l.

(* writing with a GAP: the same run of separator characters between every two neighbours of a row, e.g. ", "
   (comma + blank), " | ", tab + blank *)
Definition gap := list delim.

Definition render_gap_row (g : gap) (row : list Z) : line :=
  match row with
  | [] => []
  | x :: t => Num x :: flat_map (fun y => map Sep g ++ [Num y]) t
  end.

Definition render_gap (g : gap) (t : table) : list line := map (render_gap_row g) t.

(* d reads a gap: it occurs exactly once in it and everything else in the gap is blank *)
Definition gap_ok (d : delim) (g : gap) : bool :=
  Nat.eqb (count_sep d (map Sep g)) 1 && others_blank d (map Sep g).
