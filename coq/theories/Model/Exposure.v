(* C02 (reused by C17) — executable model of the readout schedule, the clock seen by the models and the
   per-step bucket lifecycle of an exposure run.

   Anchors:  pyxel/exposure/readout.py        Readout.__init__, times / start_time setters, replace,
                                              calculate_steps
             pyxel/detectors/readout_properties.py   ReadoutProperties.__init__, absolute_time,
                                              is_first_readout, is_last_readout
             pyxel/exposure/exposure.py       run_pipeline (set_readout, empty(), per-step clock, empty(destructive))
             pyxel/detectors/detector.py      Detector.empty(reset), set_readout
             pyxel/data_structure/*.py        Pixel.empty (zeros), Photon/Charge/Array.empty

   Definitions only (no proofs).  The guard lists of the four validation sites and the table of
   Detector.empty are PARAMETERS of the model: the check regenerates them from the source (Gen_C02.v). *)
From Coq Require Import QArith ZArith List Bool.
Import ListNotations.
Open Scope Q_scope.

(* ------------------------------------------------------------------------------------------------ *)
(* 1. time values: what a float64 time can be for this property = a rational or NaN                  *)

Inductive tv := TQ (q : Q) | TNaN.

Definition tsub (a b : tv) : tv := match a, b with TQ x, TQ y => TQ (x - y) | _, _ => TNaN end.
Definition tadd (a b : tv) : tv := match a, b with TQ x, TQ y => TQ (x + y) | _, _ => TNaN end.
(* IEEE comparisons: anything with NaN is false *)
Definition tv_is0 (a : tv) : bool := match a with TQ x => Qeq_bool x 0 | TNaN => false end.
Definition tv_ge (a b : tv) : bool := match a, b with TQ x, TQ y => Qle_bool y x | _, _ => false end.
Definition tv_lt (a b : tv) : bool := match a, b with TQ x, TQ y => negb (Qle_bool y x) | _, _ => false end.
Definition tv_pos (a : tv) : bool := match a with TQ x => negb (Qle_bool x 0) | TNaN => false end.
Definition tv_finite (a : tv) : bool := match a with TQ _ => true | TNaN => false end.
Definition tv_eqb (a b : tv) : bool :=
  match a, b with TQ x, TQ y => Qeq_bool x y | TNaN, TNaN => true | _, _ => false end.

(* numpy.diff *)
Fixpoint diff (l : list Q) : list Q :=
  match l with a :: (b :: _) as tl => (b - a) :: diff tl | _ => [] end.
Fixpoint tdiff (l : list tv) : list tv :=
  match l with a :: (b :: _) as tl => tsub b a :: tdiff tl | _ => [] end.

(* calculate_steps(times, start_time) = np.diff(np.concatenate(([start_time], times))) *)
Definition steps_q (start : Q) (ts : list Q) : list Q := diff (start :: ts).
Definition steps (start : tv) (ts : list tv) : list tv := tdiff (start :: ts).

Fixpoint qsum (l : list Q) : Q := match l with [] => 0 | x :: r => x + qsum r end.

(* ------------------------------------------------------------------------------------------------ *)
(* 2. what a caller can hand over as `times`, and the validation guards                               *)

(* after np.array(...): a 1-D array of values, or something with ndim <> 1 *)
Inductive raw := R1 (ts : list tv) | R2.

(* FList: list / tuple / scalar / "numpy..." string / file (all reach np.array(list, dtype=float));
   FNdarray: a numpy array object passed as `times` (what Readout.replace does with its own _times); the
   constructor handles it like a list iff it first converts it ([g_ndarray], regenerated) *)
Inductive form := FList | FNdarray.

Inductive guard :=
| GProvided          (* `elif times:` ... else: raise  — truthiness of the argument                    *)
| GNdim1             (* ndim != 1 -> raise                                                             *)
| GNonEmpty          (* size == 0 -> raise                                                             *)
| GFirstNonZero      (* times[0] == 0 -> raise   (IndexError on an empty array: also a rejection)      *)
| GStartBelowFirst   (* start >= times[0] -> raise        (negative form: a NaN on either side passes)    *)
| GStartLtFirst      (* not start < times[0] -> raise     (positive form: a NaN on either side is refused)*)
| GIncreasing.       (* not np.all(np.diff(times) > 0) -> raise                                        *)

Definition guard_eqb (a b : guard) : bool :=
  match a, b with
  | GProvided, GProvided | GNdim1, GNdim1 | GNonEmpty, GNonEmpty | GFirstNonZero, GFirstNonZero
  | GStartBelowFirst, GStartBelowFirst | GStartLtFirst, GStartLtFirst | GIncreasing, GIncreasing => true
  | _, _ => false
  end.
Definition gmem (g : guard) (l : list guard) : bool := existsb (guard_eqb g) l.

(* true = the guard lets the input pass.  Elementwise guards say nothing useful about an input that is
   not 1-D (they raise or pass depending on the row length); the model lets them pass and relies on the
   np.concatenate of calculate_steps, which refuses anything that is not 1-D (see [concat_ok]). *)
Definition guard_passes (g : guard) (start : tv) (r : raw) : bool :=
  match g, r with
  | GNdim1, R1 _ => true
  | GNdim1, R2 => false
  | (GProvided | GNonEmpty), R1 [] => false
  | (GProvided | GNonEmpty), _ => true
  | GFirstNonZero, R1 [] => false
  | GFirstNonZero, R1 (t :: _) => negb (tv_is0 t)
  | GStartBelowFirst, R1 [] => false
  | GStartBelowFirst, R1 (t :: _) => negb (tv_ge start t)
  | GStartLtFirst, R1 [] => false
  | GStartLtFirst, R1 (t :: _) => tv_lt start t
  | GIncreasing, R1 ts => forallb tv_pos (tdiff ts)
  | _, R2 => true
  end.

Definition guards_pass (gs : list guard) (start : tv) (r : raw) : bool :=
  forallb (fun g => guard_passes g start r) gs.

Definition concat_ok (r : raw) : bool := match r with R1 _ => true | R2 => false end.

Record guard_table := {
  g_ndarray : bool;             (* Readout.__init__ converts a numpy array given as `times` to a list first *)
  g_ctor : list guard;          (* Readout.__init__                       *)
  g_set_times : list guard;     (* Readout.times setter                   *)
  g_set_start : list guard;     (* Readout.start_time setter              *)
  g_rp : list guard             (* ReadoutProperties.__init__ (set_readout) *)
}.

(* ------------------------------------------------------------------------------------------------ *)
(* 3. the Readout object and the operations a caller can apply before running                          *)

Record readout := { r_times : raw; r_start : tv; r_nd : bool }.

Inductive op :=
| OSetTimes (r : raw)            (* readout.times = ...            *)
| OSetStart (s : tv)             (* readout.start_time = ...       *)
| OSetND (b : bool)              (* readout.non_destructive = ...  *)
| OReplaceTimes (r : raw)        (* readout.replace(times=<list>)  *)
| OReplaceStart (s : tv)         (* readout.replace(start_time=..) *)
| OReplaceND (b : bool).         (* readout.replace(non_destructive=..) *)

(* Readout(times=..., start_time=..., non_destructive=...) as coded.  Without the conversion an ndarray
   argument never gets through: `elif times:` is ambiguous for size > 1 and eval_range refuses arrays
   otherwise. *)
Definition ctor (G : guard_table) (f : form) (r : raw) (s : tv) (nd : bool) : option readout :=
  if match f with FNdarray => g_ndarray G | FList => true end
  then if guards_pass (g_ctor G) s r && concat_ok r
       then Some {| r_times := r; r_start := s; r_nd := nd |} else None
  else None.

Definition apply_op (G : guard_table) (ro : readout) (o : op) : option readout :=
  match o with
  | OSetTimes r =>
      if guards_pass (g_set_times G) (r_start ro) r && concat_ok r
      then Some {| r_times := r; r_start := r_start ro; r_nd := r_nd ro |} else None
  | OSetStart s =>
      if guards_pass (g_set_start G) s (r_times ro)
      then Some {| r_times := r_times ro; r_start := s; r_nd := r_nd ro |} else None
  | OSetND b => Some {| r_times := r_times ro; r_start := r_start ro; r_nd := b |}
  | OReplaceTimes r => ctor G FList r (r_start ro) (r_nd ro)
  (* replace() hands its own numpy array back to the constructor *)
  | OReplaceStart s => ctor G FNdarray (r_times ro) s (r_nd ro)
  | OReplaceND b => ctor G FNdarray (r_times ro) (r_start ro) b
  end.

Fixpoint apply_ops (G : guard_table) (ro : readout) (ops : list op) : option readout :=
  match ops with
  | [] => Some ro
  | o :: rest => match apply_op G ro o with Some ro' => apply_ops G ro' rest | None => None end
  end.

(* what the caller asked for, guards aside *)
Definition intend_op (ro : readout) (o : op) : readout :=
  match o with
  | OSetTimes r | OReplaceTimes r => {| r_times := r; r_start := r_start ro; r_nd := r_nd ro |}
  | OSetStart s | OReplaceStart s => {| r_times := r_times ro; r_start := s; r_nd := r_nd ro |}
  | OSetND b | OReplaceND b => {| r_times := r_times ro; r_start := r_start ro; r_nd := b |}
  end.
Definition intended (ro : readout) (ops : list op) : readout := fold_left intend_op ops ro.
(* every schedule the caller has installed on the way, the first one included *)
Fixpoint intended_all (ro : readout) (ops : list op) : list readout :=
  ro :: match ops with [] => [] | o :: rest => intended_all (intend_op ro o) rest end.

(* ------------------------------------------------------------------------------------------------ *)
(* 4. validity of a schedule, written from the property text (NOT from the guards)                    *)

Fixpoint increasing_q (l : list Q) : Prop :=
  match l with a :: (b :: _) as tl => a < b /\ increasing_q tl | _ => True end.

Definition valid_q (ts : list Q) (start : Q) : Prop :=
  match ts with [] => False | t0 :: _ => ~ t0 == 0 /\ start < t0 /\ increasing_q ts end.

Definition valid (r : raw) (start : tv) : Prop :=
  exists ts s, r = R1 (map TQ ts) /\ start = TQ s /\ valid_q ts s.

(* the same as a bool function: the oracle of the correspondence leg *)
Fixpoint increasing_b (l : list tv) : bool :=
  match l with
  | a :: (b :: _) as tl => (tv_finite a && tv_finite b && negb (tv_ge a b)) && increasing_b tl
  | _ => true
  end.
Definition valid_b (r : raw) (start : tv) : bool :=
  match r with
  | R1 ((t0 :: _) as ts) =>
      forallb tv_finite ts && tv_finite start && negb (tv_is0 t0) && negb (tv_ge start t0) && increasing_b ts
  | _ => false
  end.
Definition nan_free (r : raw) (start : tv) : Prop :=
  tv_finite start = true /\ match r with R1 ts => forallb tv_finite ts = true | R2 => True end.
Definition nan_free_b (r : raw) (start : tv) : bool :=
  tv_finite start && match r with R1 ts => forallb tv_finite ts | R2 => true end.

(* ------------------------------------------------------------------------------------------------ *)
(* 5. the detector's buckets, and the pieces of state each container keeps its data in                *)

Inductive bucket := Scene | Photon | Charge | Pixel | Signal | Image.
Definition bucket_eqb (a b : bucket) : bool :=
  match a, b with
  | Scene, Scene | Photon, Photon | Charge, Charge | Pixel, Pixel | Signal, Signal | Image, Image => true
  | _, _ => false
  end.
Definition bmem (b : bucket) (l : list bucket) : bool := existsb (bucket_eqb b) l.
Definition all_buckets := [Scene; Photon; Charge; Pixel; Signal; Image].

(* the attributes that hold a container's data: one per container (Scene._source, Photon._array,
   Pixel/Signal/Image._array), except Charge, which keeps a 2-D array (_array) AND a dataframe of particles
   (_frame): models deposit charge in either form (add_charge_array / add_charge, add_charge_dataframe) *)
Inductive piece := PScene | PPhoton | PChargeArr | PChargeFrame | PPixel | PSignal | PImage.
Definition owner (p : piece) : bucket :=
  match p with
  | PScene => Scene | PPhoton => Photon | PChargeArr | PChargeFrame => Charge
  | PPixel => Pixel | PSignal => Signal | PImage => Image
  end.
Definition all_pieces := [PScene; PPhoton; PChargeArr; PChargeFrame; PPixel; PSignal; PImage].

(* <Container>.empty() as coded (regenerated from the source): a sequence of if / elif / else chains whose
   branches re-initialise pieces of the container; an unconditional statement is the chain [(CTrue, ..)].
   The tests only ask whether a piece currently holds something:
     CHolds p      `self._array is not None` / `self._array.any()` / `not self._frame.empty`
     CHoldsNot p   the negations                                                                        *)
Inductive ccond := CTrue | CHolds (p : piece) | CHoldsNot (p : piece).
Definition chain := list (ccond * list piece).       (* first branch whose test holds is executed *)
Definition cprog := list chain.                      (* executed in sequence *)

(* which readouts make the per-step `detector.empty(<flag>)` of the run loop a full reset (pixel included):
   LIfDestructive = `not detector.non_destructive_readout` (as it should be), the others are what a changed loop
   could say *)
Inductive reset_policy := LIfDestructive | LIfNonDestructive | LAlways | LNever.
Definition loop_reset (p : reset_policy) (nd : bool) : bool :=
  match p with LIfDestructive => negb nd | LIfNonDestructive => nd | LAlways => true | LNever => false end.
Definition reset_policy_eqb (a b : reset_policy) : bool :=
  match a, b with
  | LIfDestructive, LIfDestructive | LIfNonDestructive, LIfNonDestructive | LAlways, LAlways | LNever, LNever => true
  | _, _ => false
  end.

(* Detector.empty(reset): the containers emptied unconditionally and those emptied only `if reset:`; what
   emptying each container does to its pieces; whether reading Charge.array stores the array derived
   from the particles back into _array (run_pipeline reads it when it extracts the result of a step);
   and how run_pipeline uses it: is there a full `detector.empty()` between set_readout and the loop, which
   per-step reset flag does the loop pass, and does the deprecated copy of the loop do the same *)
Record empty_table := { e_always : list bucket; e_if_reset : list bucket;
                        e_scene : cprog; e_photon : cprog; e_charge : cprog; e_pixel : cprog;
                        e_signal : cprog; e_image : cprog;
                        e_read_stores : bool;
                        e_init_reset : bool; e_loop_reset : reset_policy; e_old_loop_same : bool }.
Definition e_prog (E : empty_table) (b : bucket) : cprog :=
  match b with
  | Scene => e_scene E | Photon => e_photon E | Charge => e_charge E
  | Pixel => e_pixel E | Signal => e_signal E | Image => e_image E
  end.

(* what the models can read from the detector during one step *)
Record clock := { c_time : tv; c_step : tv; c_abs : tv; c_count : Z; c_first : bool; c_last : bool }.

(* ------------------------------------------------------------------------------------------------ *)
(* 5a. the ReadoutProperties OBJECT a detector carries from one run to the next                        *)

(* public state of a ReadoutProperties object: the sampling fixed by its constructor (times, steps,
   num_steps, start_time, non_destructive) and the running part written by run_pipeline through the public
   setters (time, time_step, pipeline_count).  start_time also has a public setter (it only stores). *)
Record rp_state := { rp_times : list tv; rp_steps : list tv; rp_num : Z; rp_start : tv; rp_nd : bool;
                     rp_time : tv; rp_step : tv; rp_count : Z }.

(* ReadoutProperties.__init__(times, start_time, non_destructive): None = it raised *)
Definition rp_init (G : guard_table) (ro : readout) : option rp_state :=
  match r_times ro with
  | R1 ts =>
      if guards_pass (g_rp G) (r_start ro) (R1 ts)
      then let sts := steps (r_start ro) ts in
           Some {| rp_times := ts; rp_steps := sts; rp_num := Z.of_nat (length sts);
                   rp_start := r_start ro; rp_nd := r_nd ro;
                   rp_time := TQ 0; rp_step := TQ 1; rp_count := 0%Z |}
      else None
  | R2 => None
  end.

(* Detector.set_readout: does it always build a new ReadoutProperties from the readout it is given
   (SRAlwaysNew, regenerated from the source), or does it keep an object it already has? *)
Inductive sr_policy := SRAlwaysNew | SRKeepExisting.

Definition set_readout (G : guard_table) (SR : sr_policy) (prev : option rp_state) (ro : readout)
  : option rp_state :=
  match SR, prev with
  | SRKeepExisting, Some p => Some p
  | _, _ => rp_init G ro
  end.

(* what the models read: detector.time / time_step / absolute_time / pipeline_count / is_first_readout /
   is_last_readout all go through the object *)
Definition rp_clock (p : rp_state) : clock :=
  {| c_time := rp_time p; c_step := rp_step p; c_abs := tadd (rp_start p) (rp_time p);
     c_count := rp_count p; c_first := Z.eqb (rp_count p) 0%Z;
     c_last := Z.eqb (rp_count p) (rp_num p - 1)%Z |}.

(* the three stores at the top of every iteration of run_pipeline's loop *)
Definition rp_tick (p : rp_state) (t st : tv) (i : Z) : rp_state :=
  {| rp_times := rp_times p; rp_steps := rp_steps p; rp_num := rp_num p; rp_start := rp_start p;
     rp_nd := rp_nd p; rp_time := t; rp_step := st; rp_count := i |}.

Section Lifecycle.
  Variable A : Type.          (* an array of the detector's shape *)
  Variable zero : A.          (* np.zeros(shape) *)

  (* None = empty / uninitialised (charge array: all zero; charge frame: no particle) *)
  Record det := { scene : option A; photon : option A; charge : option A; cframe : option A;
                  pixel : option A; signal : option A; image : option A }.

  Definition getp (p : piece) (d : det) : option A :=
    match p with PScene => scene d | PPhoton => photon d | PChargeArr => charge d | PChargeFrame => cframe d
            | PPixel => pixel d | PSignal => signal d | PImage => image d end.

  Definition setp (p : piece) (v : option A) (d : det) : det :=
    match p with
    | PScene => {| scene := v; photon := photon d; charge := charge d; cframe := cframe d; pixel := pixel d;
                   signal := signal d; image := image d |}
    | PPhoton => {| scene := scene d; photon := v; charge := charge d; cframe := cframe d; pixel := pixel d;
                    signal := signal d; image := image d |}
    | PChargeArr => {| scene := scene d; photon := photon d; charge := v; cframe := cframe d; pixel := pixel d;
                       signal := signal d; image := image d |}
    | PChargeFrame => {| scene := scene d; photon := photon d; charge := charge d; cframe := v; pixel := pixel d;
                         signal := signal d; image := image d |}
    | PPixel => {| scene := scene d; photon := photon d; charge := charge d; cframe := cframe d; pixel := v;
                   signal := signal d; image := image d |}
    | PSignal => {| scene := scene d; photon := photon d; charge := charge d; cframe := cframe d; pixel := pixel d;
                    signal := v; image := image d |}
    | PImage => {| scene := scene d; photon := photon d; charge := charge d; cframe := cframe d; pixel := pixel d;
                   signal := signal d; image := v |}
    end.

  (* what re-initialising a piece stores: Pixel.empty() stores zeros; every other one stores nothing *)
  Definition cleared (p : piece) : option A := match p with PPixel => Some zero | _ => None end.

  Definition holds (p : piece) (d : det) : bool := match getp p d with Some _ => true | None => false end.

  Definition cond_holds (c : ccond) (d : det) : bool :=
    match c with CTrue => true | CHolds p => holds p d | CHoldsNot p => negb (holds p d) end.

  Definition reset_pieces (ps : list piece) (d : det) : det := fold_left (fun d p => setp p (cleared p) d) ps d.

  Fixpoint run_chain (ch : chain) (d : det) : det :=
    match ch with
    | [] => d
    | (c, ps) :: rest => if cond_holds c d then reset_pieces ps d else run_chain rest d
    end.

  (* <Container>.empty() *)
  Definition run_cprog (pr : cprog) (d : det) : det := fold_left (fun d ch => run_chain ch d) pr d.

  Definition emptied (E : empty_table) (reset : bool) (b : bucket) : bool :=
    bmem b (e_always E) || (reset && bmem b (e_if_reset E)).

  Definition empty_bucket (E : empty_table) (reset : bool) (d : det) (b : bucket) : det :=
    if emptied E reset b then run_cprog (e_prog E b) d else d.

  (* Detector.empty(reset) *)
  Definition det_empty (E : empty_table) (reset : bool) (d : det) : det :=
    fold_left (empty_bucket E reset) all_buckets d.

  (* run_pipeline extracts the result of a step from the containers after the last model; reading
     Charge.array with particles in the dataframe stores the array derived from them into _array (the array
     is a view of the dataframe's content: the same abstract content) *)
  Definition det_extract (E : empty_table) (d : det) : det :=
    if e_read_stores E
    then match cframe d with Some f => setp PChargeArr (Some f) d | None => d end
    else d.

  (* what a probe placed first / last in the step sees *)
  Record observation := { o_clock : clock; o_begin : det; o_end : det }.

  (* the models of one step: an arbitrary state transformer that may depend on the clock *)
  Definition program := clock -> det -> det.

  (* the loop of run_pipeline over enumerate(zip(times, steps)) *)
  Fixpoint run_loop (E : empty_table) (prog : program) (nd : bool) (start : tv) (n : Z) (i : Z)
           (tss : list (tv * tv)) (d : det) : list observation :=
    match tss with
    | [] => []
    | (t, st) :: rest =>
        let ck := {| c_time := t; c_step := st; c_abs := tadd start t; c_count := i;
                     c_first := Z.eqb i 0%Z; c_last := Z.eqb i (n - 1)%Z |} in
        let d1 := det_empty E (loop_reset (e_loop_reset E) nd) d in   (* detector.empty(is_destructive_readout) *)
        let d2 := prog ck d1 in                        (* processor.run_pipeline() *)
        {| o_clock := ck; o_begin := d1; o_end := d2 |}
          :: run_loop E prog nd start n (i + 1)%Z rest (det_extract E d2)      (* _extract_datatree_2d *)
    end.

  (* `detector.empty()` between set_readout and the loop *)
  Definition det_init (E : empty_table) (d0 : det) : det := if e_init_reset E then det_empty E true d0 else d0.

  Inductive outcome :=
  | Rejected (stage : Z)                (* 0 constructor, 1 setter / replace, 2 set_readout at run start;
                                           raised before any model executed *)
  | Ran (obs : list observation).

  (* run_pipeline(processor, readout): set_readout (= ReadoutProperties.__init__), detector.empty(),
     then the loop.  [d0] is whatever the detector held before. *)
  Definition run_readout (G : guard_table) (E : empty_table) (ro : readout) (prog : program) (d0 : det)
    : outcome :=
    match r_times ro with
    | R1 ts =>
        if guards_pass (g_rp G) (r_start ro) (R1 ts)
        then let sts := steps (r_start ro) ts in
             Ran (run_loop E prog (r_nd ro) (r_start ro) (Z.of_nat (length sts)) 0%Z (combine ts sts)
                           (det_init E d0))
        else Rejected 2
    | R2 => Rejected 2      (* ndim guard, or np.concatenate in calculate_steps *)
    end.

  (* a whole scenario: construct, apply the caller's operations, run *)
  Definition scenario (G : guard_table) (E : empty_table) (f : form) (r : raw) (s : tv) (nd : bool)
             (ops : list op) (prog : program) (d0 : det) : outcome :=
    match ctor G f r s nd with
    | None => Rejected 0
    | Some ro =>
        match apply_ops G ro ops with
        | None => Rejected 1
        | Some ro' => run_readout G E ro' prog d0
        end
    end.

  (* ---------------------------------------------------------------------------------------------- *)
  (* the detector as an OBJECT that lives across runs: buckets + the ReadoutProperties object           *)

  Record dstate := { ds_det : det; ds_rp : option rp_state }.

  (* the loop of run_pipeline as coded: over zip(readout_properties.times, readout_properties.steps),
     storing time / time_step / pipeline_count INTO the object; the models read the clock FROM the object,
     and empty(reset) is driven by the object's non_destructive flag *)
  Fixpoint obj_loop (E : empty_table) (prog : program) (i : Z) (tss : list (tv * tv)) (p : rp_state) (d : det)
    : list observation * (det * rp_state) :=
    match tss with
    | [] => ([], (d, p))
    | (t, st) :: rest =>
        let p1 := rp_tick p t st i in
        let d1 := det_empty E (loop_reset (e_loop_reset E) (rp_nd p1)) d in
        let d2 := prog (rp_clock p1) d1 in
        let (os, fin) := obj_loop E prog (i + 1)%Z rest p1 (det_extract E d2) in
        ({| o_clock := rp_clock p1; o_begin := d1; o_end := d2 |} :: os, fin)
    end.

  (* run_pipeline on a detector in state [st]: set_readout (may or may not replace the object), empty(),
     loop.  Returns the outcome and the state the detector is left in. *)
  Definition run_readout_st (G : guard_table) (E : empty_table) (SR : sr_policy) (ro : readout) (prog : program)
             (st : dstate) : outcome * dstate :=
    match set_readout G SR (ds_rp st) ro with
    | None => (Rejected 2, st)
    | Some p =>
        let (os, fin) := obj_loop E prog 0%Z (combine (rp_times p) (rp_steps p)) p
                                  (det_init E (ds_det st)) in
        (Ran os, {| ds_det := fst fin; ds_rp := Some (snd fin) |})
    end.

  Definition scenario_st (G : guard_table) (E : empty_table) (SR : sr_policy) (f : form) (r : raw) (s : tv)
             (nd : bool) (ops : list op) (prog : program) (st : dstate) : outcome * dstate :=
    match ctor G f r s nd with
    | None => (Rejected 0, st)
    | Some ro =>
        match apply_ops G ro ops with
        | None => (Rejected 1, st)
        | Some ro' => run_readout_st G E SR ro' prog st
        end
    end.

  (* a session: several runs on ONE detector object.  Between two runs the caller may do anything to the
     detector through its public attributes ([rs_tamper]: assign readout_properties.start_time / time /
     time_step / pipeline_count, fill buckets, ...); each run has its own Readout (any construction
     history, possibly the same object as before with further setter calls) and its own models. *)
  Record run_spec := { rs_tamper : dstate -> dstate; rs_form : form; rs_raw : raw; rs_start : tv; rs_nd : bool;
                       rs_ops : list op; rs_prog : program }.

  Fixpoint session (G : guard_table) (E : empty_table) (SR : sr_policy) (runs : list run_spec) (st : dstate)
    : list outcome :=
    match runs with
    | [] => []
    | r :: rest =>
        let (o, st') := scenario_st G E SR (rs_form r) (rs_raw r) (rs_start r) (rs_nd r) (rs_ops r) (rs_prog r)
                                    (rs_tamper r st) in
        o :: session G E SR rest st'
    end.

  Definition blank : det :=
    {| scene := None; photon := None; charge := None; cframe := None; pixel := None; signal := None;
       image := None |}.

  (* ---------------------------------------------------------------------------------------------- *)
  (* closed forms = the right-hand side of the theorems                                              *)

  Definition spec_clock (start : tv) (ts : list tv) (i : nat) : clock :=
    let t := nth i ts TNaN in
    {| c_time := t;
       c_step := tsub t (match i with O => start | S j => nth j ts TNaN end);
       c_abs := tadd start t;
       c_count := Z.of_nat i;
       c_first := Nat.eqb i 0;
       c_last := Nat.eqb (S i) (length ts) |}.

  (* bucket state a step must start from: everything empty; pixel zero in destructive mode and at step
     0, otherwise what the previous step left *)
  Definition spec_begin (nd : bool) (prev_end : option det) : det :=
    {| scene := None; photon := None; charge := None; cframe := None;
       pixel := match prev_end with
                | Some p => if nd then pixel p else Some zero
                | None => Some zero
                end;
       signal := None; image := None |}.
End Lifecycle.

Arguments scene {A}. Arguments photon {A}. Arguments charge {A}. Arguments cframe {A}.
Arguments pixel {A}. Arguments signal {A}. Arguments image {A}.
Arguments getp {A}. Arguments setp {A}.
Arguments o_clock {A}. Arguments o_begin {A}. Arguments o_end {A}.
Arguments Rejected {A}. Arguments Ran {A}.
Arguments ds_det {A}. Arguments ds_rp {A}.
Arguments rs_tamper {A}. Arguments rs_form {A}. Arguments rs_raw {A}. Arguments rs_start {A}.
Arguments rs_nd {A}. Arguments rs_ops {A}. Arguments rs_prog {A}.

(* completeness conditions on the regenerated tables (checked by vm_compute in Properties/C02.v) *)
(* ReadoutProperties.__init__ has the three elementwise guards, the start guard in either form: enough to
   refuse every invalid NaN-FREE schedule *)
Definition rp_complete (G : guard_table) : bool :=
  gmem GFirstNonZero (g_rp G) && (gmem GStartBelowFirst (g_rp G) || gmem GStartLtFirst (g_rp G))
  && gmem GIncreasing (g_rp G).
(* ... with the start guard in the positive form: enough to refuse EVERY invalid schedule, NaN included *)
Definition rp_complete_nan (G : guard_table) : bool :=
  gmem GFirstNonZero (g_rp G) && gmem GStartLtFirst (g_rp G) && gmem GIncreasing (g_rp G).

(* ---- does <Container>.empty() re-initialise every piece the container holds, whatever it holds? ----
   The tests of a container program only ask whether a piece holds something, so the program can be run on
   the SHAPE of a state: per piece, "held nothing when empty() was called" (SNone), "held something" (SSome),
   "re-initialised by the program" (SReset).  [cprog_ok] runs it on all 2^7 initial shapes and asks that every
   piece of the container ends re-initialised -- or, for a piece whose empty value is None, still empty -- and
   that no other piece was touched.  Proofs/ExposureEmpty.v: [cprog_ok] decides the behaviour on every state. *)
Inductive sym := SNone | SSome | SReset.
Record sdet := { s_scene : sym; s_photon : sym; s_carr : sym; s_cframe : sym; s_pixel : sym; s_signal : sym;
                 s_image : sym }.
Definition sget (p : piece) (s : sdet) : sym :=
  match p with PScene => s_scene s | PPhoton => s_photon s | PChargeArr => s_carr s | PChargeFrame => s_cframe s
          | PPixel => s_pixel s | PSignal => s_signal s | PImage => s_image s end.
Definition sset (p : piece) (v : sym) (s : sdet) : sdet :=
  match p with
  | PScene => {| s_scene := v; s_photon := s_photon s; s_carr := s_carr s; s_cframe := s_cframe s;
                 s_pixel := s_pixel s; s_signal := s_signal s; s_image := s_image s |}
  | PPhoton => {| s_scene := s_scene s; s_photon := v; s_carr := s_carr s; s_cframe := s_cframe s;
                  s_pixel := s_pixel s; s_signal := s_signal s; s_image := s_image s |}
  | PChargeArr => {| s_scene := s_scene s; s_photon := s_photon s; s_carr := v; s_cframe := s_cframe s;
                     s_pixel := s_pixel s; s_signal := s_signal s; s_image := s_image s |}
  | PChargeFrame => {| s_scene := s_scene s; s_photon := s_photon s; s_carr := s_carr s; s_cframe := v;
                       s_pixel := s_pixel s; s_signal := s_signal s; s_image := s_image s |}
  | PPixel => {| s_scene := s_scene s; s_photon := s_photon s; s_carr := s_carr s; s_cframe := s_cframe s;
                 s_pixel := v; s_signal := s_signal s; s_image := s_image s |}
  | PSignal => {| s_scene := s_scene s; s_photon := s_photon s; s_carr := s_carr s; s_cframe := s_cframe s;
                  s_pixel := s_pixel s; s_signal := v; s_image := s_image s |}
  | PImage => {| s_scene := s_scene s; s_photon := s_photon s; s_carr := s_carr s; s_cframe := s_cframe s;
                 s_pixel := s_pixel s; s_signal := s_signal s; s_image := v |}
  end.
(* a re-initialised pixel array holds zeros (is not None); every other re-initialised piece holds nothing *)
Definition sym_holds (p : piece) (v : sym) : bool :=
  match v with SNone => false | SSome => true | SReset => match p with PPixel => true | _ => false end end.
Definition scond (c : ccond) (s : sdet) : bool :=
  match c with CTrue => true | CHolds p => sym_holds p (sget p s) | CHoldsNot p => negb (sym_holds p (sget p s)) end.
Definition sreset_pieces (ps : list piece) (s : sdet) : sdet := fold_left (fun s p => sset p SReset s) ps s.
Fixpoint srun_chain (ch : chain) (s : sdet) : sdet :=
  match ch with
  | [] => s
  | (c, ps) :: rest => if scond c s then sreset_pieces ps s else srun_chain rest s
  end.
Definition srun (pr : cprog) (s : sdet) : sdet := fold_left (fun s ch => srun_chain ch s) pr s.

Definition sym_eqb (a b : sym) : bool :=
  match a, b with SNone, SNone | SSome, SSome | SReset, SReset => true | _, _ => false end.
Definition final_ok (b : bucket) (s0 s : sdet) : bool :=
  forallb (fun p => if bucket_eqb (owner p) b
                    then match sget p s with
                         | SReset => true
                         | SNone => match p with PPixel => false | _ => true end
                         | SSome => false
                         end
                    else sym_eqb (sget p s) (sget p s0)) all_pieces.
Definition two := [SNone; SSome].
Definition cprog_ok (b : bucket) (pr : cprog) : bool :=
  forallb (fun a1 => forallb (fun a2 => forallb (fun a3 => forallb (fun a4 => forallb (fun a5 =>
  forallb (fun a6 => forallb (fun a7 =>
    let s0 := {| s_scene := a1; s_photon := a2; s_carr := a3; s_cframe := a4; s_pixel := a5; s_signal := a6;
                 s_image := a7 |} in
    final_ok b s0 (srun pr s0)) two) two) two) two) two) two) two.

(* Detector.empty(reset) empties scene / photon / charge / signal / image always and pixel exactly `if reset`,
   every container's empty() re-initialises all of the container, unconditionally in effect, and the run loop
   (and its deprecated copy) resets the detector once before the first step and passes `is destructive` as the
   per-step reset flag *)
Definition empty_table_ok (E : empty_table) : bool :=
  forallb (fun b => bmem b (e_always E)) [Scene; Photon; Charge; Signal; Image]
  && negb (bmem Pixel (e_always E)) && bmem Pixel (e_if_reset E)
  && forallb (fun b => cprog_ok b (e_prog E b)) all_buckets
  && e_init_reset E && reset_policy_eqb (e_loop_reset E) LIfDestructive && e_old_loop_same E.

(* ------------------------------------------------------------------------------------------------ *)
(* 6. executable instance used by the correspondence leg: constant frames, A := Z                     *)

(* WAdd Charge = Charge.add_charge_array;  WPart = Charge.add_charge / add_charge_dataframe (particles, here
   the same number in every pixel) *)
Inductive wop := WSet (b : bucket) (v : Z) | WAdd (b : bucket) (v : Z) | WPart (v : Z).

Definition main_piece (b : bucket) : piece :=
  match b with Scene => PScene | Photon => PPhoton | Charge => PChargeArr | Pixel => PPixel | Signal => PSignal
          | Image => PImage end.
Definition addz (o : option Z) (v : Z) : option Z := Some (match o with Some x => x + v | None => v end)%Z.

Definition apply_wop (d : det Z) (w : wop) : det Z :=
  match w with
  | WSet b v => setp (main_piece b) (Some v) d
  | WAdd Charge v =>
      (* onto the 2-D array while there is no particle; otherwise converted into particles (the array stays) *)
      match cframe d with
      | None => setp PChargeArr (addz (charge d) v) d
      | Some f => setp PChargeFrame (Some (f + v)%Z) d
      end
  | WAdd b v => setp (main_piece b) (addz (getp (main_piece b) d) v) d
  | WPart v =>
      (* the first particles take the content of the 2-D array along (the array itself stays as it is) *)
      match cframe d with
      | None => setp PChargeFrame (addz (charge d) v) d
      | Some f => setp PChargeFrame (Some (f + v)%Z) d
      end
  end.

(* the writer probes index their plan with detector.pipeline_count *)
Definition prog_of (plan : list (list wop)) : program Z :=
  fun ck d => fold_left apply_wop (nth (Z.to_nat (c_count ck)) plan []) d.

Definition oz_eqb (a b : option Z) : bool :=
  match a, b with Some x, Some y => Z.eqb x y | None, None => true | _, _ => false end.
Definition det_eqb (a b : det Z) : bool :=
  oz_eqb (scene a) (scene b) && oz_eqb (photon a) (photon b) && oz_eqb (charge a) (charge b)
  && oz_eqb (cframe a) (cframe b) && oz_eqb (pixel a) (pixel b) && oz_eqb (signal a) (signal b) && oz_eqb (image a) (image b).
Definition clock_eqb (a b : clock) : bool :=
  tv_eqb (c_time a) (c_time b) && tv_eqb (c_step a) (c_step b) && tv_eqb (c_abs a) (c_abs b)
  && Z.eqb (c_count a) (c_count b) && Bool.eqb (c_first a) (c_first b) && Bool.eqb (c_last a) (c_last b).
Definition obs_eqb (a b : observation Z) : bool :=
  clock_eqb (o_clock a) (o_clock b) && det_eqb (o_begin a) (o_begin b) && det_eqb (o_end a) (o_end b).
Fixpoint list_eqb {X} (e : X -> X -> bool) (a b : list X) : bool :=
  match a, b with
  | [], [] => true
  | x :: a', y :: b' => e x y && list_eqb e a' b'
  | _, _ => false
  end.

(* short constructors for the harness-written case files *)
Definition mkdet (sc ph ch cf px sg im : option Z) : det Z :=
  {| scene := sc; photon := ph; charge := ch; cframe := cf; pixel := px; signal := sg; image := im |}.
Definition mkobs (t st ab : tv) (cnt : Z) (f l : bool) (b e : det Z) : observation Z :=
  {| o_clock := {| c_time := t; c_step := st; c_abs := ab; c_count := cnt; c_first := f; c_last := l |};
     o_begin := b; o_end := e |}.

(* what the implementation did: raised at [stage] after [executed] model calls, or ran *)
Inductive ioutcome := IRejected (stage : Z) (executed : Z) | IRan (obs : list (observation Z)).

Record c02_case := {
  k_form : form; k_raw : raw; k_start : tv; k_nd : bool; k_ops : list op;
  k_d0 : det Z;                      (* bucket state found on the detector before the run *)
  k_rp0 : option rp_state;           (* public state of the detector's ReadoutProperties object before the run
                                        (None = no readout defined yet) *)
  k_plan : list (list wop);          (* what the writer probes do at each step *)
  k_obs : ioutcome;
  k_after : option (det Z * option rp_state)   (* state the detector object was found in right after the run
                                        (None: not compared, e.g. an Observation runs on copies) *)
}.

Definition mkrp (ts sts : list tv) (num : Z) (start : tv) (nd : bool) (t st : tv) (cnt : Z) : rp_state :=
  {| rp_times := ts; rp_steps := sts; rp_num := num; rp_start := start; rp_nd := nd;
     rp_time := t; rp_step := st; rp_count := cnt |}.

(* the run as the object-level model computes it, from the detector state (buckets AND ReadoutProperties
   object) the implementation was observed in just before the run *)
Definition model_of (G : guard_table) (E : empty_table) (SR : sr_policy) (c : c02_case) : outcome Z :=
  fst (scenario_st Z 0%Z G E SR (k_form c) (k_raw c) (k_start c) (k_nd c) (k_ops c) (prog_of (k_plan c))
                   {| ds_det := k_d0 c; ds_rp := k_rp0 c |}).

Definition rp_eqb (a b : rp_state) : bool :=
  list_eqb tv_eqb (rp_times a) (rp_times b) && list_eqb tv_eqb (rp_steps a) (rp_steps b)
  && Z.eqb (rp_num a) (rp_num b) && tv_eqb (rp_start a) (rp_start b) && Bool.eqb (rp_nd a) (rp_nd b)
  && tv_eqb (rp_time a) (rp_time b) && tv_eqb (rp_step a) (rp_step b) && Z.eqb (rp_count a) (rp_count b).
Definition orp_eqb (a b : option rp_state) : bool :=
  match a, b with Some x, Some y => rp_eqb x y | None, None => true | _, _ => false end.

(* the state the object-level model leaves the detector in (buckets and ReadoutProperties object) *)
Definition state_after (G : guard_table) (E : empty_table) (SR : sr_policy) (c : c02_case) : dstate Z :=
  snd (scenario_st Z 0%Z G E SR (k_form c) (k_raw c) (k_start c) (k_nd c) (k_ops c) (prog_of (k_plan c))
                   {| ds_det := k_d0 c; ds_rp := k_rp0 c |}).

Definition after_ok (st : dstate Z) (a : option (det Z * option rp_state)) : bool :=
  match a with
  | None => true
  | Some (d, rp) => det_eqb (ds_det st) d && orp_eqb (ds_rp st) rp
  end.

Definition case_mismatch (G : guard_table) (E : empty_table) (SR : sr_policy) (c : c02_case) : bool :=
  negb match model_of G E SR c, k_obs c with
       | Rejected s, IRejected s' n => Z.eqb s s' && Z.eqb n 0%Z
       | Ran os, IRan os' => list_eqb obs_eqb os os'
       | _, _ => false
       end.

(* informational only (what a run leaves behind is not part of the property; recorded in the evidence) *)
Definition case_after_differs (G : guard_table) (E : empty_table) (SR : sr_policy) (c : c02_case) : bool :=
  negb (after_ok (state_after G E SR c) (k_after c)).

(* the specification, evaluated on the implementation's observations alone *)
Fixpoint obs_ok (nd : bool) (start : tv) (ts : list tv) (i : nat) (prev : option (det Z))
         (os : list (observation Z)) : bool :=
  match os with
  | [] => Nat.eqb i (length ts)
  | o :: rest =>
      clock_eqb (o_clock o) (spec_clock start ts i)
      && det_eqb (o_begin o) (spec_begin Z 0%Z nd prev)
      && obs_ok nd start ts (S i) (Some (o_end o)) rest
  end.

Definition ro0 (c : c02_case) : readout := {| r_times := k_raw c; r_start := k_start c; r_nd := k_nd c |}.
Definition ro_valid_b (ro : readout) : bool := valid_b (r_times ro) (r_start ro).

Definition case_violates (c : c02_case) : bool :=
  let fin := intended (ro0 c) (k_ops c) in
  negb match k_obs c with
       | IRan os =>
           ro_valid_b fin
           && match r_times fin with R1 ts => obs_ok (r_nd fin) (r_start fin) ts 0 None os | R2 => false end
       | IRejected _ n =>
           (* nothing may have executed, and a caller who only ever installed valid schedules must not
              be refused *)
           Z.eqb n 0%Z && negb (forallb ro_valid_b (intended_all (ro0 c) (k_ops c)))
       end.

Fixpoint indices_where {X} (f : X -> bool) (l : list X) (i : Z) : list Z :=
  match l with
  | [] => []
  | x :: r => if f x then i :: indices_where f r (i + 1)%Z else indices_where f r (i + 1)%Z
  end.
Definition mismatches (G : guard_table) (E : empty_table) (SR : sr_policy) (cs : list c02_case) : list Z :=
  indices_where (case_mismatch G E SR) cs 0%Z.
Definition violations (cs : list c02_case) : list Z := indices_where case_violates cs 0%Z.
Definition after_differs (G : guard_table) (E : empty_table) (SR : sr_policy) (cs : list c02_case) : list Z :=
  indices_where (case_after_differs G E SR) cs 0%Z.

(* differential judgement used when the correspondence breaks: the same writes made (a) in step i of a run and
   (b) in the only step of a run on a fresh detector must leave the same content in every container that the
   step started empty -- all of them, except the pixel array of a non-destructive readout.  Each item: mode, the
   observed end of the step, the observed end of its control. *)
Definition ends_differ (nd : bool) (a b : det Z) : bool :=
  negb (oz_eqb (scene a) (scene b) && oz_eqb (photon a) (photon b) && oz_eqb (charge a) (charge b)
        && oz_eqb (cframe a) (cframe b) && (nd || oz_eqb (pixel a) (pixel b))
        && oz_eqb (signal a) (signal b) && oz_eqb (image a) (image b)).
Definition history_dependent (l : list (bool * (det Z * det Z))) : list Z :=
  indices_where (fun x => ends_differ (fst x) (fst (snd x)) (snd (snd x))) l 0%Z.
