(* C01 — executable model of how pyxel executes a detection pipeline.
   Model only (Definitions / Fixpoints); proofs are in Proofs/Pipeline*.v.

   Modelled code (pyxel/pipelines): DetectionPipeline.__init__ (ten optional keyword arguments,
   `ModelGroup(x) if x else None`: an empty list is stored as None), Processor.run_pipeline (for each
   group name of the order: skip None, else ModelGroup.run), ModelGroup.__iter__/run (each *enabled*
   model, in list order; `if debug:` only adds capture nodes), ModelFunction.__call__
   (func(detector, **arguments)), exposure.run_pipeline (steps 0..n-1, pipeline_count = step),
   configuration.to_pipeline (YAML mapping -> DetectionPipeline( ** dct); `null` -> None; an unknown
   key is a TypeError of the constructor call). *)
From Coq Require Import List String ZArith Bool Arith PeanoNat.
Import ListNotations.
Open Scope string_scope.
Open Scope list_scope.

(* ------------------------------------------------------------------------------------------ *)
(* groups *)

Inductive group :=
| SceneGeneration | PhotonCollection | Phasing | ChargeGeneration | ChargeCollection
| ChargeTransfer | ChargeMeasurement | SignalTransfer | ReadoutElectronics | DataProcessing.

Definition group_name (g : group) : string :=
  match g with
  | SceneGeneration => "scene_generation"
  | PhotonCollection => "photon_collection"
  | Phasing => "phasing"
  | ChargeGeneration => "charge_generation"
  | ChargeCollection => "charge_collection"
  | ChargeTransfer => "charge_transfer"
  | ChargeMeasurement => "charge_measurement"
  | SignalTransfer => "signal_transfer"
  | ReadoutElectronics => "readout_electronics"
  | DataProcessing => "data_processing"
  end.

(* an arbitrary injective code, used only to decide equality *)
Definition group_code (g : group) : nat :=
  match g with
  | SceneGeneration => 0 | PhotonCollection => 1 | Phasing => 2 | ChargeGeneration => 3
  | ChargeCollection => 4 | ChargeTransfer => 5 | ChargeMeasurement => 6 | SignalTransfer => 7
  | ReadoutElectronics => 8 | DataProcessing => 9
  end.

Definition group_eqb (a b : group) : bool := Nat.eqb (group_code a) (group_code b).

(* The ten groups as a SET (alphabetical on purpose: this list is never used as an execution order;
   it only says which keywords the constructor has). *)
Definition all_groups : list group :=
  [ChargeCollection; ChargeGeneration; ChargeMeasurement; ChargeTransfer; DataProcessing;
   Phasing; PhotonCollection; ReadoutElectronics; SceneGeneration; SignalTransfer].

Definition group_of_name (s : string) : option group :=
  find (fun g => String.eqb (group_name g) s) all_groups.

Fixpoint order_of_names (l : list string) : option (list group) :=
  match l with
  | [] => Some []
  | s :: r => match group_of_name s, order_of_names r with
              | Some g, Some gs => Some (g :: gs)
              | _, _ => None
              end
  end.

(* position of g in an order (List.length of the order when absent) *)
Fixpoint rank (order : list group) (g : group) : nat :=
  match order with
  | [] => 0
  | h :: t => if group_eqb h g then 0 else S (rank t g)
  end.

(* The physical order of the property text (used by the SPECIFICATION functions below; restated as a
   literal in Properties/C01.v and proved equal there).  The implementation's order is NOT this
   definition: it is Gen_C01.src_model_groups, regenerated from the source on every run. *)
Definition spec_order : list group :=
  [SceneGeneration; PhotonCollection; Phasing; ChargeGeneration; ChargeCollection; ChargeTransfer;
   ChargeMeasurement; SignalTransfer; ReadoutElectronics; DataProcessing].

(* ------------------------------------------------------------------------------------------ *)
(* argument values *)

(* VDict: a Python dict, as the list of its entries `VList [VStr key; value]` (the harness writes
   them key-sorted; a dict whose keys are not strings is outside the modelled domain) *)
Inductive pyval :=
| VInt (z : Z) | VBool (b : bool) | VStr (s : string) | VNone | VList (l : list pyval)
| VDict (entries : list pyval).

Fixpoint pyval_eqb (a b : pyval) {struct a} : bool :=
  match a, b with
  | VInt x, VInt y => Z.eqb x y
  | VBool x, VBool y => Bool.eqb x y
  | VStr x, VStr y => String.eqb x y
  | VNone, VNone => true
  | VList xs, VList ys =>
      (fix go (xs ys : list pyval) {struct xs} : bool :=
         match xs, ys with
         | [], [] => true
         | x :: xs', y :: ys' => pyval_eqb x y && go xs' ys'
         | _, _ => false
         end) xs ys
  | VDict xs, VDict ys =>
      (fix go (xs ys : list pyval) {struct xs} : bool :=
         match xs, ys with
         | [], [] => true
         | x :: xs', y :: ys' => pyval_eqb x y && go xs' ys'
         | _, _ => false
         end) xs ys
  | _, _ => false
  end.

Definition kwargs := list (string * pyval).   (* a dict, as an association list (harness: key-sorted) *)

Fixpoint kwargs_eqb (a b : kwargs) : bool :=
  match a, b with
  | [], [] => true
  | (k, v) :: a', (k', v') :: b' => String.eqb k k' && pyval_eqb v v' && kwargs_eqb a' b'
  | _, _ => false
  end.

(* ------------------------------------------------------------------------------------------ *)
(* models, pipelines *)

(* grows: the model function changes its container arguments IN PLACE each time it is called (the
   probe verif_probes_c01.grow: every list-valued argument, and every list directly inside a
   dict-valued argument, gets its own length appended).  ModelFunction.__call__ hands over the very
   objects stored in the configuration (func(detector, **self.arguments)), so such a model changes
   what the same ModelFunction object passes at its next call. *)
Record mfun := { name : string; enabled : bool; grows : bool; args : kwargs }.

Definition grow_list (l : list pyval) : list pyval := l ++ [VInt (Z.of_nat (List.length l))].

Definition grow_inner (v : pyval) : pyval :=
  match v with VList l => VList (grow_list l) | _ => v end.

Definition grow_entry (e : pyval) : pyval :=
  match e with VList [k; v] => VList [k; grow_inner v] | _ => e end.

Definition grow_val (v : pyval) : pyval :=
  match v with
  | VList l => VList (grow_list l)
  | VDict es => VDict (map grow_entry es)
  | _ => v
  end.

Definition grow_kwargs (a : kwargs) : kwargs := map (fun kv => (fst kv, grow_val (snd kv))) a.

(* what position m receives at readout step `step` of a run that started with configuration m: it
   has been called once per earlier step of this run *)
Definition recv (step : nat) (m : mfun) : kwargs :=
  if grows m then Nat.iter step grow_kwargs (args m) else args m.

Record pipeline := {
  p_scene_generation : option (list mfun);
  p_photon_collection : option (list mfun);
  p_phasing : option (list mfun);
  p_charge_generation : option (list mfun);
  p_charge_collection : option (list mfun);
  p_charge_transfer : option (list mfun);
  p_charge_measurement : option (list mfun);
  p_signal_transfer : option (list mfun);
  p_readout_electronics : option (list mfun);
  p_data_processing : option (list mfun)
}.

(* the property `pipeline.<group>` *)
Definition get (p : pipeline) (g : group) : option (list mfun) :=
  match g with
  | SceneGeneration => p_scene_generation p
  | PhotonCollection => p_photon_collection p
  | Phasing => p_phasing p
  | ChargeGeneration => p_charge_generation p
  | ChargeCollection => p_charge_collection p
  | ChargeTransfer => p_charge_transfer p
  | ChargeMeasurement => p_charge_measurement p
  | SignalTransfer => p_signal_transfer p
  | ReadoutElectronics => p_readout_electronics p
  | DataProcessing => p_data_processing p
  end.

(* `ModelGroup(x, name=...) if x else None` : None and the empty list both give None *)
Definition norm (v : option (list mfun)) : option (list mfun) :=
  match v with
  | Some [] => None
  | _ => v
  end.

(* DetectionPipeline(scene_generation=f SceneGeneration, ...) : the Python constructor *)
Definition mk_pipeline (f : group -> option (list mfun)) : pipeline :=
  {| p_scene_generation := norm (f SceneGeneration);
     p_photon_collection := norm (f PhotonCollection);
     p_phasing := norm (f Phasing);
     p_charge_generation := norm (f ChargeGeneration);
     p_charge_collection := norm (f ChargeCollection);
     p_charge_transfer := norm (f ChargeTransfer);
     p_charge_measurement := norm (f ChargeMeasurement);
     p_signal_transfer := norm (f SignalTransfer);
     p_readout_electronics := norm (f ReadoutElectronics);
     p_data_processing := norm (f DataProcessing) |}.

(* ------------------------------------------------------------------------------------------ *)
(* YAML: the `pipeline:` mapping as a key/value list in document order; `null` is None *)

Inductive res (A : Type) := Ok (a : A) | Raise (cls : string).
Arguments Ok {A} a.
Arguments Raise {A} cls.

Definition doc := list (string * option (list mfun)).

Fixpoint lookup (k : string) (d : doc) : option (option (list mfun)) :=
  match d with
  | [] => None
  | (k', v) :: r => if String.eqb k' k then Some v else lookup k r
  end.

(* the keyword argument that the call DetectionPipeline( ** dct) binds to parameter g *)
Definition kw_of_doc (d : doc) (g : group) : option (list mfun) :=
  match lookup (group_name g) d with
  | Some v => v
  | None => None
  end.

Definition known_key (k : string) : bool :=
  match group_of_name k with Some _ => true | None => false end.

Definition from_yaml (d : doc) : res pipeline :=
  if forallb known_key (map fst d) then Ok (mk_pipeline (kw_of_doc d))
  else Raise "TypeError".

(* a document that lists the groups `keys` (in that order) of the constructor call `f` *)
Definition doc_of (f : group -> option (list mfun)) (keys : list group) : doc :=
  map (fun g => (group_name g, f g)) keys.

(* ------------------------------------------------------------------------------------------ *)
(* execution *)

Record call := {
  c_step : nat;      (* detector.pipeline_count when the model ran *)
  c_group : group;   (* group whose ModelGroup.run made the call *)
  c_pos : nat;       (* index of the model in the list the user wrote for that group *)
  c_name : string;   (* detector.current_running_model_name *)
  c_args : kwargs    (* the keyword arguments received by the function *)
}.

Definition mk_call (step : nat) (g : group) (k : nat) (m : mfun) : call :=
  {| c_step := step; c_group := g; c_pos := k; c_name := name m; c_args := recv step m |}.

Definition capture := (nat * string * string)%type.   (* /intermediate/time_idx_<step>/<group>/<model> *)

(* ModelGroup.run: `for model in self` (enabled only): call it; `if debug:` capture *)
Fixpoint run_models (debug : bool) (step : nat) (g : group) (k : nat) (ms : list mfun)
  : list call * list capture :=
  match ms with
  | [] => ([], [])
  | m :: rest =>
      let r := run_models debug step g (S k) rest in
      if enabled m
      then (mk_call step g k m :: fst r,
            (if debug then [(step, group_name g, name m)] else []) ++ snd r)
      else r
  end.

(* Processor.run_pipeline *)
Fixpoint run_groups (debug : bool) (order : list group) (p : pipeline) (step : nat)
  : list call * list capture :=
  match order with
  | [] => ([], [])
  | g :: rest =>
      let r2 := run_groups debug rest p step in
      match get p g with
      | None => r2
      | Some ms => let r1 := run_models debug step g 0 ms in (fst r1 ++ fst r2, snd r1 ++ snd r2)
      end
  end.

Fixpoint run_steps (debug : bool) (order : list group) (p : pipeline) (steps : list nat)
  : list call * list capture :=
  match steps with
  | [] => ([], [])
  | s :: rest =>
      let r1 := run_groups debug order p s in
      let r2 := run_steps debug order p rest in
      (fst r1 ++ fst r2, snd r1 ++ snd r2)
  end.

(* exposure.run_pipeline with n readout times *)
Definition run_readouts (debug : bool) (order : list group) (p : pipeline) (n : nat)
  : list call * list capture :=
  run_steps debug order p (seq 0 n).

(* the trace alone, written without the debug flag (Proofs/Pipeline.v: = fst (run_readouts d ...)) *)
Fixpoint tr_models (step : nat) (g : group) (k : nat) (ms : list mfun) : list call :=
  match ms with
  | [] => []
  | m :: rest => (if enabled m then [mk_call step g k m] else []) ++ tr_models step g (S k) rest
  end.

Definition tr_group (p : pipeline) (step : nat) (g : group) : list call :=
  match get p g with
  | None => []
  | Some ms => tr_models step g 0 ms
  end.

Definition tr_groups (order : list group) (p : pipeline) (step : nat) : list call :=
  flat_map (tr_group p step) order.

Definition tr_readouts (order : list group) (p : pipeline) (n : nat) : list call :=
  flat_map (tr_groups order p) (seq 0 n).

(* ------------------------------------------------------------------------------------------ *)
(* specification vocabulary (right-hand sides of the theorems) *)

(* does position i of group g execute at step `step` in an n-step run ? *)
Definition executes (p : pipeline) (n step : nat) (g : group) (i : nat) : bool :=
  Nat.ltb step n &&
  match get p g with
  | None => false
  | Some ms => match nth_error ms i with Some m => enabled m | None => false end
  end.

Definition at_pos (step : nat) (g : group) (i : nat) (c : call) : bool :=
  Nat.eqb (c_step c) step && group_eqb (c_group c) g && Nat.eqb (c_pos c) i.

Definition count_pos (t : list call) (step : nat) (g : group) (i : nat) : nat :=
  List.length (filter (at_pos step g i) t).

(* strict lexicographic order on (step, rank of the group in `order`, position in the user's list) *)
Definition key_lt (order : list group) (a b : call) : Prop :=
  c_step a < c_step b \/
  (c_step a = c_step b /\
   (rank order (c_group a) < rank order (c_group b) \/
    (rank order (c_group a) = rank order (c_group b) /\ c_pos a < c_pos b))).

(* ------------------------------------------------------------------------------------------ *)
(* writing into a configuration *)

(* pipeline with group g replaced (the other nine fields untouched) *)
Definition set_group (p : pipeline) (g : group) (v : option (list mfun)) : pipeline :=
  match g with
  | SceneGeneration =>
      {| p_scene_generation := v; p_photon_collection := p_photon_collection p; p_phasing := p_phasing p;
         p_charge_generation := p_charge_generation p; p_charge_collection := p_charge_collection p;
         p_charge_transfer := p_charge_transfer p; p_charge_measurement := p_charge_measurement p;
         p_signal_transfer := p_signal_transfer p; p_readout_electronics := p_readout_electronics p;
         p_data_processing := p_data_processing p |}
  | PhotonCollection =>
      {| p_scene_generation := p_scene_generation p; p_photon_collection := v; p_phasing := p_phasing p;
         p_charge_generation := p_charge_generation p; p_charge_collection := p_charge_collection p;
         p_charge_transfer := p_charge_transfer p; p_charge_measurement := p_charge_measurement p;
         p_signal_transfer := p_signal_transfer p; p_readout_electronics := p_readout_electronics p;
         p_data_processing := p_data_processing p |}
  | Phasing =>
      {| p_scene_generation := p_scene_generation p; p_photon_collection := p_photon_collection p; p_phasing := v;
         p_charge_generation := p_charge_generation p; p_charge_collection := p_charge_collection p;
         p_charge_transfer := p_charge_transfer p; p_charge_measurement := p_charge_measurement p;
         p_signal_transfer := p_signal_transfer p; p_readout_electronics := p_readout_electronics p;
         p_data_processing := p_data_processing p |}
  | ChargeGeneration =>
      {| p_scene_generation := p_scene_generation p; p_photon_collection := p_photon_collection p; p_phasing := p_phasing p;
         p_charge_generation := v; p_charge_collection := p_charge_collection p;
         p_charge_transfer := p_charge_transfer p; p_charge_measurement := p_charge_measurement p;
         p_signal_transfer := p_signal_transfer p; p_readout_electronics := p_readout_electronics p;
         p_data_processing := p_data_processing p |}
  | ChargeCollection =>
      {| p_scene_generation := p_scene_generation p; p_photon_collection := p_photon_collection p; p_phasing := p_phasing p;
         p_charge_generation := p_charge_generation p; p_charge_collection := v;
         p_charge_transfer := p_charge_transfer p; p_charge_measurement := p_charge_measurement p;
         p_signal_transfer := p_signal_transfer p; p_readout_electronics := p_readout_electronics p;
         p_data_processing := p_data_processing p |}
  | ChargeTransfer =>
      {| p_scene_generation := p_scene_generation p; p_photon_collection := p_photon_collection p; p_phasing := p_phasing p;
         p_charge_generation := p_charge_generation p; p_charge_collection := p_charge_collection p;
         p_charge_transfer := v; p_charge_measurement := p_charge_measurement p;
         p_signal_transfer := p_signal_transfer p; p_readout_electronics := p_readout_electronics p;
         p_data_processing := p_data_processing p |}
  | ChargeMeasurement =>
      {| p_scene_generation := p_scene_generation p; p_photon_collection := p_photon_collection p; p_phasing := p_phasing p;
         p_charge_generation := p_charge_generation p; p_charge_collection := p_charge_collection p;
         p_charge_transfer := p_charge_transfer p; p_charge_measurement := v;
         p_signal_transfer := p_signal_transfer p; p_readout_electronics := p_readout_electronics p;
         p_data_processing := p_data_processing p |}
  | SignalTransfer =>
      {| p_scene_generation := p_scene_generation p; p_photon_collection := p_photon_collection p; p_phasing := p_phasing p;
         p_charge_generation := p_charge_generation p; p_charge_collection := p_charge_collection p;
         p_charge_transfer := p_charge_transfer p; p_charge_measurement := p_charge_measurement p;
         p_signal_transfer := v; p_readout_electronics := p_readout_electronics p;
         p_data_processing := p_data_processing p |}
  | ReadoutElectronics =>
      {| p_scene_generation := p_scene_generation p; p_photon_collection := p_photon_collection p; p_phasing := p_phasing p;
         p_charge_generation := p_charge_generation p; p_charge_collection := p_charge_collection p;
         p_charge_transfer := p_charge_transfer p; p_charge_measurement := p_charge_measurement p;
         p_signal_transfer := p_signal_transfer p; p_readout_electronics := v;
         p_data_processing := p_data_processing p |}
  | DataProcessing =>
      {| p_scene_generation := p_scene_generation p; p_photon_collection := p_photon_collection p; p_phasing := p_phasing p;
         p_charge_generation := p_charge_generation p; p_charge_collection := p_charge_collection p;
         p_charge_transfer := p_charge_transfer p; p_charge_measurement := p_charge_measurement p;
         p_signal_transfer := p_signal_transfer p; p_readout_electronics := p_readout_electronics p;
         p_data_processing := v |}
  end.

(* the same function applied to the model list of every present group *)
Definition map_groups (f : list mfun -> list mfun) (p : pipeline) : pipeline :=
  {| p_scene_generation := option_map f (p_scene_generation p);
     p_photon_collection := option_map f (p_photon_collection p);
     p_phasing := option_map f (p_phasing p);
     p_charge_generation := option_map f (p_charge_generation p);
     p_charge_collection := option_map f (p_charge_collection p);
     p_charge_transfer := option_map f (p_charge_transfer p);
     p_charge_measurement := option_map f (p_charge_measurement p);
     p_signal_transfer := option_map f (p_signal_transfer p);
     p_readout_electronics := option_map f (p_readout_electronics p);
     p_data_processing := option_map f (p_data_processing p) |}.

Definition set_args (m : mfun) (a : kwargs) : mfun :=
  {| name := name m; enabled := enabled m; grows := grows m; args := a |}.

(* the configuration object after it was itself executed for n readout steps (exposure mode runs
   the user's own pipeline object): every enabled growing model was called n times *)
Definition age_mfun (n : nat) (m : mfun) : mfun :=
  if enabled m && grows m then set_args m (Nat.iter n grow_kwargs (args m)) else m.

Definition age (n : nat) (p : pipeline) : pipeline := map_groups (map (age_mfun n)) p.

(* a model that cannot change its configuration (specification alternative: an implementation may
   hand a model its own copy of the arguments) *)
Definition freeze_mfun (m : mfun) : mfun :=
  {| name := name m; enabled := enabled m; grows := false; args := args m |}.

Definition freeze (p : pipeline) : pipeline := map_groups (map freeze_mfun) p.

(* Processor.set "pipeline.<group>.<model>.arguments.<key>[.<inner> ...]": first model of that name;
   <key> must be an argument; inner elements walk through dict-valued arguments by key and through
   lists by index; the last element names an existing dict entry (or is <key> itself).  A path that
   does not exist is refused by the code (AttributeError / KeyError); here it changes nothing (the
   harness generates existing paths only). *)
Inductive pelem := PKey (k : string) | PIdx (i : nat).

Record override := { o_group : group; o_model : string; o_key : string; o_path : list pelem; o_value : pyval }.

Fixpoint upd_nth {A} (i : nat) (f : A -> A) (l : list A) : list A :=
  match l, i with
  | [], _ => []
  | x :: r, O => f x :: r
  | x :: r, S j => x :: upd_nth j f r
  end.

Fixpoint upd_entry (k : string) (f : pyval -> pyval) (es : list pyval) : list pyval :=
  match es with
  | [] => []
  | VList [VStr k'; x] :: r =>
      if String.eqb k' k then VList [VStr k'; f x] :: r else VList [VStr k'; x] :: upd_entry k f r
  | e :: r => e :: upd_entry k f r
  end.

Fixpoint set_in (path : list pelem) (v x : pyval) {struct path} : pyval :=
  match path with
  | [] => v
  | PKey k :: rest => match x with VDict es => VDict (upd_entry k (set_in rest v) es) | _ => x end
  | PIdx i :: rest => match x with VList l => VList (upd_nth i (set_in rest v) l) | _ => x end
  end.

Fixpoint upd_kw (k : string) (f : pyval -> pyval) (a : kwargs) : kwargs :=
  match a with
  | [] => []
  | (k', x) :: r => if String.eqb k' k then (k', f x) :: r else (k', x) :: upd_kw k f r
  end.

Fixpoint upd_first (mn : string) (f : kwargs -> kwargs) (ms : list mfun) : list mfun :=
  match ms with
  | [] => []
  | m :: r => if String.eqb (name m) mn then set_args m (f (args m)) :: r else m :: upd_first mn f r
  end.

Definition apply_override (p : pipeline) (o : override) : pipeline :=
  set_group p (o_group o)
    (option_map (upd_first (o_model o) (upd_kw (o_key o) (set_in (o_path o) (o_value o)))) (get p (o_group o))).

Definition apply_overrides (p : pipeline) (os : list override) : pipeline :=
  fold_left apply_override os p.

(* ------------------------------------------------------------------------------------------ *)
(* correspondence: what the probes observe *)

Definition obs_call := (nat * string * kwargs)%type.      (* step, model name, kwargs (key-sorted) *)

Definition obs_of (c : call) : obs_call := (c_step c, c_name c, c_args c).

Definition obs_eqb (a b : obs_call) : bool :=
  let '(s, n, k) := a in let '(s', n', k') := b in
  Nat.eqb s s' && String.eqb n n' && kwargs_eqb k k'.

Fixpoint list_eqb {A} (eqb : A -> A -> bool) (a b : list A) : bool :=
  match a, b with
  | [], [] => true
  | x :: a', y :: b' => eqb x y && list_eqb eqb a' b'
  | _, _ => false
  end.

Definition capture_eqb (a b : capture) : bool :=
  let '(s, g, n) := a in let '(s', g', n') := b in
  Nat.eqb s s' && String.eqb g g' && String.eqb n n'.

(* detector.intermediate: a tree time_idx_<step> / <group> / <model>, children in insertion order, a
   node created only if it does not exist yet.  It lives on the DETECTOR and is never cleared: a later
   debug run on the same detector adds to what earlier debug runs left. *)
Definition ntree := list (nat * list (string * list string)).

Definition ins_name (n : string) (l : list string) : list string :=
  if existsb (String.eqb n) l then l else l ++ [n].

Fixpoint ins_group (g n : string) (l : list (string * list string)) : list (string * list string) :=
  match l with
  | [] => [(g, [n])]
  | (g', ns) :: r => if String.eqb g' g then (g', ins_name n ns) :: r else (g', ns) :: ins_group g n r
  end.

Fixpoint ins_step (s : nat) (g n : string) (t : ntree) : ntree :=
  match t with
  | [] => [(s, [(g, [n])])]
  | (s', gs) :: r => if Nat.eqb s' s then (s', ins_group g n gs) :: r else (s', gs) :: ins_step s g n r
  end.

Definition ins_capture (t : ntree) (c : capture) : ntree :=
  let '(s, g, n) := c in ins_step s g n t.

Definition ins_captures (t : ntree) (cs : list capture) : ntree := fold_left ins_capture cs t.

Definition flatten_tree (t : ntree) : list capture :=
  flat_map (fun sg => flat_map (fun gn => map (fun n => (fst sg, fst gn, n)) (snd gn)) (snd sg)) t.

Definition capture_in (c : capture) (l : list capture) : bool := existsb (capture_eqb c) l.

Inductive mode :=
| Exposure (debug : bool)                       (* one run, debug capture on/off *)
| Observation (runs : list (list override))     (* observation without dask: one run per entry *)
| Calibration                                   (* every fitness evaluation is one n-step run *)
| ObservationDask (runs : list (list override)). (* observation with dask (synchronous scheduler): the
                                                   runs are tasks, executed in the scheduler's order,
                                                   and dask may execute a run more than once *)

Inductive outcome :=
| Ran (trace : list obs_call) (nodes : option (list capture))   (* nodes: only with debug on *)
| Failed (cls : string).

Record c01_case := {
  k_doc : doc;            (* `pipeline:` mapping in the order of the (shuffled) YAML keys *)
  k_steps : nat;          (* number of readout times *)
  k_mode : mode;
  k_observed : outcome
}.

(* t is k >= 1 copies of u (k = 0 allowed only when u is empty: then t must be empty) *)
Fixpoint is_repetition (fuel : nat) (u t : list obs_call) : bool :=
  match fuel with
  | O => false
  | S f =>
      list_eqb obs_eqb t u ||
      (negb (Nat.eqb (List.length u) 0) && Nat.ltb (List.length u) (List.length t) &&
       list_eqb obs_eqb (firstn (List.length u) t) u && is_repetition f u (skipn (List.length u) t))
  end.

Definition is_nil_obs (l : list obs_call) : bool := match l with [] => true | _ => false end.

(* t cut into blocks of L calls *)
Fixpoint chunks (fuel L : nat) (t : list obs_call) : list (list obs_call) :=
  match fuel with
  | O => []
  | S f => match t with
           | [] => []
           | _ => firstn L t :: chunks f L (skipn L t)
           end
  end.

Definition mem_trace (x : list obs_call) (l : list (list obs_call)) : bool :=
  existsb (list_eqb obs_eqb x) l.

(* every block of the recorded calls is the complete trace of one of the requested runs, and every
   requested run was executed (all runs of one observation make the same number of calls: a parameter
   never switches a model on or off) *)
Definition covers_runs (exp : list (list obs_call)) (t : list obs_call) : bool :=
  match exp with
  | [] => is_nil_obs t
  | e0 :: _ =>
      let L := List.length e0 in
      if Nat.eqb L 0 then is_nil_obs t
      else let cs := chunks (S (List.length t)) L t in
           forallb (fun c => mem_trace c exp) cs && forallb (fun e => mem_trace e cs) exp
  end.

Definition captures_of (t : list call) : list capture :=
  map (fun c => (c_step c, group_name (c_group c), c_name c)) t.

Definition is_nil {A} (l : list A) : bool := match l with [] => true | _ => false end.

(* exposure.run_pipeline, result assembly.  `detector._intermediate` is created by the first capture
   (ModelGroup.run) and stays None when no model was captured; with debug on the result then holds an
   empty `intermediate` tree (repaired defect C01-debug-empty-run: the tree used to be read
   unconditionally, which raised RuntimeError when no model at all executed). *)
Definition intermediate_of (caps : list capture) : option (list capture) :=
  if is_nil caps then None else Some caps.

Definition exposure_result (debug : bool) (order : list group) (p : pipeline) (n : nat)
  : res (list call * list capture) :=
  let r := run_readouts debug order p n in
  Ok (fst r, if debug then match intermediate_of (snd r) with Some c => c | None => [] end else []).

(* Judge ONE run of configuration p against a run function.
     model: order regenerated from the source, through run_readouts, faithful = true: the debug tree
            is exactly what the insertions give;
     specification: tr_readouts spec_order, faithful = false: of the debug tree it demands exactly the
            executed models when the detector's tree was empty before, and otherwise that every
            executed model has its node.
   Every run of a valid configuration completes (a `Failed` outcome never agrees).
   `prior` is the debug tree the detector carries from earlier runs. *)
Definition agrees_run (faithful : bool)
           (run : bool -> pipeline -> nat -> list call * list capture)
           (prior : ntree) (p : pipeline) (steps : nat) (m : mode) (o : outcome) : bool :=
  match m with
  | Exposure debug =>
      let r := run debug p steps in
      let tree := ins_captures prior (snd r) in
      match o with
      | Failed cls => false
      | Ran t nodes =>
          list_eqb obs_eqb t (map obs_of (fst r)) &&
          match nodes with
          | None => negb debug
          | Some ns =>
              debug &&
              (if faithful || is_nil prior
               then list_eqb capture_eqb ns (flatten_tree tree)
               else forallb (fun c => capture_in c ns) (snd r))
          end
      end
  | Observation runs =>
      match o with
      | Failed _ => false
      | Ran t _ =>
          list_eqb obs_eqb t
            (flat_map (fun os => map obs_of (fst (run false (apply_overrides p os) steps))) runs)
      end
  | Calibration =>
      match o with
      | Failed _ => false
      | Ran t _ => is_repetition (S (List.length t)) (map obs_of (fst (run false p steps))) t
      end
  | ObservationDask runs =>
      match o with
      | Failed _ => false
      | Ran t _ =>
          covers_runs (map (fun os => map obs_of (fst (run false (apply_overrides p os) steps))) runs) t
      end
  end.

(* the debug tree the detector carries after the run *)
Definition tree_after (run : bool -> pipeline -> nat -> list call * list capture)
           (prior : ntree) (p : pipeline) (steps : nat) (m : mode) : ntree :=
  match m with
  | Exposure true => ins_captures prior (snd (run true p steps))
  | _ => prior
  end.

Definition agrees (faithful : bool)
           (run : bool -> pipeline -> nat -> list call * list capture) (c : c01_case) : bool :=
  match from_yaml (k_doc c), k_observed c with
  | Raise cls, Failed cls' => String.eqb cls cls'
  | Raise _, Ran _ _ => false
  | Ok p, o => agrees_run faithful run [] p (k_steps c) (k_mode c) o
  end.

Definition model_run (order : option (list group)) (debug : bool) (p : pipeline) (n : nat)
  : list call * list capture :=
  match order with
  | Some o => run_readouts debug o p n
  | None => ([], [])   (* the source names a group the model does not know: nothing can agree *)
  end.

(* the specification does not look at the debug flag for the trace: same trace, and the capture
   nodes are exactly the executed models *)
Definition spec_run (debug : bool) (p : pipeline) (n : nat) : list call * list capture :=
  let t := tr_readouts spec_order p n in (t, if debug then captures_of t else []).

Fixpoint indices_where {A} (f : A -> bool) (l : list A) (k : Z) : list Z :=
  match l with
  | [] => []
  | x :: r => if f x then k :: indices_where f r (k + 1)%Z else indices_where f r (k + 1)%Z
  end.

(* indices where implementation <> model (order = names regenerated from MODEL_GROUPS) *)
Definition mismatches (src_names : list string) (cs : list c01_case) : list Z :=
  indices_where (fun c => negb (agrees true (model_run (order_of_names src_names)) c)) cs 0%Z.

(* indices where the implementation's observed behaviour breaks the SPECIFICATION; a refused
   document (unknown key) is outside the property's statement and is only a correspondence matter.
   A growing model may legitimately be handed the very configured objects (then it sees its own
   earlier changes) or a copy of them (then it always sees the configured value): both readings of
   "exactly the arguments configured for it" are accepted. *)
Definition spec_ok (c : c01_case) : bool :=
  agrees false spec_run c ||
  agrees false (fun d p n => spec_run d (freeze p) n) c.

Definition violations (cs : list c01_case) : list Z :=
  indices_where (fun c => match from_yaml (k_doc c) with
                          | Ok _ => negb (spec_ok c)
                          | Raise _ => false
                          end) cs 0%Z.
