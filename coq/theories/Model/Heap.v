(* C06 — store model: objects, copies, runs.  Executable definitions only (no proofs).

   What is modelled
   ----------------
   * heap  = list obj, a location is an index, allocation appends (bump allocator): "fresh" means
     ">= length of the heap at the time of the copy".  Only MUTABLE python objects are heap
     objects; everything immutable (numbers, strings, None, loggers, functions, tuples of those)
     is folded into [payload].
   * obj   = class tag, payload, named references to other locations.
   * copy  = CPython's deepcopy with its memo, abstracted to its RESULT: the sub-graph reachable
     from the root (through the edges the copy policy follows) is relocated as one block to the end
     of the heap, sharing and cycles inside the block preserved.  The traversal order is a preorder
     DFS in field order (the harness numbers real object graphs the same way, so the block computed
     here can be compared literally with the block CPython produced).
     The per-class custom copies are driven by the GENERATED policy (Gen_C06.v):
       Deep  : the field of the copy points to the copy of the target   (deepcopy(self.f, memo))
       Alias : the field of the copy points to the ORIGINAL target      (f=self.f / copy.copy)
       Drop  : the field is re-initialised by __init__ (no reference)   (Processor._result)
     Classes without a custom __deepcopy__ follow every reference (CPython default).
   * a call site (create_new_processor, replace, update_processor, build_processors, fitting init)
     either copies the caller's processor first (Deep) or works on the caller's object (Alias).
   * a run is EXTERNAL behaviour (user model functions): it enters the theorems as a Section
     variable with the hypothesis that it changes only locations reachable from the processor it
     is given (it may allocate).  See Proofs/HeapFrame.v.

   What is abstracted: the memo dropped by ModelGroup.__deepcopy__ (only matters if one
   ModelFunction object is shared by two groups), the order in which CPython allocates, values of
   immutable fields (payload only counts them), numpy views (an array is a leaf; memory sharing
   between arrays is measured by the harness, not by the model). *)
From Coq Require Import String ZArith List Arith Bool Lia.
Import ListNotations.

Definition loc := nat.

Inductive cls := CProcessor | CGroup | CModel | CArgs | CPipeline | CDetector | CObservation
               | CReadout | CList | CDict | CArray | CLeaf | CObj.

Inductive cmode := Deep | Alias | Drop.

Record obj := mkObj { ocls : cls; payload : Z; refs : list (string * loc) }.

Definition heap := list obj.

Definition dummy_obj : obj := mkObj CObj 0%Z [].

(* ---------------------------------------------------------------- generated copy policy *)

Record policy := mkPolicy {
  proc_fields  : list (string * cmode);   (* Processor.__deepcopy__ *)
  group_fields : list (string * cmode)    (* ModelGroup.__deepcopy__ *)
}.

Definition lookup_mode (tbl : list (string * cmode)) (f : string) : cmode :=
  match find (fun p => String.eqb (fst p) f) tbl with
  | Some p => snd p
  | None => Drop
  end.

Definition field_mode (pol : policy) (c : cls) (f : string) : cmode :=
  match c with
  | CProcessor => lookup_mode (proc_fields pol) f
  | CGroup => lookup_mode (group_fields pol) f
  | _ => Deep
  end.

Definition is_alias (m : cmode) : bool := match m with Alias => true | _ => false end.
Definition is_deep (m : cmode) : bool := match m with Deep => true | _ => false end.

(* no custom copy aliases a mutable field *)
Definition policy_ok (pol : policy) : bool :=
  forallb (fun p => negb (is_alias (snd p))) (proc_fields pol) &&
  forallb (fun p => negb (is_alias (snd p))) (group_fields pol).

(* the fields that carry the user's configuration are really copied (not re-initialised) *)
Definition policy_complete (pol : policy) : bool :=
  is_deep (lookup_mode (proc_fields pol) "detector") &&
  is_deep (lookup_mode (proc_fields pol) "pipeline") &&
  is_deep (lookup_mode (proc_fields pol) "observation") &&
  is_deep (lookup_mode (group_fields pol) "models").

Definition sites_ok (sites : list (string * cmode)) : bool :=
  forallb (fun p => is_deep (snd p)) sites.

(* ---------------------------------------------------------------- traversal *)

Definition deep_refs (pol : policy) (o : obj) : list loc :=
  map snd (filter (fun fr => is_deep (field_mode pol (ocls o) (fst fr))) (refs o)).

Definition mem (x : loc) (l : list loc) : bool := existsb (Nat.eqb x) l.

(* preorder DFS along the edges the policy follows; None = out of fuel or dangling pointer *)
Fixpoint dfs (fuel : nat) (pol : policy) (s : heap) (work seen : list loc) : option (list loc) :=
  match fuel with
  | O => None
  | S f =>
    match work with
    | [] => Some seen
    | x :: w =>
      if mem x seen then dfs f pol s w seen
      else match nth_error s x with
           | None => None
           | Some o => dfs f pol s (deep_refs pol o ++ w) (seen ++ [x])
           end
    end
  end.

Definition total_refs (s : heap) : nat := fold_right (fun o n => length (refs o) + n) 0 s.
Definition fuel_for (s : heap) : nat := 3 + length s + total_refs s.

Fixpoint index_of (x : loc) (l : list loc) : nat :=
  match l with
  | [] => 0
  | y :: t => if Nat.eqb x y then 0 else S (index_of x t)
  end.

(* every object of R exists and its followed references stay inside R *)
Definition closed_under (pol : policy) (s : heap) (R : list loc) : bool :=
  forallb (fun x => match nth_error s x with
                    | Some o => forallb (fun y => mem y R) (deep_refs pol o)
                    | None => false
                    end) R.

Definition rename_ref (pol : policy) (c : cls) (rho : loc -> loc) (fr : string * loc)
  : list (string * loc) :=
  match field_mode pol c (fst fr) with
  | Deep => [(fst fr, rho (snd fr))]
  | Alias => [fr]
  | Drop => []
  end.

Definition rename_obj (pol : policy) (rho : loc -> loc) (o : obj) : obj :=
  mkObj (ocls o) (payload o) (flat_map (rename_ref pol (ocls o) rho) (refs o)).

(* the block of copied objects, with references expressed through rho *)
Definition block (pol : policy) (s : heap) (R : list loc) (rho : loc -> loc) : list obj :=
  map (fun x => rename_obj pol rho (nth x s dummy_obj)) R.

Definition copy_set (pol : policy) (s : heap) (l : loc) : option (list loc) :=
  match dfs (fuel_for s) pol s [l] [] with
  | Some R => if closed_under pol s R && Nat.eqb (index_of l R) 0 && negb (Nat.eqb (length R) 0)
              then Some R else None
  | None => None
  end.

(* deepcopy with the class policy: new heap and the location of the copy *)
Definition deepcopy (pol : policy) (s : heap) (l : loc) : option (heap * loc) :=
  match copy_set pol s l with
  | Some R => Some (s ++ block pol s R (fun x => length s + index_of x R), length s)
  | None => None
  end.

(* copy.copy: one new object, every field aliased *)
Definition shallow (s : heap) (l : loc) : option (heap * loc) :=
  match nth_error s l with
  | Some o => Some (s ++ [o], length s)
  | None => None
  end.

(* address-free form of what the copy contains (references relative to the block) *)
Definition canon (pol : policy) (s : heap) (R : list loc) : list obj :=
  block pol s R (fun x => index_of x R).

Definition shift_obj (n : nat) (o : obj) : obj :=
  mkObj (ocls o) (payload o) (map (fun fr => (fst fr, n + snd fr)) (refs o)).
Definition shift (n : nat) (C : list obj) : list obj := map (shift_obj n) C.

Definition closed_graph (C : list obj) : Prop :=
  forall o f y, In o C -> In (f, y) (refs o) -> y < length C.

(* what a call site does before running: copy the caller's processor, or use it directly *)
Definition site_copy (pol : policy) (site : cmode) (s : heap) (p : loc) : option (heap * loc) :=
  match site with
  | Deep => deepcopy pol s p
  | Alias => Some (s, p)
  | Drop => None
  end.

(* ---------------------------------------------------------------- reachability, frame *)

Inductive reach (s : heap) (l : loc) : loc -> Prop :=
| reach_refl : reach s l l
| reach_step : forall x o f y,
    reach s l x -> nth_error s x = Some o -> In (f, y) (refs o) -> reach s l y.

(* s' differs from s only at locations reachable from l (and may be longer) *)
Definition frame_ok (s : heap) (l : loc) (s' : heap) : Prop :=
  length s <= length s' /\
  forall x, x < length s -> ~ reach s l x -> nth_error s' x = nth_error s x.

(* ---------------------------------------------------------------- observation = sequence of runs *)

Section Observe.
  Variables (params res : Type).
  Variable run : params -> heap -> loc -> heap * res.

  Definition obs_step (pol : policy) (site : cmode) (ps : params) (s : heap) (p : loc)
    : option (heap * res) :=
    match site_copy pol site s p with
    | Some (s1, c) => Some (run ps s1 c)
    | None => None
    end.

  Fixpoint observe (pol : policy) (site : cmode) (rs : list params) (s : heap) (p : loc)
    : option (heap * list res) :=
    match rs with
    | [] => Some (s, [])
    | ps :: rest =>
      match obs_step pol site ps s p with
      | Some (s1, r) =>
        match observe pol site rest s1 p with
        | Some (sn, out) => Some (sn, r :: out)
        | None => None
        end
      | None => None
      end
    end.
End Observe.

(* a concrete legal run used by the non-vacuity witnesses: it adds [k] to the payload of the
   object behind the FIRST reference of the processor it is given (detector memory) and returns
   the new value *)
Definition set_nth {A} (n : nat) (a : A) (l : list A) : list A :=
  firstn n l ++ match skipn n l with [] => [] | _ :: t => a :: t end.

Definition run_touch (k : Z) (s : heap) (l : loc) : heap * Z :=
  match nth_error s l with
  | Some o =>
    match refs o with
    | (_, d) :: _ =>
      match nth_error s d with
      | Some od => (set_nth d (mkObj (ocls od) (payload od + k) (refs od)) s, (payload od + k)%Z)
      | None => (s, 0%Z)
      end
    | [] => (s, 0%Z)
    end
  | None => (s, 0%Z)
  end.

(* a run that is handed, as a PARAMETER VALUE, a reference [d] to an object (sequential mode: the
   default of a swept key is processor.get(key) of the caller's processor, and Processor.set stores
   a numpy array as it is): it may change what it reaches from the processor or from [d] *)
Definition frame2_ok (s : heap) (l d : loc) (s' : heap) : Prop :=
  length s <= length s' /\
  forall x, x < length s -> ~ reach s l x -> ~ reach s d x -> nth_error s' x = nth_error s x.

Definition run_param (d : loc) (s : heap) (l : loc) : heap * Z :=
  match nth_error s d with
  | Some od => (set_nth d (mkObj (ocls od) (payload od + 1) (refs od)) s, payload od)
  | None => (s, 0%Z)
  end.

(* ---------------------------------------------------------------- equality tests, case files *)

Definition cls_eqb (a b : cls) : bool :=
  match a, b with
  | CProcessor, CProcessor | CGroup, CGroup | CModel, CModel | CArgs, CArgs | CPipeline, CPipeline
  | CDetector, CDetector | CObservation, CObservation | CReadout, CReadout | CList, CList
  | CDict, CDict | CArray, CArray | CLeaf, CLeaf | CObj, CObj => true
  | _, _ => false
  end.

Fixpoint list_eqb {A} (eqb : A -> A -> bool) (a b : list A) : bool :=
  match a, b with
  | [], [] => true
  | x :: a', y :: b' => eqb x y && list_eqb eqb a' b'
  | _, _ => false
  end.

Definition ref_eqb (a b : string * loc) : bool := String.eqb (fst a) (fst b) && Nat.eqb (snd a) (snd b).
Definition obj_eqb (a b : obj) : bool :=
  cls_eqb (ocls a) (ocls b) && Z.eqb (payload a) (payload b) && list_eqb ref_eqb (refs a) (refs b).

(* one real object graph: the caller's processor graph (root = 0), what the implementation's
   copy site produced (numbered the same way, new objects from length gc_heap on), how many pairs
   of arrays share memory, how many paths of the caller's objects changed value *)
Record graph_case := mkGraphCase {
  gc_heap : heap;
  gc_site : cmode;                 (* what the generated table says about the site used *)
  gc_observed : list obj;
  gc_shared_mem : nat;
  gc_changed : nat;
  gc_lost : nat                    (* value paths of the caller's detector (memory, trapped charge, bucket
                                      contents ...) that the copy's detector does not hold with the same value *)
}.

Definition model_block (pol : policy) (c : graph_case) : option (list obj) :=
  match site_copy pol (gc_site c) (gc_heap c) 0 with
  | Some (s', _) => Some (skipn (length (gc_heap c)) s')
  | None => None
  end.

Definition graph_agrees (pol : policy) (c : graph_case) : bool :=
  match model_block pol c with
  | Some b => list_eqb obj_eqb b (gc_observed c)
  | None => false
  end.

(* SPEC: the copy shares no mutable object and no array memory with the caller's graph, it is not
   empty, the caller's objects kept their values, and the copy's detector lost nothing *)
Definition graph_spec (c : graph_case) : bool :=
  let n := length (gc_heap c) in
  negb (Nat.eqb (length (gc_observed c)) 0) &&
  forallb (fun o => forallb (fun fr => Nat.leb n (snd fr)) (refs o)) (gc_observed c) &&
  Nat.eqb (gc_shared_mem c) 0 && Nat.eqb (gc_changed c) 0 && Nat.eqb (gc_lost c) 0.

Fixpoint indices_where {A} (f : A -> bool) (l : list A) (i : nat) : list nat :=
  match l with
  | [] => []
  | x :: t => if f x then i :: indices_where f t (S i) else indices_where f t (S i)
  end.

Definition mismatches (pol : policy) (cases : list graph_case) : list nat :=
  indices_where (fun c => negb (graph_agrees pol c)) cases 0.
Definition violations (cases : list graph_case) : list nat :=
  indices_where (fun c => negb (graph_spec c)) cases 0.

(* behavioural cases: value snapshots of the caller's objects before / after each call, and every
   run's result next to an independently built standalone exposure (None = raised) *)
Record beh_case := mkBehCase {
  bc_before : list Z;
  bc_afters : list (list Z);
  bc_runs : list (option (list Z) * option (list Z))
}.

Definition oz_eqb (a b : option (list Z)) : bool :=
  match a, b with
  | Some x, Some y => list_eqb Z.eqb x y
  | None, None => true
  | _, _ => false
  end.

Definition beh_caller_ok (c : beh_case) : bool :=
  forallb (fun a => list_eqb Z.eqb a (bc_before c)) (bc_afters c).
Definition beh_runs_ok (c : beh_case) : bool :=
  forallb (fun r => oz_eqb (fst r) (snd r)) (bc_runs c).

Definition beh_caller_violations (cases : list beh_case) : list nat :=
  indices_where (fun c => negb (beh_caller_ok c)) cases 0.
Definition beh_run_violations (cases : list beh_case) : list nat :=
  indices_where (fun c => negb (beh_runs_ok c)) cases 0.
