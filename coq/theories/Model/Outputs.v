(* Executable model of pyxel's output machinery (C19).  No proofs here.

   pyxel/outputs/outputs.py  create_output_directory   -> mkdir / create_loop / create_dir / the
                                                          interleaving semantics (step_at, run_sched)
   pyxel/outputs/outputs.py  Outputs.build_filenames   -> render_new
   pyxel/outputs/utils.py    apply_run_number, to_*    -> render_old, write_file with the behaviour
                                                          table regenerated from the source
   pyxel/outputs/utils.py    save_to_files             -> save_new  (exposure; dask observation)
   pyxel/outputs/outputs.py  Outputs.save_to_file      -> save_old  (sequential observation)
   pyxel/observation/observation.py _run_single_pipeline -> flow_seq
   pyxel/observation/observation_dask.py               -> flow_dask

   The file system is a finite list: a set of names for directories, an association list
   name -> content for the files of one output directory.  A content is an integer token. *)
From Coq Require Import List Bool Arith ZArith String Ascii DecimalString DecimalNat.
Import ListNotations.
Open Scope string_scope.

(* ------------------------------------------------------------------ decimal rendering, sets *)

Definition dec (n : nat) : string := NilEmpty.string_of_uint (Nat.to_uint n).

Definition mem (p : string) (fs : list string) : bool := existsb (String.eqb p) fs.

(* ------------------------------------------------------------------ directory creation *)

(* candidate number k of the retry loop:  add = ""  then  add = "_" + str(count), count = 1, 2, ... *)
Definition cand (base : string) (k : nat) : string :=
  match k with
  | O => base
  | S _ => base ++ "_" ++ dec k
  end.

(* One ATOMIC Path.mkdir(parents=True, exist_ok = negb excl): None = FileExistsError.
   [excl] is regenerated from the source (Gen_C19.src_mkdir_exclusive). *)
Definition mkdir (excl : bool) (fs : list string) (p : string) : option (list string) :=
  if mem p fs then (if excl then None else Some fs) else Some (p :: fs).

(* the `while True: try ... except FileExistsError: count += 1; add = "_" + str(count); continue`
   loop; returns (directory, new file system, number of failed attempts) *)
Fixpoint create_loop (excl : bool) (fuel : nat) (base : string) (count : nat) (fs : list string)
  : option (string * list string * nat) :=
  match fuel with
  | O => None
  | S f =>
      match mkdir excl fs (cand base count) with
      | Some fs' => Some (cand base count, fs', count)
      | None => create_loop excl f base (S count) fs
      end
  end.

Definition create_dir (excl : bool) (fs : list string) (base : string) :=
  create_loop excl (S (List.length fs)) base 0 fs.

(* n starts one after the other (same or different base) *)
Fixpoint create_seq (excl : bool) (fs : list string) (bases : list string)
  : list (option (string * nat)) * list string :=
  match bases with
  | [] => ([], fs)
  | b :: rest =>
      match create_dir excl fs b with
      | None => let (r, fs') := create_seq excl fs rest in (None :: r, fs')
      | Some (p, fs1, k) => let (r, fs') := create_seq excl fs1 rest in (Some (p, k) :: r, fs')
      end
  end.

(* --- N concurrent creators: interleaving semantics, one atomic mkdir attempt per step --- *)

Record creator := { c_base : string; c_count : nat; c_res : option string }.

Definition step_creator (excl : bool) (c : creator) (fs : list string) : creator * list string :=
  match c_res c with
  | Some _ => (c, fs)                          (* already returned: the step is a no-op *)
  | None =>
      let p := cand (c_base c) (c_count c) in
      match mkdir excl fs p with
      | Some fs' => ({| c_base := c_base c; c_count := c_count c; c_res := Some p |}, fs')
      | None => ({| c_base := c_base c; c_count := S (c_count c); c_res := None |}, fs)
      end
  end.

Fixpoint step_at (excl : bool) (i : nat) (ps : list creator) (fs : list string)
  : list creator * list string :=
  match ps with
  | [] => ([], fs)
  | c :: rest =>
      match i with
      | O => let (c', fs') := step_creator excl c fs in (c' :: rest, fs')
      | S i' => let (rest', fs') := step_at excl i' rest fs in (c :: rest', fs')
      end
  end.

Fixpoint run_sched (excl : bool) (sched : list nat) (ps : list creator) (fs : list string)
  : list creator * list string :=
  match sched with
  | [] => (ps, fs)
  | i :: rest => let (ps', fs') := step_at excl i ps fs in run_sched excl rest ps' fs'
  end.

Definition init_creators (bases : list string) : list creator :=
  map (fun b => {| c_base := b; c_count := 0; c_res := None |}) bases.

Definition results (ps : list creator) : list (option string) := map c_res ps.

(* ------------------------------------------------------------------ names *)

Inductive bucket := Photon | Charge | Pixel | Signal | Image.
Inductive fmt := Fits | Hdf | Npy | Txt | Csv | Png | Jpg | Jpeg.

Definition bname (b : bucket) : string :=
  match b with
  | Photon => "photon" | Charge => "charge" | Pixel => "pixel" | Signal => "signal" | Image => "image"
  end.

(* the format keyword of the configuration = the extension used by build_filenames *)
Definition fname (f : fmt) : string :=
  match f with
  | Fits => "fits" | Hdf => "hdf" | Npy => "npy" | Txt => "txt" | Csv => "csv" | Png => "png"
  | Jpg => "jpg" | Jpeg => "jpeg"
  end.

Definition bidx (b : bucket) : nat :=
  match b with Photon => 0 | Charge => 1 | Pixel => 2 | Signal => 3 | Image => 4 end.
Definition fidx (f : fmt) : nat :=
  match f with Fits => 0 | Hdf => 1 | Npy => 2 | Txt => 3 | Csv => 4 | Png => 5 | Jpg => 6 | Jpeg => 7 end.
Definition bucket_eqb (a b : bucket) : bool := Nat.eqb (bidx a) (bidx b).
Definition fmt_eqb (a b : fmt) : bool := Nat.eqb (fidx a) (fidx b).

Definition suffix_str (s : option nat) : string :=
  match s with None => "" | Some n => "_" ++ dec n end.

(* Outputs.build_filenames: detector_<bucket>.<ext> / detector_<bucket>_<suffix>.<ext> *)
Definition render_new (b : bucket) (s : option nat) (f : fmt) : string :=
  "detector_" ++ bname b ++ suffix_str s ++ "." ++ fname f.

(* to_<fmt>(name="detector.<bucket>.array", run_number=r): detector_<bucket>_array_<r+1>.<ext> *)
Definition render_old (b : bucket) (run : nat) (ext : string) : string :=
  "detector_" ++ bname b ++ "_array_" ++ dec (S run) ++ "." ++ ext.

(* ------------------------------------------------------------------ files and writers *)

Definition files := list (string * Z).

Fixpoint lookup (n : string) (fs : files) : option Z :=
  match fs with
  | [] => None
  | (m, c) :: rest => if String.eqb n m then Some c else lookup n rest
  end.

Fixpoint set_file (n : string) (c : Z) (fs : files) : files :=
  match fs with
  | [] => [(n, c)]
  | (m, d) :: rest => if String.eqb n m then (m, c) :: rest else (m, d) :: set_file n c rest
  end.

(* what a writer does when the target exists: regenerated from the source for every writer *)
Inductive on_exists := Raise | Skip | Overwrite.
Inductive outcome := Wrote | Skipped | Raised.

Definition write_file (b : on_exists) (fs : files) (n : string) (c : Z) : files * outcome :=
  match lookup n fs with
  | None => (set_file n c fs, Wrote)
  | Some _ =>
      match b with
      | Raise => (fs, Raised)
      | Skip => (fs, Skipped)
      | Overwrite => (set_file n c fs, Wrote)
      end
  end.

Definition on_exists_eqb (a b : on_exists) : bool :=
  match a, b with Raise, Raise | Skip, Skip | Overwrite, Overwrite => true | _, _ => false end.
Definition outcome_eqb (a b : outcome) : bool :=
  match a, b with Wrote, Wrote | Skipped, Skipped | Raised, Raised => true | _, _ => false end.

(* the regenerated tables *)
Record tables := {
  t_writers : list (string * on_exists);        (* every to_* / write_to_* writer of outputs/utils.py *)
  t_new : list (fmt * option string);           (* save_to_files: format -> writer (None = NotImplementedError) *)
  t_old : list (fmt * string);                  (* Outputs.save_to_file: save_methods *)
  t_old_ext : list (string * string);           (* the extension in each to_* template  f"{name}_?.<ext>" *)
  t_seq_new_stage : bool;   (* Observation._run_single_pipeline hands its outputs to run_pipeline (which then
                               also saves with the NEW writers, un-suffixed names) *)
  t_old_all_items : bool;   (* Outputs.save_to_file loops over ALL items of each dict (false: first item only) *)
  t_old_merge : bool;       (* ... and merges the formats of a bucket named by several dicts (false: replaces) *)
  t_dask_snapshot : bool    (* run_pipelines_with_dask gives the lazy graph its own copy of the outputs
                               (false: folder and request are read from the shared object at compute time) *)
}.

Fixpoint assoc_s {A} (k : string) (l : list (string * A)) : option A :=
  match l with
  | [] => None
  | (m, a) :: rest => if String.eqb k m then Some a else assoc_s k rest
  end.
Fixpoint assoc_f {A} (k : fmt) (l : list (fmt * A)) : option A :=
  match l with
  | [] => None
  | (m, a) :: rest => if fmt_eqb k m then Some a else assoc_f k rest
  end.

Definition beh (T : tables) (w : string) : on_exists :=
  match assoc_s w (t_writers T) with Some b => b | None => Overwrite end.

(* ------------------------------------------------------------------ save flows *)

Inductive err := ENotImplemented | EFileExists | EOther.
Definition err_eqb (a b : err) : bool :=
  match a, b with
  | ENotImplemented, ENotImplemented | EFileExists, EFileExists | EOther, EOther => true
  | _, _ => false
  end.

Definition request := list (list (bucket * list fmt)).   (* save_data_to_file: a list of dicts *)

(* the (bucket, format) items in the order build_filenames visits them *)
Definition items (req : request) : list (bucket * fmt) :=
  flat_map (fun dct => flat_map (fun bf => map (fun f => (fst bf, f)) (snd bf)) dct) req.

Definition entry := (nat * bucket * fmt * string)%type.    (* run, bucket, format, reported name *)

Definition lossy (f : fmt) : bool := match f with Png | Jpg | Jpeg => true | _ => false end.

(* the value the probe pipeline writes into bucket b in run r of the ep-th simulation started on one
   configuration object (ep = 0 for a single simulation); lossy formats are opaque (-2) *)
Definition val (ep r : nat) (b : bucket) : Z := Z.of_nat (256 * ep + 16 * S r + bidx b).
Definition content (ep r : nat) (b : bucket) (f : fmt) : Z := if lossy f then (-2)%Z else val ep r b.

(* save_to_files(folder, processor, filenames, overwrite=False) for one run *)
Fixpoint save_new (T : tables) (ep : nat) (its : list (bucket * fmt)) (s : option nat) (run : nat)
         (fs : files) (rep : list entry) : files * list entry * option err :=
  match its with
  | [] => (fs, rep, None)
  | (b, f) :: rest =>
      match assoc_f f (t_new T) with
      | None | Some None => (fs, rep, Some ENotImplemented)
      | Some (Some w) =>
          let n := render_new b s f in
          match write_file (beh T w) fs n (content ep run b f) with
          | (fs', Raised) => (fs', rep, Some EFileExists)
          | (fs', _) => save_new T ep rest s run fs' (rep ++ [(run, b, f, n)])
          end
      end
  end.

Definition flow_exposure (T : tables) (ep : nat) (req : request) (fs : files) :=
  save_new T ep (items req) None 0 fs [].

(* dask observation: run i saves with suffix i (the per-run file index array) *)
Fixpoint flow_dask_from (T : tables) (ep : nat) (req : request) (n : nat) (run : nat) (fs : files)
         (rep : list entry) : files * list entry * option err :=
  match n with
  | O => (fs, rep, None)
  | S n' =>
      match save_new T ep (items req) (Some run) run fs rep with
      | (fs', rep', None) => flow_dask_from T ep req n' (S run) fs' rep'
      | r => r
      end
  end.
(* run_pipelines_with_dask first runs the first parameter set with un-suffixed names inside a
   TemporaryDirectory (to learn the output shapes): an exception there aborts the observation before
   anything is written into the output directory *)
Definition dask_meta_err (T : tables) (ep : nat) (req : request) : option err :=
  match save_new T ep (items req) None 0 [] [] with (_, _, e) => e end.

Definition flow_dask (T : tables) (ep : nat) (req : request) (nruns : nat) (fs : files)
  : files * list entry * option err :=
  match dask_meta_err T ep req with
  | Some e => (fs, [], Some e)
  | None => flow_dask_from T ep req nruns 0 fs []
  end.

(* Outputs.save_to_file(processor, run_number=run).
   t_old_all_items = false: only the FIRST item of each dict is used;
   t_old_merge = false: all_filenames[bucket] is REPLACED when a later dict names the same bucket. *)
Fixpoint save_old_formats (T : tables) (ep : nat) (b : bucket) (fl : list fmt) (run : nat) (fs : files)
         (part : list (fmt * string)) : files * list (fmt * string) * option err :=
  match fl with
  | [] => (fs, part, None)
  | f :: rest =>
      if (lossy f && negb (bucket_eqb b Image))%bool then (fs, part, Some EOther)   (* ValueError *)
      else
      match f with
      | Csv | Hdf => (fs, part, Some EOther)      (* TypeError: an array is not a DataFrame / Detector *)
      | _ =>
        match assoc_f f (t_old T) with
        | None => (fs, part, Some EOther)
        | Some w =>
            match assoc_s w (t_old_ext T) with
            | None => (fs, part, Some EOther)
            | Some ext =>
                let n := render_old b run ext in
                match write_file (beh T w) fs n (content ep run b f) with
                | (fs', Raised) => (fs', part, Some EFileExists)
                | (fs', _) =>
                    save_old_formats T ep b rest run fs'
                      (filter (fun x => negb (fmt_eqb (fst x) f)) part ++ [(f, n)])
                end
            end
        end
      end
  end.

Definition rep_entry := (bucket * list (fmt * string))%type.

Definition part_of (b : bucket) (acc : list rep_entry) : list (fmt * string) :=
  flat_map (fun x => if bucket_eqb (fst x) b then snd x else []) acc.

(* dict.update: a format already there is replaced, a new one is added *)
Definition merge_part (old new : list (fmt * string)) : list (fmt * string) :=
  fold_left (fun (a : list (fmt * string)) x => (filter (fun y => negb (fmt_eqb (fst y) (fst x))) a ++ [x])%list) new old.

Definition upd_acc (T : tables) (acc : list rep_entry) (b : bucket) (part : list (fmt * string)) : list rep_entry :=
  filter (fun x => negb (bucket_eqb (fst x) b)) acc
  ++ [(b, if t_old_merge T then merge_part (part_of b acc) part else part)].

Fixpoint save_old_dict (T : tables) (ep : nat) (dct : list (bucket * list fmt)) (run : nat) (fs : files)
         (acc : list rep_entry) : files * list rep_entry * option err :=
  match dct with
  | [] => (fs, acc, None)
  | (b, fl) :: rest =>
      match save_old_formats T ep b fl run fs [] with
      | (fs', part, None) => save_old_dict T ep rest run fs' (upd_acc T acc b part)
      | (fs', _, Some e) => (fs', acc, Some e)
      end
  end.

Fixpoint save_old (T : tables) (ep : nat) (req : request) (run : nat) (fs : files) (acc : list rep_entry)
  : files * list rep_entry * option err :=
  match req with
  | [] => (fs, acc, None)
  | dct :: rest =>
      if t_old_all_items T then
        match save_old_dict T ep dct run fs acc with
        | (fs', acc', None) => save_old T ep rest run fs' acc'
        | r => r
        end
      else
        match dct with
        | [] => (fs, acc, Some EOther)             (* first_item, *_ = {}.items() -> ValueError *)
        | first :: _ =>
            match save_old_dict T ep [first] run fs acc with
            | (fs', acc', None) => save_old T ep rest run fs' acc'
            | r => r
            end
        end
  end.

Definition entries_of (run : nat) (acc : list rep_entry) : list entry :=
  flat_map (fun x => map (fun fn => (run, fst x, fst fn, snd fn)) (snd x)) acc.

(* sequential observation.  t_seq_new_stage = true: run_pipeline(outputs=...) first saves with the NEW
   writers and no suffix (the same names for every run); then save_to_file(run_number=run) saves with
   the OLD writers and replaces the /output node.  An empty request is refused by save_to_file
   (NotImplementedError). *)
Fixpoint flow_seq_from (T : tables) (ep : nat) (req : request) (n : nat) (run : nat) (fs : files)
         (rep : list entry) : files * list entry * option err :=
  match n with
  | O => (fs, rep, None)
  | S n' =>
      match (if t_seq_new_stage T then save_new T ep (items req) None run fs []
             else (fs, [], None)) with
      | (fs1, _, Some e) => (fs1, rep, Some e)
      | (fs1, _, None) =>
          match req with
          | [] => (fs1, rep, Some ENotImplemented)
          | _ =>
            match save_old T ep req run fs1 [] with
            | (fs2, _, Some e) => (fs2, rep, Some e)
            | (fs2, acc, None) => flow_seq_from T ep req n' (S run) fs2 (rep ++ entries_of run acc)
            end
          end
      end
  end.
Definition flow_seq (T : tables) (ep : nat) (req : request) (nruns : nat) (fs : files) :=
  flow_seq_from T ep req nruns 0 fs [].

(* ------------------------------------------------------------------ specification (bool) *)

Definition entry_eqb (a b : entry) : bool :=
  match a, b with
  | (r, b1, f1, n1), (r', b2, f2, n2) =>
      Nat.eqb r r' && bucket_eqb b1 b2 && fmt_eqb f1 f2 && String.eqb n1 n2
  end.

Definition file_eqb (a b : string * Z) : bool := String.eqb (fst a) (fst b) && Z.eqb (snd a) (snd b).

Definition subset {A} (eqb : A -> A -> bool) (l1 l2 : list A) : bool :=
  forallb (fun x => existsb (eqb x) l2) l1.
Definition same_set {A} (eqb : A -> A -> bool) (l1 l2 : list A) : bool :=
  subset eqb l1 l2 && subset eqb l2 l1.

(* SPEC never-clobbers: every file that existed before is still there with the same content *)
Definition spec_unchanged (before after : files) : bool :=
  forallb (fun x => match lookup (fst x) after with Some c => Z.eqb c (snd x) | None => false end) before.

(* SPEC attribution: every reported name exists and holds the content of the run it is attributed to *)
Definition spec_attributed (ep : nat) (rep : list entry) (after : files) : bool :=
  forallb (fun e => match e with
                    | (r, b, f, n) =>
                        match lookup n after with Some c => Z.eqb c (content ep r b f) | None => false end
                    end) rep.

Definition count_entries (rep : list entry) (r : nat) (b : bucket) (f : fmt) : nat :=
  List.length (nodup string_dec
    (map (fun e => snd e)
       (filter (fun e => match e with (r', b', f', _) => Nat.eqb r r' && bucket_eqb b b' && fmt_eqb f f' end) rep))).

(* SPEC completeness: every requested (bucket, format, run) has exactly one reported file, and
   nothing else is reported *)
Definition spec_complete (req : request) (nruns : nat) (rep : list entry) : bool :=
  forallb (fun r => forallb (fun bf => Nat.eqb (count_entries rep r (fst bf) (snd bf)) 1) (items req))
          (seq 0 nruns)
  && forallb (fun e => match e with (r, b, f, _) =>
                Nat.ltb r nruns && existsb (fun bf => bucket_eqb b (fst bf) && fmt_eqb f (snd bf)) (items req) end) rep.

(* SPEC naming convention: the name carries the bucket, the run index convention of its mode and
   the extension *)
Inductive mode := MExposure | MSeq | MDask.
Definition mode_eqb (a b : mode) : bool :=
  match a, b with MExposure, MExposure | MSeq, MSeq | MDask, MDask => true | _, _ => false end.

(* the documented extension of each format keyword in the old to_xxx writers: fixed here, NOT taken
   from the regenerated tables, so that a changed dispatch is judged against the convention *)
Definition old_ext_spec (f : fmt) : string :=
  match f with Hdf => "h5" | Jpeg => "jpg" | _ => fname f end.

Definition spec_named (m : mode) (rep : list entry) : bool :=
  forallb (fun e => match e with
     | (r, b, f, n) =>
         match m with
         | MExposure => String.eqb n (render_new b None f)
         | MDask => String.eqb n (render_new b (Some r) f)
         | MSeq => String.eqb n (render_old b r (old_ext_spec f))
         end
     end) rep.

(* ------------------------------------------------------------------ correspondence cases *)

(* directories: sequential starts *)
Record dir_case := {
  d_pre : list string;                 (* names present in the parent folder before *)
  d_bases : list string;               (* prefix + frozen timestamp of each start, in order *)
  d_obs : list (option (string * nat)) (* implementation: returned name, failed attempts (None = gave up) *)
}.

Definition opt_sn_eqb (a b : option (string * nat)) : bool :=
  match a, b with
  | None, None => true
  | Some (s, k), Some (s', k') => String.eqb s s' && Nat.eqb k k'
  | _, _ => false
  end.

Fixpoint list_eqb {A} (eqb : A -> A -> bool) (l1 l2 : list A) : bool :=
  match l1, l2 with
  | [], [] => true
  | x :: r1, y :: r2 => eqb x y && list_eqb eqb r1 r2
  | _, _ => false
  end.

Definition dir_model_ok (excl : bool) (c : dir_case) : bool :=
  list_eqb opt_sn_eqb (fst (create_seq excl (d_pre c) (d_bases c))) (d_obs c).

Fixpoint nodup_b (l : list string) : bool :=
  match l with
  | [] => true
  | x :: r => negb (mem x r) && nodup_b r
  end.

Fixpoint somes {A} (l : list (option A)) : list A :=
  match l with [] => [] | Some a :: r => a :: somes r | None :: r => somes r end.

(* SPEC for directories: every start returned, the returned directories are pairwise distinct and
   none existed before; each start needed at most |fs| + 1 attempts *)
Definition dir_spec_ok (pre : list string) (obs : list (option (string * nat))) : bool :=
  forallb (fun o => match o with Some _ => true | None => false end) obs
  && nodup_b (map fst (somes obs))
  && forallb (fun p => negb (mem p pre)) (map fst (somes obs))
  && forallb (fun k => Nat.leb k (List.length pre + List.length obs)) (map snd (somes obs)).

(* directories: forced interleavings.  d2_sched is the global order of the mkdir attempts as the
   driver released them; d2_obs the directory each creator returned. *)
Record sched_case := {
  s_pre : list string;
  s_bases : list string;
  s_sched : list nat;
  s_obs : list (option string)
}.

Definition opt_s_eqb (a b : option string) : bool :=
  match a, b with None, None => true | Some s, Some s' => String.eqb s s' | _, _ => false end.

Definition sched_model_ok (excl : bool) (c : sched_case) : bool :=
  list_eqb opt_s_eqb (results (fst (run_sched excl (s_sched c) (init_creators (s_bases c)) (s_pre c)))) (s_obs c).

Definition sched_spec_ok (pre : list string) (obs : list (option string)) : bool :=
  forallb (fun o => match o with Some _ => true | None => false end) obs
  && nodup_b (somes obs)
  && forallb (fun p => negb (mem p pre)) (somes obs).

(* writers called directly *)
Record writer_case := {
  w_name : string;          (* the writer *)
  w_exists : bool;          (* was the target present before the call *)
  w_out : outcome;          (* implementation: wrote / returned without writing / raised *)
  w_changed : bool          (* implementation: bytes of the pre-existing target changed *)
}.

Definition writer_model_ok (T : tables) (c : writer_case) : bool :=
  let fs := if w_exists c then [("f", 1%Z)] else [] in
  let '(fs', o) := write_file (beh T (w_name c)) fs "f" 2%Z in
  outcome_eqb o (w_out c)
  && Bool.eqb (w_changed c) (w_exists c && negb (match lookup "f" fs' with Some 1%Z => true | _ => false end)).

Definition writer_spec_ok (c : writer_case) : bool :=
  negb (w_changed c) && (w_exists c || outcome_eqb (w_out c) Wrote).

(* complete flows *)
Record flow_case := {
  f_mode : mode;
  f_req : request;
  f_nruns : nat;
  f_pre : files;                 (* files put into the fresh output directory before the first write *)
  f_err : option err;            (* implementation *)
  f_rep : list entry;            (* implementation: the /output node *)
  f_files : files                (* implementation: final listing with content tokens *)
}.

Definition run_flow (T : tables) (c : flow_case) :=
  match f_mode c with
  | MExposure => flow_exposure T 0 (f_req c) (f_pre c)
  | MSeq => flow_seq T 0 (f_req c) (f_nruns c) (f_pre c)
  | MDask => flow_dask T 0 (f_req c) (f_nruns c) (f_pre c)
  end.

Definition opt_err_eqb (a b : option err) : bool :=
  match a, b with None, None => true | Some x, Some y => err_eqb x y | _, _ => false end.

Definition flow_model_ok (T : tables) (c : flow_case) : bool :=
  match run_flow T c with
  | (fs, rep, e) =>
      opt_err_eqb e (f_err c)
      && (same_set file_eqb fs (f_files c)
          || match f_mode c, e with MDask, Some _ => true | _, _ => false end)
         (* a parallel observation that fails: which of the OTHER runs' files got written before the
            exception surfaced is a matter of scheduling; only the outcome is compared *)
      && match e with None => same_set entry_eqb rep (f_rep c) | Some _ => true end
  end.

(* the property's right-hand side on the implementation's observables.  An explicit refusal (an
   exception) is not a violation as long as nothing was clobbered. *)
Definition flow_spec_ok (T : tables) (c : flow_case) : bool :=
  spec_unchanged (f_pre c) (f_files c)
  && match f_err c with
     | Some _ => true
     | None => spec_attributed 0 (f_rep c) (f_files c)
               && spec_complete (f_req c) (match f_mode c with MExposure => 1 | _ => f_nruns c end) (f_rep c)
               && spec_named (f_mode c) (f_rep c)
     end.

Fixpoint bad_indices {A} (ok : A -> bool) (l : list A) (i : nat) : list nat :=
  match l with
  | [] => []
  | x :: r => if ok x then bad_indices ok r (S i) else i :: bad_indices ok r (S i)
  end.

Definition mismatches {A} (ok : A -> bool) (l : list A) : list nat := bad_indices ok l 0.
Definition violations {A} (ok : A -> bool) (l : list A) : list nat := bad_indices ok l 0.

(* ------------------------------------------------------------------ automatic numbering
   apply_run_number(template "<name>_?.<ext>", run_number=None): the "?" becomes "*", the directory is
   globbed, get_number() reads the trailing digits of every matching stem (0 if there are none), and the
   new file gets the largest number + 1 (1 if nothing matches).  A matching file is represented by the
   part of its name the "*" stands for. *)

Definition is_digit_b (c : ascii) : bool :=
  (Nat.leb 48 (nat_of_ascii c) && Nat.leb (nat_of_ascii c) 57)%bool.

(* (the string is all digits, its value) — int() of a digit string, leading zeros allowed *)
Fixpoint digits_val (s : string) (acc : nat) : option nat :=
  match s with
  | EmptyString => Some acc
  | String c r => if is_digit_b c then digits_val r (10 * acc + (nat_of_ascii c - 48)) else None
  end.

(* re.search(r"\d+$", stem): the value of the longest all-digit suffix, None if the stem does not end in a digit *)
Fixpoint trailing_number (s : string) : option nat :=
  match s with
  | EmptyString => None
  | String c r =>
      match digits_val (String c r) 0 with
      | Some v => Some v
      | None => trailing_number r
      end
  end.

Definition get_number (mid : string) : nat :=
  match trailing_number mid with Some v => v | None => 0 end.

Record auto_cfg := {
  a_step : nat;        (* next_num = num_list[-1] + a_step *)
  a_first : nat        (* next_num = a_first when nothing matches *)
}.

Definition next_number (A : auto_cfg) (mids : list string) : nat :=
  match mids with
  | [] => a_first A
  | _ => fold_right Nat.max 0 (map get_number mids) + a_step A
  end.

(* the "*" part of the name the new file gets *)
Definition auto_mid (A : auto_cfg) (mids : list string) : string := dec (next_number A mids).

(* correspondence: a writer called with run_number=None on a directory holding the given matches *)
Record auto_case := {
  au_mids : list string;        (* the "*" parts of the matching names present before *)
  au_new : string;              (* implementation: the "*" part of the returned name *)
  au_intact : bool;             (* implementation: every file present before still has its bytes *)
  au_created : nat              (* implementation: number of new files *)
}.

Definition auto_model_ok (A : auto_cfg) (c : auto_case) : bool :=
  String.eqb (auto_mid A (au_mids c)) (au_new c).

Definition auto_spec_ok (c : auto_case) : bool :=
  negb (mem (au_new c) (au_mids c)) && au_intact c && Nat.eqb (au_created c) 1.
