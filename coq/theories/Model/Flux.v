(* C17 — splitting an exposure into more readouts does not change collected charge.

   Executable model over Q (no proofs here).  Self-contained: does not use Model/Exposure.v.

   What is modelled (per pixel; every listed model acts element-wise on the detector arrays, which
   the correspondence leg establishes by comparing whole arrays pixel by pixel):

     pyxel/exposure/readout.py      Readout.__init__ guards, calculate_steps  -> valid_schedule, diffs
     pyxel/exposure/exposure.py     run_pipeline: detector.empty(); per step: time_step := step,
                                    detector.empty(reset = destructive), run the groups in order
                                                                              -> begin_step, run_step, run_steps
     photon_collection  illumination / load_image / stripe_pattern:   photon += K * time_step
                                                                              -> PhotonRate K
     charge_generation  simple_conversion / conversion_with_qe_map (binomial_sampling = False):
                                                                      charge += photon * qe
                                                                              -> Convert qe
                        load_charge / dark_current (noise free):      charge += K * time_step
                                                                              -> ChargeRate K
     charge_collection  simple_collection:                            pixel  += charge
                                                                              -> Collect
   K is the model's rate at that pixel: level / time_scale (times the 0/1 shape mask),
   file_value * multiplier / time_scale, the dark-current rate in e-/pixel/s. *)
From Coq Require Import QArith Qabs List Bool Arith.
Import ListNotations.
Open Scope Q_scope.

(* ------------------------------------------------------------------ one pixel of the detector *)

Inductive mop : Type :=
| PhotonRate (k : Q)
| Convert (qe : Q)
| ChargeRate (k : Q)
| Collect.

Record st : Type := mkst { photon : Q; charge : Q; pixel : Q }.

Definition st0 : st := mkst 0 0 0.

(* Qred only normalises the fraction (Qred x == x); it keeps the numbers small when the model is
   evaluated on long schedules *)
Definition apply_op (step : Q) (s : st) (m : mop) : st :=
  match m with
  | PhotonRate k => mkst (Qred (photon s + k * step)) (charge s) (pixel s)
  | Convert qe => mkst (photon s) (Qred (charge s + photon s * qe)) (pixel s)
  | ChargeRate k => mkst (photon s) (Qred (charge s + k * step)) (pixel s)
  | Collect => mkst (photon s) (charge s) (Qred (pixel s + charge s))
  end.

(* detector.empty(reset): photon and charge are always emptied, pixel only when reset = True;
   run_pipeline passes reset = not non_destructive *)
Definition begin_step (nd : bool) (s : st) : st :=
  mkst 0 0 (if nd then pixel s else 0).

Definition run_step (nd : bool) (ops : list mop) (s : st) (step : Q) : st :=
  fold_left (apply_op step) ops (begin_step nd s).

(* the trace of end-of-step states (what _extract_datatree_2d records after every step) *)
Fixpoint run_steps (nd : bool) (ops : list mop) (s : st) (steps : list Q) : list st :=
  match steps with
  | [] => []
  | d :: r => let s' := run_step nd ops s d in s' :: run_steps nd ops s' r
  end.

(* calculate_steps: np.diff(concatenate(([start], times))) *)
Fixpoint diffs (prev : Q) (ts : list Q) : list Q :=
  match ts with
  | [] => []
  | t :: r => (t - prev) :: diffs t r
  end.

Definition Qltb (a b : Q) : bool := negb (Qle_bool b a).

Fixpoint increasing_from (prev : Q) (ts : list Q) : bool :=
  match ts with
  | [] => true
  | t :: r => Qltb prev t && increasing_from t r
  end.

(* Readout.__init__: times given and non-empty, times[0] != 0, start < times[0], strictly increasing *)
Definition valid_schedule (start : Q) (ts : list Q) : bool :=
  match ts with
  | [] => false
  | t0 :: _ => negb (Qeq_bool t0 0) && increasing_from start ts
  end.

(* run_pipeline: None = the schedule is refused (ValueError), no model runs *)
Definition run_exposure (nd : bool) (ops : list mop) (start : Q) (ts : list Q) : option (list st) :=
  if valid_schedule start ts then Some (run_steps nd ops st0 (diffs start ts)) else None.

(* ------------------------------------------------------------------ the pipeline's total rate *)

Fixpoint ph_sum (ops : list mop) : Q :=
  match ops with
  | [] => 0
  | PhotonRate k :: r => k + ph_sum r
  | _ :: r => ph_sum r
  end.

Fixpoint qe_sum (ops : list mop) : Q :=
  match ops with
  | [] => 0
  | Convert q :: r => q + qe_sum r
  | _ :: r => qe_sum r
  end.

Fixpoint ch_sum (ops : list mop) : Q :=
  match ops with
  | [] => 0
  | ChargeRate k :: r => k + ch_sum r
  | _ :: r => ch_sum r
  end.

(* collected charge per unit time: QE-linear-map(sum of photon rates) + sum of charge rates *)
Definition Ktot (ops : list mop) : Q := qe_sum ops * ph_sum ops + ch_sum ops.

(* the fixed group order of a pyxel pipeline restricted to these models: photon_collection models,
   then charge_generation models (conversions and charge rates in any order), then exactly one
   simple_collection, then nothing that touches photon / charge / pixel.
   phase 0 = photon_collection, 1 = charge_generation, 3 = after collection *)
Fixpoint wf_from (phase : nat) (ops : list mop) : bool :=
  match ops with
  | [] => (phase =? 3)%nat
  | PhotonRate _ :: r => (phase =? 0)%nat && wf_from 0 r
  | Convert _ :: r => (phase <=? 1)%nat && wf_from 1 r
  | ChargeRate _ :: r => (phase <=? 1)%nat && wf_from 1 r
  | Collect :: r => (phase <=? 1)%nat && wf_from 3 r
  end.

Definition wf_ops (ops : list mop) : bool := wf_from 0 ops.

Fixpoint qsum (l : list Q) : Q :=
  match l with [] => 0 | x :: r => x + qsum r end.

(* ------------------------------------------------------------------ specification (right-hand sides) *)

(* non-destructive: readout i holds K * (t_i - start); in particular the last one K * (t_end - start) *)
Definition nd_closed (K start : Q) (ts : list Q) : list Q := map (fun t => K * (t - start)) ts.
(* destructive: frame i holds K * (t_i - t_(i-1)) *)
Definition d_closed (K start : Q) (ts : list Q) : list Q := map (fun d => K * d) (diffs start ts).

(* comparison with a relative tolerance; tol = 0 is exact equality of rationals (Proofs/Flux.v: close_zero_iff) *)
Definition close (tol a b : Q) : bool := Qle_bool (Qabs (a - b)) (tol * (Qabs a + Qabs b)).

Fixpoint close_list (tol : Q) (a b : list Q) : bool :=
  match a, b with
  | [], [] => true
  | x :: a', y :: b' => close tol x y && close_list tol a' b'
  | _, _ => false
  end.

Fixpoint all2 {A B : Type} (f : A -> B -> bool) (a : list A) (b : list B) : bool :=
  match a, b with
  | [], [] => true
  | x :: a', y :: b' => f x y && all2 f a' b'
  | _, _ => false
  end.

(* ------------------------------------------------------------------ case files *)

(* (1) increments of ONE real rate model called with several time steps on an emptied detector;
   no rate is supplied: the statement is K-free.  ic_obs j = the array it added for ic_steps j. *)
Record inc_case : Type := {
  ic_tol : Q;
  ic_steps : list Q;
  ic_obs : list (list Q)
}.

(* increment_j * step_0 = increment_0 * step_j at every pixel: the increment is (rate * step) with a
   rate that does not depend on the step, and the step factor is present *)
Definition inc_proportional (c : inc_case) : bool :=
  match ic_steps c, ic_obs c with
  | d0 :: _, o0 :: _ =>
      all2 (fun d o => all2 (fun x x0 => close (ic_tol c) (x * d0) (x0 * d)) o o0) (ic_steps c) (ic_obs c)
  | _, _ => false
  end.

(* the harness must give at least two different steps, otherwise the statement says nothing *)
Definition inc_wellposed (c : inc_case) : bool :=
  match ic_steps c with
  | d0 :: r => existsb (fun d => negb (Qeq_bool d d0)) r && forallb (fun d => negb (Qeq_bool d 0)) (ic_steps c)
  | [] => false
  end.

(* (2) one real model applied once to a prepared detector state, rate / qe known in closed form *)
Record lin_case : Type := {
  lc_tol : Q;
  lc_step : Q;
  lc_ops : list mop;       (* per pixel *)
  lc_init : list st;       (* per pixel, before the call *)
  lc_obs : list st         (* per pixel, after the call *)
}.

Definition st_close (tol : Q) (a b : st) : bool :=
  close tol (photon a) (photon b) && close tol (charge a) (charge b) && close tol (pixel a) (pixel b).

Definition lin_model (c : lin_case) : list st :=
  map (fun p => apply_op (lc_step c) (snd p) (fst p)) (combine (lc_ops c) (lc_init c)).

Definition lin_ok (c : lin_case) : bool :=
  (length (lc_ops c) =? length (lc_init c))%nat && all2 (st_close (lc_tol c)) (lin_model c) (lc_obs c).

(* (3) a real exposure (pyxel.run_mode): per pixel the op list (rates of the configured models at that
   pixel) and the observed pixel-bucket value after every readout; None = the run raised *)
Record exp_case : Type := {
  ec_tol : Q;
  ec_nd : bool;
  ec_start : Q;
  ec_times : list Q;
  ec_ops : list (list mop);            (* per pixel *)
  ec_obs : option (list (list Q))      (* per pixel, per readout *)
}.

Definition exp_model_pixel (c : exp_case) (ops : list mop) : option (list Q) :=
  option_map (map pixel) (run_exposure (ec_nd c) ops (ec_start c) (ec_times c)).

Definition exp_matches_model (c : exp_case) : bool :=
  match ec_obs c with
  | None => negb (valid_schedule (ec_start c) (ec_times c))
  | Some obs =>
      all2 (fun ops o => match exp_model_pixel c ops with
                         | Some m => close_list (ec_tol c) m o
                         | None => false
                         end) (ec_ops c) obs
  end.

Definition exp_spec (c : exp_case) : bool :=
  if valid_schedule (ec_start c) (ec_times c) then
    match ec_obs c with
    | None => false
    | Some obs =>
        all2 (fun ops o =>
                negb (wf_ops ops)    (* the theorems speak about well-formed pipelines only *)
                || close_list (ec_tol c)
                     (if ec_nd c then nd_closed (Ktot ops) (ec_start c) (ec_times c)
                      else d_closed (Ktot ops) (ec_start c) (ec_times c)) o)
             (ec_ops c) obs
    end
  else match ec_obs c with None => true | Some _ => false end.

Definition exp_wellposed (c : exp_case) : bool := forallb wf_ops (ec_ops c).

(* (4) the same pipeline run non-destructively under two partitions of the same interval:
   only the two observed final pixel arrays; K-free *)
Record pair_case : Type := {
  pc_tol : Q;
  pc_start : Q;
  pc_times_a : list Q;
  pc_times_b : list Q;
  pc_final_a : list Q;     (* per pixel *)
  pc_final_b : list Q
}.

Definition pair_wellposed (c : pair_case) : bool :=
  valid_schedule (pc_start c) (pc_times_a c) && valid_schedule (pc_start c) (pc_times_b c)
  && Qeq_bool (last (pc_times_a c) (pc_start c)) (last (pc_times_b c) (pc_start c)).

Definition pair_spec (c : pair_case) : bool :=
  negb (pair_wellposed c) || close_list (pc_tol c) (pc_final_a c) (pc_final_b c).

(* (5) the same pipeline run destructively under a schedule and under that schedule with every
   interval scaled by c (any start times): frames scale by c; K-free *)
Record scale_case : Type := {
  sc_tol : Q;
  sc_c : Q;
  sc_start_a : Q;
  sc_times_a : list Q;
  sc_start_b : Q;
  sc_times_b : list Q;
  sc_frames_a : list (list Q);   (* per pixel, per readout *)
  sc_frames_b : list (list Q)
}.

Definition scale_wellposed (c : scale_case) : bool :=
  valid_schedule (sc_start_a c) (sc_times_a c) && valid_schedule (sc_start_b c) (sc_times_b c)
  && all2 (fun db da => Qeq_bool db (sc_c c * da)) (diffs (sc_start_b c) (sc_times_b c))
          (diffs (sc_start_a c) (sc_times_a c)).

Definition scale_spec (c : scale_case) : bool :=
  negb (scale_wellposed c)
  || all2 (fun fb fa => close_list (sc_tol c) fb (map (fun x => sc_c c * x) fa)) (sc_frames_b c) (sc_frames_a c).

(* (6) the Readout object an exposure was run with (however its schedule was established: constructor,
   `times` / `start_time` / `non_destructive` setters, replace, a file, a range string) and the detector's own
   readout properties during the run: each must carry the requested start, times and mode, and its `steps`
   must be calculate_steps of them, i.e. diffs start times *)
Record sched_obs : Type := {
  so_start : Q;
  so_times : list Q;
  so_steps : list Q;
  so_nd : bool
}.

Record sched_case : Type := {
  sh_tol : Q;
  sh_start : Q;
  sh_times : list Q;
  sh_nd : bool;
  sh_obs : list sched_obs
}.

Definition sched_obs_ok (c : sched_case) (o : sched_obs) : bool :=
  close (sh_tol c) (sh_start c) (so_start o)
  && close_list (sh_tol c) (sh_times c) (so_times o)
  && close_list (sh_tol c) (diffs (sh_start c) (sh_times c)) (so_steps o)
  && Bool.eqb (sh_nd c) (so_nd o).

Definition sched_spec (c : sched_case) : bool := forallb (sched_obs_ok c) (sh_obs c).

(* the harness asks only for accepted schedules, and observed at least one object *)
Definition sched_wellposed (c : sched_case) : bool :=
  valid_schedule (sh_start c) (sh_times c) && negb (match sh_obs c with [] => true | _ => false end).

Inductive fcase : Type :=
| CSched (c : sched_case)
| CInc (c : inc_case)
| CLin (c : lin_case)
| CExp (c : exp_case)
| CPair (c : pair_case)
| CScale (c : scale_case).

(* model (or the harness's own well-posedness) disagrees with what was observed *)
Definition case_mismatch (c : fcase) : bool :=
  match c with
  | CSched c => negb (sched_wellposed c)
  | CInc c => negb (inc_wellposed c)
  | CLin c => negb (lin_ok c)
  | CExp c => negb (exp_wellposed c && exp_matches_model c)
  | CPair c => negb (pair_wellposed c)
  | CScale c => negb (scale_wellposed c)
  end.

(* the observation breaks the specification (the right-hand sides of the C17 theorems) *)
Definition case_violation (c : fcase) : bool :=
  match c with
  | CSched c => negb (sched_spec c)
  | CInc c => negb (inc_proportional c)
  | CLin c => negb (lin_ok c)
  | CExp c => negb (exp_spec c)
  | CPair c => negb (pair_spec c)
  | CScale c => negb (scale_spec c)
  end.

Fixpoint indices_where {A : Type} (f : A -> bool) (i : nat) (l : list A) : list nat :=
  match l with
  | [] => []
  | x :: r => if f x then i :: indices_where f (S i) r else indices_where f (S i) r
  end.

Definition mismatches (cases : list fcase) : list nat := indices_where case_mismatch 0 cases.
Definition violations (cases : list fcase) : list nat := indices_where case_violation 0 cases.
