(* C05 -- executable model of the observation parameter space (pyxel/observation/misc.py,
   observation.py, parameter_values.py), bugs included.  Definitions only; proofs are in
   Proofs/ParamSpace*.v.

   Values are exact: every number is carried as its numerator in eighths (Z). *)
From Coq Require Import ZArith List Bool Arith String Ascii Lia.
Import ListNotations.
Local Open Scope string_scope.
Local Notation length := List.length (only parsing).

(* ------------------------------------------------------------------------------------ values *)

(* a value a parameter can take: scalar, 1-D vector, or the custom-mode placeholder '_' *)
Inductive pval := Sc (z : Z) | Vec (l : list Z) | Ph.

Fixpoint listZ_eqb (a b : list Z) : bool :=
  match a, b with
  | [], [] => true
  | x :: a', y :: b' => Z.eqb x y && listZ_eqb a' b'
  | _, _ => false
  end.

Definition pval_eqb (a b : pval) : bool :=
  match a, b with
  | Sc x, Sc y => Z.eqb x y
  | Vec x, Vec y => listZ_eqb x y
  | Ph, Ph => true
  | _, _ => false
  end.

(* ParameterValues.values: a literal list (also what a "numpy...." string evaluates to),
   the string "_" , or a list of n "_" *)
Inductive pvalues := Lit (vs : list pval) | Under | Unders (n : nat).

Record param := mkParam { p_key : string; p_values : pvalues; p_enabled : bool }.

(* list(step) = eval_range(values) *)
Definition piter (p : param) : list pval :=
  match p_values p with
  | Lit vs => vs
  | Under => [Ph]
  | Unders n => repeat Ph n
  end.

(* len(step) *)
Definition plen (p : param) : nat := length (piter p).

(* enabled_steps *)
Definition enabled (ps : list param) : list param := filter p_enabled ps.

(* ------------------------------------------------------------------------------------ python dict *)

Definition assignment := list (string * pval).

Fixpoint dict_set {V} (k : string) (v : V) (d : list (string * V)) : list (string * V) :=
  match d with
  | [] => [(k, v)]
  | (k', v') :: t => if String.eqb k k' then (k, v) :: t else (k', v') :: dict_set k v t
  end.

Fixpoint dict_get {V} (k : string) (d : list (string * V)) : option V :=
  match d with
  | [] => None
  | (k', v) :: t => if String.eqb k k' then Some v else dict_get k t
  end.

(* d = {}; for k, v in kvs: d[k] = v *)
Definition dict_of {V} (kvs : list (string * V)) : list (string * V) :=
  fold_left (fun d kv => dict_set (fst kv) (snd kv) d) kvs [].

(* ------------------------------------------------------------------------------------ runs *)

(* ParameterEntry / CustomParameterEntry: (run_index, index, parameters); the custom/sequential
   integer index i is carried as [i] *)
Record run := mkRun { r_run_index : nat; r_index : list nat; r_params : assignment }.

(* itertools.product over ls: last component varies fastest *)
Fixpoint iproduct {A} (ls : list (list A)) : list (list A) :=
  match ls with
  | [] => [[]]
  | l :: rest => flat_map (fun a => map (cons a) (iproduct rest)) l
  end.

Fixpoint enumerate_from {A} (n : nat) (l : list A) : list (nat * A) :=
  match l with
  | [] => []
  | a :: t => (n, a) :: enumerate_from (S n) t
  end.

(* ProductMode._product_parameters + get_parameters_item:
   zip(product of ranges, product of steps); dict(zip(keys, values)); enumerate *)
Definition product_runs (ps : list param) : list run :=
  let en := enabled ps in
  map (fun nx => mkRun (fst nx) (fst (snd nx)) (dict_of (combine (map p_key en) (snd (snd nx)))))
      (enumerate_from 0 (combine (iproduct (map (fun p => seq 0 (plen p)) en))
                                 (iproduct (map piter en)))).

(* toolz.unique: first occurrences, in order *)
Fixpoint unique_aux (seen l : list string) : list string :=
  match l with
  | [] => []
  | a :: t => if existsb (String.eqb a) seen then unique_aux seen t
              else a :: unique_aux (a :: seen) t
  end.
Definition unique (l : list string) : list string := unique_aux [] l.

(* SequentialMode._sequential_parameters: one (key, value) change per run *)
Definition seq_changes (en : list param) : list (string * pval) :=
  flat_map (fun p => map (fun v => (p_key p, v)) (piter p)) en.

(* SequentialMode.get_parameters_item: {**defaults, **{key: value}}; `get` = processor.get *)
Definition seq_defaults (get : string -> pval) (en : list param) : assignment :=
  map (fun k => (k, get k)) (unique (map p_key en)).

Definition sequential_runs (get : string -> pval) (ps : list param) : list run :=
  let en := enabled ps in
  let dflt := seq_defaults get en in
  map (fun nc => mkRun (fst nc) [fst nc] (dict_set (fst (snd nc)) (snd (snd nc)) dflt))
      (enumerate_from 0 (seq_changes en)).

(* CustomMode._custom_parameters, one row: columns are consumed in declaration order;
   a literal list is refused (ValueError) *)
Fixpoint custom_row (en : list param) (row : list Z) (i : nat) : option (list (string * pval)) :=
  match en with
  | [] => Some []
  | p :: rest =>
      match p_values p with
      | Under => option_map (cons (p_key p, Sc (nth i row 0%Z))) (custom_row rest row (i + 1))
      | Unders n => option_map (cons (p_key p, Vec (firstn n (skipn i row)))) (custom_row rest row (i + n))
      | Lit _ => None
      end
  end.

Fixpoint sum_nat (l : list nat) : nat := match l with [] => 0 | a :: t => a + sum_nat t end.

(* CustomMode.build: Counter(chain(values))["_"] *)
Definition count_ph (en : list param) : nat :=
  sum_nat (map (fun p => length (filter (fun v => pval_eqb v Ph) (piter p))) en).

Fixpoint all_some {A} (l : list (option A)) : option (list A) :=
  match l with
  | [] => Some []
  | None :: _ => None
  | Some a :: t => option_map (cons a) (all_some t)
  end.

(* None = refused (ValueError).  rows: the table after the column selection, ncols its width *)
Definition custom_runs (ncols : nat) (rows : list (list Z)) (ps : list param) : option (list run) :=
  let en := enabled ps in
  let c := count_ph en in
  if Nat.eqb c 0 || negb (Nat.eqb c ncols) then None
  else option_map (map (fun na => mkRun (fst na) [fst na] (dict_of (snd na))))
         (option_map (enumerate_from 0) (all_some (map (fun row => custom_row en row 0) rows))).

(* --------------------------------------------------------------------------------- specification *)

Fixpoint list_prod (l : list nat) : nat := match l with [] => 1 | a :: t => a * list_prod t end.

(* mixed-radix digits of n, first digit slowest (row-major) *)
Fixpoint unrank (dims : list nat) (n : nat) : list nat :=
  match dims with
  | [] => []
  | d :: ds => (n / list_prod ds) :: unrank ds (n mod list_prod ds)
  end.

Fixpoint rank (dims ix : list nat) : nat :=
  match dims, ix with
  | _ :: ds, i :: is => i * list_prod ds + rank ds is
  | _, _ => 0
  end.

Fixpoint pick (ix : list nat) (en : list param) : list pval :=
  match ix, en with
  | i :: is, p :: rest => nth i (piter p) Ph :: pick is rest
  | _, _ => []
  end.

(* the requested product space: run n has the index tuple `unrank dims n` and gives parameter k the
   element number i_k of its list *)
Definition spec_product (en : list param) : list run :=
  let dims := map plen en in
  map (fun n => let ix := unrank dims n in mkRun n ix (combine (map p_key en) (pick ix en)))
      (seq 0 (list_prod dims)).

(* defaults[k := v] *)
Definition override (dflt : assignment) (k : string) (v : pval) : assignment :=
  map (fun kv => if String.eqb k (fst kv) then (fst kv, v) else kv) dflt.

Definition spec_sequential_params (get : string -> pval) (en : list param) : list assignment :=
  List.concat (map (fun p => map (fun v => override (seq_defaults get en) (p_key p) v) (piter p)) en).

(* width of a placeholder parameter *)
Definition pwidth (p : param) : nat := plen p.
Definition is_placeholder (p : param) : bool :=
  match p_values p with Lit _ => false | _ => true end.

Definition spec_custom_value (p : param) (off : nat) (row : list Z) : pval :=
  match p_values p with
  | Under => Sc (nth off row 0%Z)
  | _ => Vec (firstn (pwidth p) (skipn off row))
  end.

(* parameter k gets the columns [off_k, off_k + w_k), off_k = sum of the widths before it *)
Definition spec_custom_row (en : list param) (row : list Z) : assignment :=
  map (fun k => let p := nth k en (mkParam "" Under true) in
                (p_key p, spec_custom_value p (sum_nat (map pwidth (firstn k en))) row))
      (seq 0 (length en)).

(* ------------------------------------------------------------------------------------ source configuration
   What the translator (translator/c05.py) reads from the declarative parts of pyxel/observation/misc.py and
   observation.py; Gen_C05.src_cfg is regenerated from the source on every run and the model below is evaluated --
   and the theorems of Properties/C05.v are stated -- for that value. *)
Record cfg := mkCfg {
  (* _get_short_name_with_model: a key that does not have five dotted components keeps its full key
     (false: the 5-tuple unpacking raises ValueError) *)
  cf_name_fallback_full : bool;
  (* _get_short_dimension_names_new: names that are still shared after the <model>.<argument> fallback are
     replaced by the full key (false: they stay shared) *)
  cf_name_stage3 : bool;
  (* _add_custom_parameters: every vector-valued parameter is attached on its own dim_<n> (false: all on the
     anonymous dimension dim_0, so that different lengths cannot be merged) *)
  cf_custom_dims_distinct : bool;
  (* CustomMode.build: column_range=None means the whole table (false: DataFrame.loc[:, None] -> KeyError) *)
  cf_custom_range_optional : bool;
  (* convert_custom_data (dask path) reads the selected columns by position (false: by the labels 0,1,..) *)
  cf_dask_custom_positional : bool;
  (* convert_custom_data hands over the bare number only for the placeholder "_" itself (false: for every
     parameter with exactly one placeholder, also the one-element list ["_"]) *)
  cf_dask_custom_scalar_is_placeholder : bool;
  (* ProductMode.create_params de-duplicates every value list (first occurrences) before building the MultiIndex
     (false: a repeated value makes pandas refuse the non-unique MultiIndex) *)
  cf_dask_product_dedup : bool;
  (* SequentialMode.create_params builds its rows from get_parameters_item(processor): one parameter at a time,
     the others at their configured values (false: the value lists are zipped, DESIGN F12) *)
  cf_dask_sequential_rows : bool;
  (* Observation._get_parameter_types builds the key -> type dict of the CURRENT enabled steps on every run (false:
     it updates the dict it keeps in Observation.parameter_types, so keys of an earlier run of the same Observation
     object stay in it and take part in the naming and, on the dask path, in the pairing of keys and values) *)
  cf_types_fresh : bool
}.

(* the tree the framework was built on (round 1) and the tree with the round-2 repairs *)
Definition cfg_round1 : cfg := mkCfg false false false false false false false false false.
(* the round-2 repairs of C05; the two dask defects repaired under C07 are separate flags *)
Definition cfg_repaired : cfg := mkCfg true true true true true true false false false.
(* ... with the repairs of C07: the tree the second pass of round 2 started from (parameter_types accumulates) *)
Definition cfg_stale_types : cfg := mkCfg true true true true true true true true false.
Definition cfg_all_repaired : cfg := mkCfg true true true true true true true true true.

(* ------------------------------------------------------------------------------------ dimension names *)

Fixpoint split_dot_aux (s : string) (cur : string) : list string :=
  match s with
  | EmptyString => [cur]
  | String c s' => if Ascii.eqb c "."%char then cur :: split_dot_aux s' ""
                   else split_dot_aux s' (cur ++ String c "")
  end.
Definition split_dot (s : string) : list string := split_dot_aux s "".

(* short() with the readout-time special case *)
Definition short_of (key : string) : string :=
  if String.eqb key "observation.readout.times" then "readout_time"
  else last (split_dot key) "".

(* _get_short_name_with_model: "<model>.<argument>" of a key with exactly five components; any other key:
   the key itself (repaired) or ValueError (None) *)
Definition with_model (c : cfg) (key : string) : option string :=
  match split_dot key with
  | [_; _; m; _; p] => Some (m ++ "." ++ p)
  | _ => if cf_name_fallback_full c then Some key else None
  end.

Fixpoint count_str (s : string) (l : list string) : nat :=
  match l with [] => 0 | a :: t => (if String.eqb s a then 1 else 0) + count_str s t end.

Fixpoint all_some_pairs {A B} (l : list (A * option B)) : option (list (A * B)) :=
  match l with
  | [] => Some []
  | (_, None) :: _ => None
  | (a, Some b) :: t => option_map (cons (a, b)) (all_some_pairs t)
  end.

(* first two stages of _get_short_dimension_names_new: the last component; if that is shared, the
   fallback of _get_short_name_with_model *)
Definition name2 (c : cfg) (shorts : list string) (k : string) : option string :=
  if Nat.ltb 1 (count_str (short_of k) shorts) then with_model c k else Some (short_of k).

Definition dim_names2 (c : cfg) (keys : list string) : option (list (string * string)) :=
  all_some_pairs (map (fun k => (k, name2 c (map short_of keys) k)) keys).

(* third stage (repaired code): a name that is still shared is replaced by the full key *)
Definition stage3 (c : cfg) (m : list (string * string)) : list (string * string) :=
  if cf_name_stage3 c
  then map (fun kn => (fst kn, if Nat.ltb 1 (count_str (snd kn) (map snd m)) then fst kn else snd kn)) m
  else m.

(* _get_short_dimension_names_new over the keys of `types` (a dict: distinct keys, in order) *)
Definition dim_names (c : cfg) (keys : list string) : option (list (string * string)) :=
  option_map (stage3 c) (dim_names2 c keys).

(* ------------------------------------------------------------------------------------ labels, result *)

Inductive ptype := Simple | Multi.

Definition is_seq (v : pval) : bool := match v with Sc _ => false | _ => true end.
(* Vec -> a nested sequence; Ph -> "_" : both make the parameter Multi *)

Definition ptype_of (p : param) : ptype :=
  match p_values p with
  | Lit vs => if existsb is_seq vs then Multi else Simple
  | _ => Multi
  end.

(* `types` dict built by update over the enabled steps *)
Definition types_of (en : list param) : list (string * ptype) :=
  dict_of (map (fun p => (p_key p, ptype_of p)) en).

Inductive lab := LV (v : pval) | LI (i : nat).

Definition lab_eqb (a b : lab) : bool :=
  match a, b with
  | LV x, LV y => pval_eqb x y
  | LI x, LI y => Nat.eqb x y
  | _, _ => false
  end.

Definition label := list (string * lab).     (* coordinate name -> value, for one result entry *)

Definition item_eqb (a b : string * lab) : bool := String.eqb (fst a) (fst b) && lab_eqb (snd a) (snd b).

Definition subset {A} (eqb : A -> A -> bool) (a b : list A) : bool :=
  forallb (fun x => existsb (eqb x) b) a.
Definition set_eqb {A} (eqb : A -> A -> bool) (a b : list A) : bool := subset eqb a b && subset eqb b a.

Definition label_eqb (a b : label) : bool := set_eqb item_eqb a b.
Definition entry_eqb (a b : label * Z) : bool := label_eqb (fst a) (fst b) && Z.eqb (snd a) (snd b).

Definition name_of (names : list (string * string)) (k : string) : string :=
  match dict_get k names with Some d => d | None => "?" end.
Definition type_of (types : list (string * ptype)) (k : string) : ptype :=
  match dict_get k types with Some t => t | None => Simple end.

(* _add_product_parameters: the dimensions a run is expanded by, and its coordinates *)
Fixpoint product_label names types (ix : list nat) (params : assignment) : label :=
  match ix, params with
  | i :: is, (k, v) :: rest =>
      match type_of types k with
      | Simple => (name_of names k, LV v) :: product_label names types is rest
      | Multi => (name_of names k ++ "_id", LI i) :: (name_of names k, LV v) :: product_label names types is rest
      end
  | _, _ => []
  end.

Fixpoint product_dims names types (ix : list nat) (params : assignment) : list string :=
  match ix, params with
  | i :: is, (k, v) :: rest =>
      (match type_of types k with Simple => name_of names k | Multi => name_of names k ++ "_id" end)
      :: product_dims names types is rest
  | _, _ => []
  end.

(* _add_custom_parameters: id, then assign_coords per key (a later equal name overwrites) *)
Definition custom_label names (index : nat) (params : assignment) : label :=
  ("id", LI index) :: map (fun nv => (fst nv, LV (snd nv)))
                          (dict_of (map (fun kv => (name_of names (fst kv), snd kv)) params)).

Fixpoint str_nodup (l : list string) : bool :=
  match l with [] => true | a :: t => negb (existsb (String.eqb a) t) && str_nodup t end.

Definition reserved_dims : list string := ["time"; "y"; "x"].

(* the flattened numbers a run's observed settings carry *)
Definition flat_of (v : pval) : list Z := match v with Sc z => [z] | Vec l => l | Ph => [(-1)%Z] end.

(* what the probe writes: base-64 positional code of the received values *)
Definition encode (flat : list Z) : Z := fold_right (fun x acc => (x + 64 * acc)%Z) 0%Z flat.

(* slots = the settings the probes look at: (key, configured value), in observation order *)
Definition received (slots : assignment) (params : assignment) : list pval :=
  map (fun kd => match dict_get (fst kd) params with Some v => v | None => snd kd end) slots.

Definition data_of (slots params : assignment) : Z := encode (flat_map flat_of (received slots params)).

(* xr.merge of the per-run trees: entries with the same labels must agree *)
Fixpoint lookup (l : label) (es : list (label * Z)) : option Z :=
  match es with
  | [] => None
  | (l', d) :: t => if label_eqb l l' then Some d else lookup l t
  end.

Fixpoint assemble (es : list (label * Z)) : option (list (label * Z)) :=
  match es with
  | [] => Some []
  | (l, d) :: t =>
      match assemble t with
      | None => None
      | Some r => match lookup l r with
                  | None => Some ((l, d) :: r)
                  | Some d' => if Z.eqb d d' then Some r else None
                  end
      end
  end.

Definition vec_lens (params : assignment) : list nat :=
  flat_map (fun kv => match snd kv with Vec l => [length l] | _ => [] end) params.

Fixpoint all_eq_nat (l : list nat) : bool :=
  match l with a :: ((b :: _) as t) => Nat.eqb a b && all_eq_nat t | _ => true end.

(* ------------------------------------------------------------------------------------ whole observation *)

Inductive omode := Product | Sequential | Custom.

Definition has_ph (p : param) : bool := existsb (fun v => pval_eqb v Ph) (piter p).

(* DataFrame.loc[:, slice(lo, hi)] on integer column labels: both ends included *)
Definition select_cols (lo hi : nat) (row : list Z) : list Z := firstn (hi + 1 - lo) (skipn lo row).

Definition default_of (slots : assignment) (k : string) : pval :=
  match dict_get k slots with Some v => v | None => Sc 0 end.

(* CustomMode.build: the table after the column selection; None = KeyError *)
Definition custom_table (cf : cfg) (table : list (list Z)) (range : option (nat * nat)) : option (list (list Z)) :=
  match range with
  | Some (lo, hi) => Some (map (select_cols lo hi) table)
  | None => if cf_custom_range_optional cf then Some table else None
  end.

Record outcome := mkOutcome {
  oc_runs : list (list pval);          (* per executed run, in order: the values of all slots *)
  oc_result : list (label * Z)         (* the assembled result: labels -> data *)
}.

(* the observation as coded (sequential, non-dask path).  None = an exception is raised. *)
Definition observe (cf : cfg) (m : omode) (ps : list param) (slots : assignment) (table : list (list Z))
           (range : option (nat * nat)) : option outcome :=
  let en := enabled ps in
  let keys := unique (map p_key en) in
  let types := types_of en in
  match m with
  | Product =>
      if existsb has_ph en then None else
      match dim_names cf keys with
      | None => None
      | Some names =>
          let runs := product_runs ps in
          if forallb (fun r => let ds := product_dims names types (r_index r) (r_params r) in
                               str_nodup (ds ++ reserved_dims)) runs
          then option_map (mkOutcome (map (fun r => received slots (r_params r)) runs))
                 (assemble (map (fun r => (product_label names types (r_index r) (r_params r),
                                           data_of slots (r_params r))) runs))
          else None
      end
  | Sequential =>
      if existsb has_ph en then None else
      match dim_names cf keys with
      | None => None
      | Some names =>
          let runs := sequential_runs (default_of slots) ps in
          if cf_custom_dims_distinct cf || all_eq_nat (flat_map (fun r => vec_lens (r_params r)) runs)
          then option_map (mkOutcome (map (fun r => received slots (r_params r)) runs))
                 (assemble (map (fun r => (custom_label names (hd 0 (r_index r)) (r_params r),
                                           data_of slots (r_params r))) runs))
          else None
      end
  | Custom =>
      match custom_table cf table range with
      | None => None                                         (* .loc[:, None] -> KeyError *)
      | Some rows =>
          match custom_runs (length (hd [] rows)) rows ps with
          | None => None
          | Some runs =>
              match dim_names cf keys with
              | None => None
              | Some names =>
                  if cf_custom_dims_distinct cf || all_eq_nat (flat_map (fun r => vec_lens (r_params r)) runs)
                  then option_map (mkOutcome (map (fun r => received slots (r_params r)) runs))
                         (assemble (map (fun r => (custom_label names (hd 0 (r_index r)) (r_params r),
                                                   data_of slots (r_params r))) runs))
                  else None
              end
          end
      end
  end.

(* ------------------------------------------------------------------------------------ the dask path
   with_dask=True: <Mode>.create_params(dim_names) builds the array of parameter tuples, and
   observation_dask.run_pipelines_with_dask runs one pipeline per cell (processor.replace(dict(zip(
   dim_names, cell)))) and stores its buckets in the cell, whose coordinates are the labels. *)

Fixpoint pvals_nodup (l : list pval) : bool :=
  match l with [] => true | a :: t => negb (existsb (pval_eqb a) t) && pvals_nodup t end.

(* order of a pandas level: numbers by value, tuples lexicographically *)
Fixpoint listZ_leb (a b : list Z) : bool :=
  match a, b with
  | [], _ => true
  | _ :: _, [] => false
  | x :: a', y :: b' => if Z.ltb x y then true else if Z.ltb y x then false else listZ_leb a' b'
  end.
Definition pval_leb (a b : pval) : bool :=
  match a, b with
  | Sc x, Sc y => Z.leb x y
  | Vec x, Vec y => listZ_leb x y
  | Sc _, _ => true
  | Vec _, Ph => true
  | Ph, Ph => true
  | _, _ => false
  end.
Fixpoint insert_sorted (x : pval) (l : list pval) : list pval :=
  match l with
  | [] => [x]
  | y :: r => if pval_leb x y then x :: l else y :: insert_sorted x r
  end.
(* MultiIndex.levels: pandas keeps every level sorted *)
Definition sort_level (l : list pval) : list pval := fold_right insert_sorted [] l.

(* list(dict.fromkeys(l)): first occurrences, in order *)
Fixpoint dedup_pvals_aux (seen l : list pval) : list pval :=
  match l with
  | [] => []
  | a :: t => if existsb (pval_eqb a) seen then dedup_pvals_aux seen t else a :: dedup_pvals_aux (a :: seen) t
  end.
Definition dedup_pvals (l : list pval) : list pval := dedup_pvals_aux [] l.

(* all_steps = {step.key: list(step) for step in enabled_steps} *)
Definition dask_steps (en : list param) : list (string * list pval) :=
  dict_of (map (fun p => (p_key p, piter p)) en).

(* the coordinates of a cell of the product array: every parameter under its dimension name *)
Definition dask_product_label (names : list (string * string)) (params : assignment) : label :=
  map (fun kv => (name_of names (fst kv), LV (snd kv))) params.

(* ProductMode.create_params, generic in the order `norm` pandas gives each level:
   Series(list(mi), index=mi).to_xarray() -- the cell with coordinates (l_1[i_1], .., l_n[i_n]) holds
   exactly that tuple, l_k = norm(values_k) *)
Definition dask_product_cells (norm : list pval -> list pval) (steps : list (string * list pval))
  : list assignment :=
  map (fun vs => combine (map fst steps) vs) (iproduct (map (fun s => norm (snd s)) steps)).

(* SequentialMode.create_params: list(zip( *values )): truncated to the shortest list, every run sets
   ALL parameters (DESIGN F12) *)
Fixpoint zipn {A} (ls : list (list A)) : list (list A) :=
  match ls with
  | [] => []
  | [l] => map (fun x => [x]) l
  | l :: r => map (fun p => fst p :: snd p) (combine l (zipn r))
  end.

Definition dask_sequential_cells (steps : list (string * list pval)) : list assignment :=
  map (fun vs => combine (map fst steps) vs) (zipn (map snd steps)).

(* convert_custom_data: the single column as a number -- for a parameter with one placeholder
   (`len(params) == 1`, round 1) or for the placeholder "_" itself (`params == "_"`, repaired) --, else the
   tuple of the next len(params) columns; the steps are the enabled parameters in declaration order *)
Definition dask_scalar (cf : cfg) (p : param) : bool :=
  if cf_dask_custom_scalar_is_placeholder cf
  then match p_values p with Under => true | _ => false end
  else Nat.eqb (plen p) 1.

Fixpoint dask_custom_row (cf : cfg) (en : list param) (row : list Z) (i : nat) : assignment :=
  match en with
  | [] => []
  | p :: rest =>
      (p_key p, if dask_scalar cf p then Sc (nth i row 0%Z) else Vec (firstn (plen p) (skipn i row)))
      :: dask_custom_row cf rest row (i + plen p)
  end.

(* id coordinate + one coordinate per parameter (sequential and custom mode) *)
Definition dask_id_label (names : list (string * string)) (index : nat) (params : assignment) : label :=
  ("id", LI index) :: map (fun kv => (name_of names (fst kv), LV (snd kv))) params.

Definition dask_outcome (slots : assignment) (cells : list (label * assignment)) : option outcome :=
  option_map (mkOutcome (map (fun c => received slots (snd c)) cells))
             (assemble (map (fun c => (fst c, data_of slots (snd c))) cells)).

(* the value lists ProductMode.create_params hands to pandas *)
Definition dask_product_steps (cf : cfg) (steps : list (string * list pval)) : list (string * list pval) :=
  if cf_dask_product_dedup cf then map (fun s => (fst s, dedup_pvals (snd s))) steps else steps.

(* the rows of SequentialMode.create_params *)
Definition dask_seq_cells (cf : cfg) (get : string -> pval) (ps : list param) : list assignment :=
  if cf_dask_sequential_rows cf then map r_params (sequential_runs get ps)
  else dask_sequential_cells (dask_steps (enabled ps)).

(* the observation as coded, dask path.  None = an exception is raised.  oc_runs lists the cells (the
   order of execution is dask's business and is not compared). *)
Definition observe_dask (cf : cfg) (m : omode) (ps : list param) (slots : assignment) (table : list (list Z))
           (range : option (nat * nat)) : option outcome :=
  let en := enabled ps in
  let keys := unique (map p_key en) in
  let steps := dask_steps en in
  match m with
  | Product =>
      if existsb has_ph en then None else
      match dim_names cf keys with
      | None => None
      | Some names =>
          let steps' := dask_product_steps cf steps in
          if str_nodup (map (name_of names) keys ++ reserved_dims)
             && forallb (fun s => pvals_nodup (snd s)) steps'     (* non-unique MultiIndex: ValueError *)
          then dask_outcome slots (map (fun c => (dask_product_label names c, c))
                                       (dask_product_cells sort_level steps'))
          else None
      end
  | Sequential =>
      if existsb has_ph en then None else
      match dim_names cf keys with
      | None => None
      | Some names =>
          if str_nodup (map (name_of names) keys)                 (* non-unique DataFrame columns *)
          then dask_outcome slots (map (fun nc => (dask_id_label names (fst nc) (snd nc), snd nc))
                                       (enumerate_from 0 (dask_seq_cells cf (default_of slots) ps)))
          else None
      end
  | Custom =>
      match custom_table cf table range with
      | None => None
      | Some rows =>
          let lo := match range with Some (lo, _) => lo | None => 0 end in
          let ncols := length (hd [] rows) in
          let c := count_ph en in
          if Nat.eqb c 0 || negb (Nat.eqb c ncols) then None else
          match dim_names cf keys with
          | None => None
          | Some names =>
              if str_nodup (map (name_of names) keys)
                 && (cf_dask_custom_positional cf || Nat.eqb lo 0) (* custom_data[0]: KeyError if lo > 0 *)
                 && Nat.leb (sum_nat (map plen en)) ncols            (* the asserts *)
              then dask_outcome slots (map (fun nr => (dask_id_label names (fst nr)
                                                          (dask_custom_row cf en (snd nr) 0),
                                                        dask_custom_row cf en (snd nr) 0))
                                           (enumerate_from 0 rows))
              else None
          end
      end
  end.

(* multiset difference: l minus xs, None if an x is missing *)
Fixpoint remove_first {A} (eqb : A -> A -> bool) (x : A) (l : list A) : option (list A) :=
  match l with
  | [] => None
  | y :: t => if eqb x y then Some t else option_map (cons y) (remove_first eqb x t)
  end.
Fixpoint remove_all {A} (eqb : A -> A -> bool) (xs l : list A) : option (list A) :=
  match xs with
  | [] => Some l
  | x :: t => match remove_first eqb x l with None => None | Some l' => remove_all eqb t l' end
  end.

(* ------------------------------------------------------------------------------------ the specification
   (right-hand sides of the theorems) as bool functions over what the implementation did *)

(* the requested space as a list of assignments, by the spec functions only *)
Definition spec_space (m : omode) (en : list param) (slots : assignment) (rows : list (list Z))
  : list (nat * list nat * assignment) :=
  match m with
  | Product => map (fun r => (r_run_index r, r_index r, r_params r)) (spec_product en)
  | Sequential => map (fun na => (fst na, [fst na], snd na))
                      (enumerate_from 0 (spec_sequential_params (default_of slots) en))
  | Custom => map (fun nr => (fst nr, [fst nr], spec_custom_row en (snd nr))) (enumerate_from 0 rows)
  end.

(* is the request well-formed (must run) or must it be refused? *)
Definition spec_accepts (m : omode) (en : list param) (ncols : nat) : bool :=
  match m with
  | Custom => forallb is_placeholder en && negb (Nat.eqb (sum_nat (map pwidth en)) 0)
              && Nat.eqb (sum_nat (map pwidth en)) ncols
  | _ => negb (existsb has_ph en)
  end.

(* the label the spec expects for a run: every enabled parameter under its own name with the value
   it had (vector-valued product parameters also by position) *)
Definition spec_label (m : omode) (names : list (string * string)) (en : list param)
           (index : list nat) (params : assignment) : label :=
  match m with
  | Product =>
      flat_map (fun ikp => let '(i, p) := ikp in
                  let v := match dict_get (p_key p) params with Some v => v | None => Ph end in
                  match ptype_of p with
                  | Simple => [(name_of names (p_key p), LV v)]
                  | Multi => [(name_of names (p_key p) ++ "_id", LI i); (name_of names (p_key p), LV v)]
                  end) (combine index en)
  | _ => ("id", LI (hd 0 index)) :: map (fun kv => (name_of names (fst kv), LV (snd kv))) params
  end.

(* dask path: a cell of the product array is labelled by the values themselves (a vector-valued
   parameter by its tuple); sequential/custom cells by id and every parameter's value *)
Definition spec_label_dask (m : omode) (names : list (string * string)) (en : list param)
           (index : list nat) (params : assignment) : label :=
  match m with
  | Product =>
      map (fun p => (name_of names (p_key p),
                     LV (match dict_get (p_key p) params with Some v => v | None => Ph end))) en
  | _ => ("id", LI (hd 0 index)) :: map (fun kv => (name_of names (fst kv), LV (snd kv))) params
  end.

(* a label must name each coordinate once *)
Definition label_wf (l : label) : bool := str_nodup (map fst l).

Record observed := mkObserved {
  o_raised : bool;
  o_runs : list (list pval);
  o_result : list (label * Z)
}.

Record case := mkCase {
  c_mode : omode; c_params : list param; c_slots : assignment;
  c_table : list (list Z); c_range : option (nat * nat);
  c_dask : bool;                       (* with_dask=True (synchronous scheduler) *)
  c_obs : observed
}.

Fixpoint list_eqb {A} (eqb : A -> A -> bool) (a b : list A) : bool :=
  match a, b with
  | [], [] => true
  | x :: a', y :: b' => eqb x y && list_eqb eqb a' b'
  | _, _ => false
  end.

Definition runs_eqb := list_eqb (list_eqb pval_eqb).

(* dask path: every requested run is executed and nothing else is; the number of executions is at most the
   size of the requested space plus ONE (run_pipelines_with_dask runs the first cell once more to learn the
   shape of the output).  For a space without repeated elements this says: each requested run once, plus at
   most one repetition; a repeated element of the space (a value twice in a list) may be executed once. *)
Definition runs_dask_ok (obs expected : list (list pval)) : bool :=
  forallb (fun r => existsb (list_eqb pval_eqb r) obs) expected &&
  forallb (fun r => existsb (list_eqb pval_eqb r) expected) obs &&
  Nat.leb (length obs) (length expected + 1).

Definition case_rows (c : case) : list (list Z) :=
  match c_range c with
  | Some (lo, hi) => map (select_cols lo hi) (c_table c)
  | None => c_table c
  end.

Fixpoint labels_nodup (ls : list label) : bool :=
  match ls with [] => true | l :: t => negb (existsb (label_eqb l) t) && labels_nodup t end.

Definition spec_holds (cf : cfg) (c : case) : bool :=
  let en := enabled (c_params c) in
  let rows := case_rows c in
  let o := c_obs c in
  if negb (spec_accepts (c_mode c) en (length (hd [] rows))) then o_raised o
  else
    negb (o_raised o) &&
    let space := spec_space (c_mode c) en (c_slots c) rows in
    (* exactly the requested runs, in order, each with exactly its values *)
    (if c_dask c then runs_dask_ok (o_runs o) (map (fun s => received (c_slots c) (snd s)) space)
     else runs_eqb (o_runs o) (map (fun s => received (c_slots c) (snd s)) space)) &&
    (* every requested run is found under its own label and holds its own data; nothing else is stored *)
    match dim_names cf (unique (map p_key en)) with
    | None => false
    | Some names =>
        let want := map (fun s => ((if c_dask c then spec_label_dask else spec_label)
                                     (c_mode c) names en (snd (fst s)) (snd s),
                                   data_of (c_slots c) (snd s))) space in
        forallb (fun e => label_wf (fst e)) want &&
        forallb (fun e => match lookup (fst e) (o_result o) with
                          | Some d => Z.eqb d (snd e) | None => false end) want &&
        forallb (fun e => existsb (entry_eqb e) want) (o_result o) &&
        labels_nodup (map fst (o_result o))
    end.

(* ------------------------------------------------------------------------------------ case files *)

Definition outcome_agree (dask : bool) (m : option outcome) (o : observed) : bool :=
  match m with
  | None => o_raised o
  | Some oc => negb (o_raised o)
               && (if dask then runs_dask_ok (o_runs o) (oc_runs oc) else runs_eqb (o_runs o) (oc_runs oc))
               && set_eqb entry_eqb (o_result o) (oc_result oc)
               && Nat.eqb (length (o_result o)) (length (oc_result oc))
  end.

Definition model_of (cf : cfg) (c : case) : option outcome :=
  (if c_dask c then observe_dask else observe) cf (c_mode c) (c_params c) (c_slots c) (c_table c) (c_range c).

Fixpoint indices_where {A} (f : A -> bool) (l : list A) (i : Z) : list Z :=
  match l with
  | [] => []
  | a :: t => if f a then i :: indices_where f t (i + 1)%Z else indices_where f t (i + 1)%Z
  end.

Definition mismatches (cf : cfg) (cs : list case) : list Z :=
  indices_where (fun c => negb (outcome_agree (c_dask c) (model_of cf c) (c_obs c))) cs 0%Z.
Definition violations (cf : cfg) (cs : list case) : list Z :=
  indices_where (fun c => negb (spec_holds cf c)) cs 0%Z.

(* ------------------------------------------------------------------------------------ histories on ONE object
   The same Observation object (one parameter-mode object, one detector, one pipeline) is run, its configuration is
   edited in place, and it is run again.  The only attribute the run path writes is Observation.parameter_types (the
   translator fails closed on any other write, cached field or memoised helper): that dict is the hidden state `st`
   of the object as coded. *)

(* Observation._get_parameter_types: self.parameter_types.update({step.key: step.type}) over the enabled steps --
   into the dict kept from the earlier runs, or into a new one *)
Definition types_step (cf : cfg) (st : list (string * ptype)) (en : list param) : list (string * ptype) :=
  fold_left (fun d p => dict_set (p_key p) (ptype_of p) d) en (if cf_types_fresh cf then [] else st).

(* the non-dask path for a given `types` dict (its keys, in insertion order, are what gets a dimension name);
   `observe` is this function for the dict a new Observation object builds *)
Definition observe_gen (cf : cfg) (keys : list string) (types : list (string * ptype)) (m : omode) (ps : list param)
           (slots : assignment) (table : list (list Z)) (range : option (nat * nat)) : option outcome :=
  let en := enabled ps in
  match m with
  | Product =>
      if existsb has_ph en then None else
      match dim_names cf keys with
      | None => None
      | Some names =>
          let runs := product_runs ps in
          if forallb (fun r => let ds := product_dims names types (r_index r) (r_params r) in
                               str_nodup (ds ++ reserved_dims)) runs
          then option_map (mkOutcome (map (fun r => received slots (r_params r)) runs))
                 (assemble (map (fun r => (product_label names types (r_index r) (r_params r),
                                           data_of slots (r_params r))) runs))
          else None
      end
  | Sequential =>
      if existsb has_ph en then None else
      match dim_names cf keys with
      | None => None
      | Some names =>
          let runs := sequential_runs (default_of slots) ps in
          if cf_custom_dims_distinct cf || all_eq_nat (flat_map (fun r => vec_lens (r_params r)) runs)
          then option_map (mkOutcome (map (fun r => received slots (r_params r)) runs))
                 (assemble (map (fun r => (custom_label names (hd 0 (r_index r)) (r_params r),
                                           data_of slots (r_params r))) runs))
          else None
      end
  | Custom =>
      match custom_table cf table range with
      | None => None
      | Some rows =>
          match custom_runs (length (hd [] rows)) rows ps with
          | None => None
          | Some runs =>
              match dim_names cf keys with
              | None => None
              | Some names =>
                  if cf_custom_dims_distinct cf || all_eq_nat (flat_map (fun r => vec_lens (r_params r)) runs)
                  then option_map (mkOutcome (map (fun r => received slots (r_params r)) runs))
                         (assemble (map (fun r => (custom_label names (hd 0 (r_index r)) (r_params r),
                                                   data_of slots (r_params r))) runs))
                  else None
              end
          end
      end
  end.

(* the dask path when the keys of `types` are NOT the current keys in declaration order (only possible with a dict
   kept from earlier runs): _run_pipelines_array_to_datatree refuses a different number of keys
   (NotImplementedError) and otherwise pairs the keys IN THE ORDER OF `types` with the tuple of values that
   create_params built in declaration order: dict(zip(dimension_names, params_tuple)); the coordinates of the cell
   still carry the requested values *)
Definition rezip (keys : list string) (c : assignment) : assignment := combine keys (map snd c).

Definition dask_outcome_rz (slots : assignment) (keys : list string) (cells : list (label * assignment))
  : option outcome :=
  option_map (mkOutcome (map (fun c => received slots (rezip keys (snd c))) cells))
             (assemble (map (fun c => (fst c, data_of slots (rezip keys (snd c)))) cells)).

Definition observe_dask_gen (cf : cfg) (keys : list string) (m : omode) (ps : list param) (slots : assignment)
           (table : list (list Z)) (range : option (nat * nat)) : option outcome :=
  let en := enabled ps in
  let skeys := unique (map p_key en) in
  let steps := dask_steps en in
  if negb (Nat.eqb (length keys) (length skeys)) then None else
  match m with
  | Product =>
      if existsb has_ph en then None else
      match dim_names cf keys with
      | None => None
      | Some names =>
          let steps' := dask_product_steps cf steps in
          if str_nodup (map (name_of names) skeys ++ reserved_dims)
             && forallb (fun s => pvals_nodup (snd s)) steps'
          then dask_outcome_rz slots keys (map (fun c => (dask_product_label names c, c))
                                               (dask_product_cells sort_level steps'))
          else None
      end
  | Sequential =>
      if existsb has_ph en then None else
      match dim_names cf keys with
      | None => None
      | Some names =>
          if str_nodup (map (name_of names) skeys)
          then dask_outcome_rz slots keys (map (fun nc => (dask_id_label names (fst nc) (snd nc), snd nc))
                                               (enumerate_from 0 (dask_seq_cells cf (default_of slots) ps)))
          else None
      end
  | Custom =>
      match custom_table cf table range with
      | None => None
      | Some rows =>
          let lo := match range with Some (lo, _) => lo | None => 0 end in
          let ncols := length (hd [] rows) in
          let c := count_ph en in
          if Nat.eqb c 0 || negb (Nat.eqb c ncols) then None else
          match dim_names cf keys with
          | None => None
          | Some names =>
              if str_nodup (map (name_of names) skeys)
                 && (cf_dask_custom_positional cf || Nat.eqb lo 0)
                 && Nat.leb (sum_nat (map plen en)) ncols
              then dask_outcome_rz slots keys (map (fun nr => (dask_id_label names (fst nr)
                                                                  (dask_custom_row cf en (snd nr) 0),
                                                                dask_custom_row cf en (snd nr) 0))
                                                   (enumerate_from 0 rows))
              else None
          end
      end
  end.

(* the declared configuration of the object: what its public attributes say *)
Record conf := mkConf {
  f_mode : omode; f_params : list param; f_slots : assignment;
  f_table : list (list Z); f_range : option (nat * nat); f_dask : bool
}.

(* what a NEW object with this configuration does (the statement of every other theorem of C05 is about this) *)
Definition observe_conf (cf : cfg) (c : conf) : option outcome :=
  (if f_dask c then observe_dask else observe) cf (f_mode c) (f_params c) (f_slots c) (f_table c) (f_range c).

(* what the object as coded does when its parameter_types dict is `st` *)
Definition observe_conf_st (cf : cfg) (st : list (string * ptype)) (c : conf) : option outcome :=
  let en := enabled (f_params c) in
  let types := types_step cf st en in
  let keys := map fst types in
  if f_dask c
  then (if list_eqb String.eqb keys (unique (map p_key en))
        then observe_dask cf (f_mode c) (f_params c) (f_slots c) (f_table c) (f_range c)
        else observe_dask_gen cf keys (f_mode c) (f_params c) (f_slots c) (f_table c) (f_range c))
  else observe_gen cf keys types (f_mode c) (f_params c) (f_slots c) (f_table c) (f_range c).

(* validate_steps comes first: a placeholder outside custom mode is refused before parameter_types is touched *)
Definition types_next (cf : cfg) (st : list (string * ptype)) (c : conf) : list (string * ptype) :=
  let en := enabled (f_params c) in
  match f_mode c with
  | Custom => types_step cf st en
  | _ => if existsb has_ph en then st else types_step cf st en
  end.

(* edits of the configuration between two runs, through the public attributes: a configured value of the detector /
   a model argument; the parameter list of the mode object (value lists, enabled flags, order, members); the custom
   table / its columns; with_dask; the mode *)
Inductive edit :=
| ESlot (k : string) (v : pval)
| EParams (ps : list param)
| ETable (t : list (list Z)) (r : option (nat * nat))
| EDask (b : bool)
| EMode (m : omode).

Inductive hop := HRun | HEdit (e : edit).

Definition apply_edit (e : edit) (c : conf) : conf :=
  match e with
  | ESlot k v => mkConf (f_mode c) (f_params c) (override (f_slots c) k v) (f_table c) (f_range c) (f_dask c)
  | EParams ps => mkConf (f_mode c) ps (f_slots c) (f_table c) (f_range c) (f_dask c)
  | ETable t r => mkConf (f_mode c) (f_params c) (f_slots c) t r (f_dask c)
  | EDask b => mkConf (f_mode c) (f_params c) (f_slots c) (f_table c) (f_range c) b
  | EMode m => mkConf m (f_params c) (f_slots c) (f_table c) (f_range c) (f_dask c)
  end.

(* the object as coded over an op sequence: the outcome of every Run, in order *)
Fixpoint hist_run (cf : cfg) (st : list (string * ptype)) (c : conf) (ops : list hop) : list (option outcome) :=
  match ops with
  | [] => []
  | HRun :: r => observe_conf_st cf st c :: hist_run cf (types_next cf st c) c r
  | HEdit e :: r => hist_run cf st (apply_edit e c) r
  end.

(* the configuration at the time of every Run *)
Fixpoint run_confs (c : conf) (ops : list hop) : list conf :=
  match ops with
  | [] => []
  | HRun :: r => c :: run_confs c r
  | HEdit e :: r => run_confs (apply_edit e c) r
  end.

(* case files: a history is the list of its runs, each with the configuration at that time and what the
   implementation did *)
Definition conf_of_case (c : case) : conf :=
  mkConf (c_mode c) (c_params c) (c_slots c) (c_table c) (c_range c) (c_dask c).

Fixpoint hist_agree (cf : cfg) (st : list (string * ptype)) (cs : list case) : list bool :=
  match cs with
  | [] => []
  | c :: r => outcome_agree (c_dask c) (observe_conf_st cf st (conf_of_case c)) (c_obs c)
              :: hist_agree cf (types_next cf st (conf_of_case c)) r
  end.

(* (history number) * 100 + (run number) of every run where ... *)
Fixpoint hist_indices (f : list case -> list bool) (hs : list (list case)) (h : Z) : list Z :=
  match hs with
  | [] => []
  | cs :: t => indices_where (fun b : bool => negb b) (f cs) (h * 100)%Z ++ hist_indices f t (h + 1)%Z
  end.

(* ... the model of the object as coded and the implementation differ *)
Definition hist_mismatches (cf : cfg) (hs : list (list case)) : list Z := hist_indices (hist_agree cf []) hs 0%Z.
(* ... the implementation breaks the specification for the configuration AT THAT TIME *)
Definition hist_violations (cf : cfg) (hs : list (list case)) : list Z := hist_indices (map (spec_holds cf)) hs 0%Z.
