(* Executable model for C11 — calibration fitness is the declared figure of merit on the declared data.
     pyxel/calibration/util.py              check_fit_ranges, _check_out_fit_ranges, FitRange2D/3D.check
     pyxel/calibration/fitness.py           sum_of_abs_residuals, sum_of_squared_residuals, reduced_chi_squared
     pyxel/calibration/fitting_datatree.py  ModelFittingDataTree.__init__ / fitness / _get_simulated_data
     pyxel/calibration/archipelago_datatree.py  champions collected per evolution
   Definitions only (no proofs).  The comparisons of the range checker are a parameter (`checker`):
   the check instantiates them with the table regenerated from the source (Gen_C11.src_checker). *)
From Coq Require Import ZArith QArith Qabs List Bool.
Import ListNotations.
Open Scope Z_scope.

(* ====================================================================== 1. the range checker *)

Definition sl := (option Z * option Z)%type.            (* slice(start, stop); None = absent *)
Inductive fitrange := FR2 (row col : sl) | FR3 (time row col : sl).

Inductive side := Tgt | Out.
Inductive dim := DTime | DRow | DCol.
Inductive bound := BRows | BCols | BTimes.
Inductive expr :=
| EStart (s : side) (d : dim)            (* <range>.<dim>.start *)
| EStop (s : side) (d : dim)             (* <range>.<dim>.stop *)
| EBound (b : bound)                     (* rows / cols / readout_times *)
| ESub (a b : expr)                      (* a - b *)
| ERStart (s : side) (d : dim) (b : bound)   (* _bounds(<range>.<dim>, b)[0]: start, 0 when absent *)
| ERStop (s : side) (d : dim) (b : bound)    (* _bounds(<range>.<dim>, b)[1]: stop, b when absent *)
| EConst (z : Z).
Inductive cmp := CEq | CNe | CLe | CLt | CGe | CGt.
Inductive pre := PAlways | PBoth3D.      (* isinstance(target, FitRange3D) and isinstance(out, FitRange3D) and ... *)
Inductive guard :=
| GCmp (p : pre) (neg : bool) (a : expr) (c : cmp) (b : expr)   (* if p and [not] (a c b): raise ValueError *)
| GNone (b : bound).                                            (* if b is None: raise ValueError *)

(* target_first: check_fit_ranges validates the target range before it compares the two ranges *)
Record checker := { out_guards : list guard; check2d : list guard; check3d : list guard; target_first : bool }.

(* not 0 <= start <= stop <= size, as three guards (the chained comparison short-circuits the same way) *)
Definition tgt_block (d : dim) (b : bound) : list guard :=
  [ GCmp PAlways true (EConst 0) CLe (ERStart Tgt d b);
    GCmp PAlways true (ERStart Tgt d b) CLe (ERStop Tgt d b);
    GCmp PAlways true (ERStop Tgt d b) CLe (EBound b) ].
(* _length(<range>.<dim>, b) *)
Definition elen (s : side) (d : dim) (b : bound) : expr := ESub (ERStop s d b) (ERStart s d b).
Definition len_guard (p : pre) (d : dim) (b : bound) : guard := GCmp p false (elen Tgt d b) CNe (elen Out d b).

(* The table of the tree as repaired (fix: fit ranges compared by length, bounds validated, absent
   components resolved) = what translator/c11.py extracts from it.  The theorems of
   Proofs/FitnessChecker.v are about this table; Properties/C11.v shows that the regenerated table
   is this one. *)
Definition coded_checker : checker :=
  {| out_guards := [ len_guard PBoth3D DTime BTimes; len_guard PAlways DRow BRows; len_guard PAlways DCol BCols ];
     check2d := tgt_block DRow BRows ++ tgt_block DCol BCols;
     check3d := tgt_block DRow BRows ++ tgt_block DCol BCols ++ [GNone BTimes] ++ tgt_block DTime BTimes;
     target_first := true |}.

(* The table of the tree before that repair (end points compared instead of lengths, absent
   components not handled): kept for the witnesses of what the repair removed. *)
Definition legacy_checker : checker :=
  {| out_guards := [ GCmp PBoth3D false (EStop Tgt DTime) CNe (EStop Out DTime);
                     GCmp PAlways false (EStop Tgt DRow) CNe (EStop Out DRow);
                     GCmp PAlways false (EStop Tgt DCol) CNe (EStop Out DCol) ];
     check2d := [ GCmp PAlways true (EStop Tgt DRow) CLe (EBound BRows);
                  GCmp PAlways true (EStop Tgt DCol) CLe (EBound BCols) ];
     check3d := [ GCmp PAlways true (EStop Tgt DRow) CLe (EBound BRows);
                  GCmp PAlways true (EStop Tgt DCol) CLe (EBound BCols);
                  GNone BTimes;
                  GCmp PAlways true (EStop Tgt DTime) CLe (EBound BTimes) ];
     target_first := false |}.

(* Python values met by the comparisons *)
Inductive pv := PNone | PInt (z : Z) | PErr.     (* PErr: AttributeError / TypeError while evaluating *)

Record env := { e_tgt : fitrange; e_out : option fitrange; e_rows : Z; e_cols : Z; e_times : option Z }.

Definition get_sl (r : fitrange) (d : dim) : option sl :=
  match r, d with
  | FR2 r _, DRow => Some r | FR2 _ c, DCol => Some c | FR2 _ _, DTime => None
  | FR3 t _ _, DTime => Some t | FR3 _ r _, DRow => Some r | FR3 _ _ c, DCol => Some c
  end.

Definition pv_of (o : option Z) : pv := match o with Some z => PInt z | None => PNone end.

Definition side_range (e : env) (s : side) : option fitrange :=
  match s with Tgt => Some (e_tgt e) | Out => e_out e end.

Definition dflt (d : Z) (o : option Z) : Z := match o with Some z => z | None => d end.

Definition bound_pv (e : env) (b : bound) : pv :=
  match b with BRows => PInt (e_rows e) | BCols => PInt (e_cols e) | BTimes => pv_of (e_times e) end.

Fixpoint eval (e : env) (x : expr) : pv :=
  match x with
  | EStart s d => match side_range e s with
                  | Some r => match get_sl r d with Some p => pv_of (fst p) | None => PErr end
                  | None => PErr end
  | EStop s d => match side_range e s with
                 | Some r => match get_sl r d with Some p => pv_of (snd p) | None => PErr end
                 | None => PErr end
  | EBound b => bound_pv e b
  | ESub a b => match eval e a, eval e b with PInt x, PInt y => PInt (x - y) | _, _ => PErr end
  | ERStart s d _ => match side_range e s with
                     | Some r => match get_sl r d with Some p => PInt (dflt 0 (fst p)) | None => PErr end
                     | None => PErr end
  | ERStop s d b => match side_range e s with
                    | Some r => match get_sl r d with
                                | Some p => match snd p with Some z => PInt z | None => bound_pv e b end
                                | None => PErr end
                    | None => PErr end
  | EConst z => PInt z
  end.

(* None = the comparison raises (TypeError: '<=' not supported between NoneType and int) *)
Definition cmp_eval (c : cmp) (a b : pv) : option bool :=
  match a, b with
  | PErr, _ | _, PErr => None
  | PInt x, PInt y =>
      Some match c with CEq => x =? y | CNe => negb (x =? y) | CLe => x <=? y | CLt => x <? y
                   | CGe => y <=? x | CGt => y <? x end
  | PNone, PNone => match c with CEq => Some true | CNe => Some false | _ => None end
  | _, _ => match c with CEq => Some false | CNe => Some true | _ => None end
  end.

Inductive outcome := Accept | Reject | Crash.   (* returns / raises ValueError / raises something else *)

Definition is3d (r : fitrange) : bool := match r with FR3 _ _ _ => true | _ => false end.

Definition pre_holds (e : env) (p : pre) : bool :=
  match p with
  | PAlways => true
  | PBoth3D => is3d (e_tgt e) && match e_out e with Some o => is3d o | None => false end
  end.

(* Pass = None *)
Definition run_guard (e : env) (g : guard) : option outcome :=
  match g with
  | GNone BTimes => match e_times e with None => Some Reject | Some _ => None end
  | GNone _ => None
  | GCmp p neg a c b =>
      if pre_holds e p then
        match cmp_eval c (eval e a) (eval e b) with
        | None => Some Crash
        | Some v => if xorb neg v then Some Reject else None
        end
      else None
  end.

Fixpoint run_guards (e : env) (gs : list guard) : option outcome :=
  match gs with
  | [] => None
  | g :: r => match run_guard e g with Some o => Some o | None => run_guards e r end
  end.

(* check_fit_ranges(target_fit_range, out_fit_range, rows, cols, readout_times) *)
Definition check (ck : checker) (t o : option fitrange) (rows cols : Z) (times : option Z) : outcome :=
  match t with
  | None => Accept                                      (* if not target_fit_range: return *)
  | Some tm =>
      let e := {| e_tgt := tm; e_out := o; e_rows := rows; e_cols := cols; e_times := times |} in
      let og := match o with Some _ => run_guards e (out_guards ck) | None => None end in
      let tg := run_guards e (if is3d tm then check3d ck else check2d ck) in
      match (if target_first ck then tg else og) with
      | Some r => r
      | None => match (if target_first ck then og else tg) with Some r => r | None => Accept end
      end
  end.

(* ---- the specification: equal extents in every compared dimension, target range inside the target *)

Definition resolve (n : Z) (s : sl) : Z * Z := (dflt 0 (fst s), dflt n (snd s)).

Definition dim_ok (n : Z) (t o : sl) : bool :=
  let '(ts, te) := resolve n t in
  let '(os, oe) := resolve n o in
  (0 <=? ts) && (ts <=? te) && (te <=? n) && (0 <=? os) && (os <=? oe) && (te - ts =? oe - os).

Definition spec_ok (t o : fitrange) (rows cols : Z) (times : option Z) : bool :=
  match t, o with
  | FR2 tr tc, FR3 _ orow ocol => dim_ok rows tr orow && dim_ok cols tc ocol
  | FR3 tm tr tc, FR3 ot orow ocol =>
      match times with
      | None => false
      | Some n => dim_ok n tm ot && dim_ok rows tr orow && dim_ok cols tc ocol
      end
  | _, FR2 _ _ => false
  end.

(* the quantifier domain: declared numbers are ordered and non-negative *)
Definition wf_sl (s : sl) : bool :=
  match s with
  | (Some a, Some b) => (0 <=? a) && (a <=? b)
  | (Some a, None) => 0 <=? a
  | (None, Some b) => 0 <=? b
  | (None, None) => true
  end.
Definition wf_range (r : fitrange) : bool :=
  match r with FR2 a b => wf_sl a && wf_sl b | FR3 t a b => wf_sl t && wf_sl a && wf_sl b end.
Definition wf_times (t : option Z) : bool := match t with Some n => 0 <=? n | None => true end.

Definition in_domain (t o : fitrange) (rows cols : Z) (times : option Z) : bool :=
  wf_range t && wf_range o && is3d o && (0 <=? rows) && (0 <=? cols) && wf_times times.

(* ---- case files of the checker correspondence *)
Record ck_case := { ck_t : option fitrange; ck_o : option fitrange; ck_rows : Z; ck_cols : Z;
                    ck_times : option Z; ck_obs : outcome }.

Definition outcome_eqb (a b : outcome) : bool :=
  match a, b with Accept, Accept | Reject, Reject | Crash, Crash => true | _, _ => false end.

Fixpoint indices_where {A} (f : A -> bool) (l : list A) (i : Z) : list Z :=
  match l with
  | [] => []
  | x :: r => if f x then i :: indices_where f r (i + 1) else indices_where f r (i + 1)
  end.

Definition ck_mismatch (ck : checker) (c : ck_case) : bool :=
  negb (outcome_eqb (check ck (ck_t c) (ck_o c) (ck_rows c) (ck_cols c) (ck_times c)) (ck_obs c)).
Definition ck_mismatches (ck : checker) (cs : list ck_case) : list Z := indices_where (ck_mismatch ck) cs 0.

(* the implementation's verdict judged against the specification (only inside the domain) *)
Definition ck_violation (c : ck_case) : bool :=
  match ck_t c, ck_o c with
  | Some t, Some o =>
      in_domain t o (ck_rows c) (ck_cols c) (ck_times c)
      && negb (Bool.eqb (outcome_eqb (ck_obs c) Accept) (spec_ok t o (ck_rows c) (ck_cols c) (ck_times c)))
  | _, _ => false
  end.
Definition ck_violations (cs : list ck_case) : list Z := indices_where ck_violation cs 0.

(* ====================================================================== 2. fitness *)

Open Scope Q_scope.

Definition cell := option Q.                 (* None = NaN (skipped by nansum) *)
Definition frame := list cell.               (* a flattened, already restricted array *)

Inductive fres := RVal (q : Q) | RInf | RRaise.

Definition nansum (l : list cell) : Q :=
  fold_right (fun c acc => match c with Some v => v + acc | None => acc end) 0 l.

Fixpoint zip3 (a b c : frame) : list (cell * cell * cell) :=
  match a, b, c with
  | x :: a', y :: b', z :: c' => (x, y, z) :: zip3 a' b' c'
  | _, _, _ => []
  end.

Definition lift3 (f : Q -> Q -> Q -> cell) (x : cell * cell * cell) : cell :=
  match x with (Some s, Some t, Some w) => f s t w | _ => None end.

(* diff = target - simulated; diff *= weighting; nansum(abs(diff)) *)
Definition abs_term (s t w : Q) : cell := Some (Qabs ((t - s) * w)).
Definition f_abs (s t w : frame) : fres := RVal (nansum (map (lift3 abs_term) (zip3 s t w))).

(* diff*diff; *= weighting; nansum *)
Definition sq_term (s t w : Q) : cell := Some ((t - s) * (t - s) * w).
Definition f_sq (s t w : frame) : fres := RVal (nansum (map (lift3 sq_term) (zip3 s t w))).

(* np.square(diff / weighting): x/0 is NaN for x = 0 and +-inf otherwise *)
Inductive dev := DVal (q : Q) | DNan | DInf.
Definition chi_dev (x : cell * cell * cell) : dev :=
  match x with
  | (Some s, Some t, Some w) =>
      if Qeq_bool w 0 then (if Qeq_bool (t - s) 0 then DNan else DInf)
      else DVal (((t - s) / w) * ((t - s) / w))
  | _ => DNan
  end.
Definition diff_finite (x : cell * cell * cell) : bool :=
  match x with (Some _, Some _, _) => true | _ => false end.
Definition is_inf (d : dev) : bool := match d with DInf => true | _ => false end.
Definition dev_cell (d : dev) : cell := match d with DVal q => Some q | _ => None end.

Definition f_chi (free : Z) (s t w : frame) : fres :=
  let z := zip3 s t w in
  let dof := (Z.of_nat (length (filter diff_finite z)) - free)%Z in
  if (dof =? 0)%Z then RRaise                                  (* ZeroDivisionError *)
  else let ds := map chi_dev z in
       if existsb is_inf ds then RInf
       else RVal (nansum (map dev_cell ds) / inject_Z dof).

Inductive fitfun := FAbs | FSq | FChi (free : Z).
Definition apply_ff (f : fitfun) : frame -> frame -> frame -> fres :=
  match f with FAbs => f_abs | FSq => f_sq | FChi k => f_chi k end.

(* ---- slicing (Python semantics of slice(start, stop) on an axis of length n) *)
Definition norm_idx (n i : Z) : Z := if (i <? 0)%Z then Z.max (i + n) 0 else Z.min i n.
Definition slice1 {A} (s : sl) (l : list A) : list A :=
  let n := Z.of_nat (length l) in
  let a := norm_idx n (dflt 0 (fst s)) in
  let b := norm_idx n (dflt n (snd s)) in
  firstn (Z.to_nat (b - a)) (skipn (Z.to_nat a) l).

Definition frame3 := list (list (list cell)).     (* time, y, x *)
Definition slice2 (r c : sl) (f : list (list cell)) : list (list cell) := map (slice1 c) (slice1 r f).
Definition slice3 (t r c : sl) (f : frame3) : frame3 := map (slice2 r c) (slice1 t f).
Definition flat3 (f : frame3) : frame := concat (concat f).
Definition shape3 (f : frame3) : list nat := [length f; length (hd [] f); length (hd [] (hd [] f))].

(* ---- the accumulation loop of ModelFittingDataTree.fitness, abstract in the per-pair term *)
Section Loop.
  Context {A B : Type}.
  Variable term : nat -> A -> B -> fres.     (* term k sim_k tgt_k; the weight of pair k is inside *)

  Fixpoint acc_loop (k : nat) (l : list (A * B)) (acc : Q) : fres :=
    match l with
    | [] => RVal acc
    | (a, b) :: r => match term k a b with RVal v => acc_loop (S k) r (acc + v) | e => e end
    end.

  (* for processor_id, (processor, target) in enumerate(zip(processors, targets, strict=False)) *)
  Definition fitness_loop (sims : list A) (tgts : list B) : fres := acc_loop 0 (combine sims tgts) 0.

  (* the declared pairing: target k with the k-th input-argument set; with a single processor
     (no input arguments) every target is compared with that processor *)
  Definition pick_sim (sims : list A) (k : nat) : option A :=
    match sims with [s] => Some s | _ => nth_error sims k end.

  Fixpoint declared_from (sims : list A) (k : nat) (tgts : list B) (acc : Q) : fres :=
    match tgts with
    | [] => RVal acc
    | t :: r => match pick_sim sims k with
                | None => RRaise
                | Some s => match term k s t with RVal v => declared_from sims (S k) r (acc + v) | e => e end
                end
    end.
  Definition declared_sum (sims : list A) (tgts : list B) : fres := declared_from sims 0 tgts 0.
End Loop.

Definition qsum (n : nat) (v : nat -> Q) : Q := fold_right (fun i acc => v i + acc) 0 (seq 0 n).

Definition fres_eq (a b : fres) : Prop :=
  match a, b with RVal x, RVal y => x == y | RInf, RInf => True | RRaise, RRaise => True | _, _ => False end.
Definition fres_eqb (a b : fres) : bool :=
  match a, b with RVal x, RVal y => Qeq_bool x y | RInf, RInf => true | RRaise, RRaise => true | _, _ => false end.

(* ---- which quantities ModelFittingDataTree.__init__ passes to check_fit_ranges as rows / cols /
   readout_times (regenerated from the two call sites: Gen_C11.src_calls) *)
Inductive qty :=
| QTgt (d : dim)        (* the size of the target data read from file along d: len(targets["y"]) ... *)
| QDet (d : dim)        (* the size of the simulated frame along d: detector geometry / len(readout.times) *)
| QAbsent.              (* not passed (readout_times of the single-readout call) *)
Record callsite := { cs_rows : qty; cs_cols : qty; cs_times : qty }.
Record calls := { call_single : callsite; call_multi : callsite }.

(* the unchanged tree: always the size of the TARGET *)
Definition coded_calls : calls :=
  {| call_single := {| cs_rows := QTgt DRow; cs_cols := QTgt DCol; cs_times := QAbsent |};
     call_multi := {| cs_rows := QTgt DRow; cs_cols := QTgt DCol; cs_times := QTgt DTime |} |}.

(* ---- how the declared weights reach the fitness function (regenerated: Gen_C11.src_weights):
   is _configure_weights called for single-readout / time-domain targets, and to which shape is a
   scalar weight expanded in ModelFittingDataTree.fitness *)
Inductive wshape := ShTarget | ShDetector.    (* target_data.shape / (geometry.row, geometry.col) *)
(* wc_time_key: the target data and the weights read from file are restricted with the time component
   of a 3-D target range under THEIR dimension name 'readout_time' (otherwise isel raises) *)
Record wconf := { wc_single : bool; wc_multi : bool; wc_shape : wshape; wc_time_key : bool }.
Definition coded_wconf : wconf :=
  {| wc_single := true; wc_multi := true; wc_shape := ShTarget; wc_time_key := true |}.
(* the tree before the repairs: weights dropped for time-domain targets, detector-shaped scalar
   weights, 3-D target ranges unusable *)
Definition legacy_wconf : wconf :=
  {| wc_single := true; wc_multi := false; wc_shape := ShDetector; wc_time_key := false |}.

(* ---- the problem object *)
Inductive wspec := WNone | WScalar (ws : list Q) | WFile (fs : list frame3).

Record fconf := {
  fc_ff : fitfun;
  fc_multi : bool;                 (* readout.time_domain_simulation *)
  fc_trng : fitrange;              (* target_fit_range *)
  fc_orng : fitrange;              (* out_fit_range (FitRange3D) *)
  fc_drows : Z; fc_dcols : Z;      (* detector geometry *)
  fc_w : wspec;
  fc_tgts : list frame3;           (* target files (single readout: one time step) *)
  fc_bypass : bool                 (* harness replaced check_fit_ranges by a no-op *)
}.

Definition ones (n : nat) : frame := repeat (Some 1) n.

(* weights of pair k as the code builds them (w = what _configure_weights kept) *)
Definition out_slices (o : fitrange) : sl * sl * sl :=
  match o with FR3 t r c => (t, r, c) | FR2 r c => ((None, None), r, c) end.

Definition weight_coded (c : fconf) (w : wspec) (k : nat) (n : nat) (trng : fitrange) : option frame :=
  let '(tm, tr, tc) := out_slices trng in
  match w with
  | WNone => Some (ones n)
  | WScalar ws => match nth_error ws k with Some q => Some (repeat (Some q) n) | None => None end
  | WFile fs => match nth_error fs k with
                | Some f => Some (flat3 (slice3 tm tr tc f))      (* weights.isel(target range) *)
                | None => None
                end
  end.

Definition tshape (c : fconf) : list nat := shape3 (hd [] (fc_tgts c)).

Inductive fobs := OCtor | ORaise | OInf | OVal (q : Q) | OUndef.
(* OCtor: the constructor raised; ORaise: fitness raised; OUndef: outside the model (shapes differ) *)

Definition term_coded (c : fconf) (w : wspec) (k : nat) (sim tgt : frame3) : fres :=
  let '(ot, orow, ocol) := out_slices (fc_orng c) in
  let s := flat3 (slice3 ot orow ocol sim) in
  let t := flat3 tgt in
  match weight_coded c w k (length t) (fc_trng c) with
  | None => RRaise
  | Some wf => apply_ff (fc_ff c) s t wf
  end.

Definition fobs_of (r : fres) : fobs := match r with RVal q => OVal q | RInf => OInf | RRaise => ORaise end.

Fixpoint shape_eqb (a b : list nat) : bool :=
  match a, b with
  | [], [] => true
  | x :: a', y :: b' => Nat.eqb x y && shape_eqb a' b'
  | _, _ => false
  end.

Definition nth_shape (l : list nat) (i : nat) : Z := Z.of_nat (nth i l 0%nat).

(* sizes along (time, y, x) *)
Definition dim_ix (d : dim) : nat := match d with DTime => 0%nat | DRow => 1%nat | DCol => 2%nat end.
Definition shape_dim (sh : list nat) (d : dim) : Z := nth_shape sh (dim_ix d).
(* the simulated frame of a processor: (len(readout.times), geometry.row, geometry.col) *)
Definition dshape (sims : list frame3) : list nat := shape3 (hd [] sims).

Definition qty_val (tsh dsh : list nat) (q : qty) : option Z :=
  match q with
  | QTgt d => Some (shape_dim tsh d)
  | QDet d => Some (shape_dim dsh d)
  | QAbsent => None
  end.

(* the call of check_fit_ranges made by the constructor *)
Definition ctor_check (ck : checker) (cl : calls) (c : fconf) (sims : list frame3) : outcome :=
  let cs := if fc_multi c then call_multi cl else call_single cl in
  let tsh := tshape c in
  let dsh := dshape sims in
  check ck (Some (fc_trng c)) (Some (fc_orng c))
        (dflt 0 (qty_val tsh dsh (cs_rows cs))) (dflt 0 (qty_val tsh dsh (cs_cols cs)))
        (qty_val tsh dsh (cs_times cs)).

(* problem = ModelFittingDataTree(...); problem.fitness(x), given the simulated frame of every processor *)
Definition weights_kept (wc : wconf) (c : fconf) : wspec :=
  if (if fc_multi c then wc_multi wc else wc_single wc) then fc_w c else WNone.

Definition model_fit (ck : checker) (cl : calls) (wc : wconf) (c : fconf) (sims : list frame3) : fobs :=
  (* a 3-D target range: readout_times=None -> ValueError for single-readout targets; without the
     'readout_time' key isel(time=...) raises on dims (processor, readout_time, y, x) *)
  if is3d (fc_trng c) && negb (wc_time_key wc && fc_multi c) then OCtor
  else
    let '(tm, tr, tc) := out_slices (fc_trng c) in
    match (if fc_bypass c then Accept else ctor_check ck cl c sims) with
    | Accept =>
        let w := weights_kept wc c in
        let tg := map (slice3 tm tr tc) (fc_tgts c) in            (* targets.isel(target range) *)
        let '(ot, orow, ocol) := out_slices (fc_orng c) in
        let shapes_agree :=
          forallb (fun st => let '(s, t) := st in
                   shape_eqb (shape3 (slice3 ot orow ocol s)) (shape3 t))
                  (combine sims tg) in
        let chi_scalar_sub :=
          (* a detector-shaped scalar weight cannot divide a smaller region (numpy broadcasting error) *)
          match wc_shape wc, fc_ff c, w with
          | ShDetector, FChi _, WScalar _ => negb ((nth_shape (shape3 (hd [] tg)) 1 =? fc_drows c)%Z
                                                   && (nth_shape (shape3 (hd [] tg)) 2 =? fc_dcols c)%Z)
          | _, _, _ => false
          end in
        if negb shapes_agree || chi_scalar_sub then OUndef
        else fobs_of (fitness_loop (term_coded c w) sims tg)
    | _ => OCtor
    end.

(* ---- the declared figure of merit (the specification): all targets, declared pairing, declared
   ranges on both sides, declared weights in every term, single- and multi-readout alike.
   None = the configuration has to be refused (ranges of different extent / outside the target). *)
Definition lift_t (r : fitrange) : sl * sl * sl := out_slices r.

Definition weight_declared (c : fconf) (k : nat) (n : nat) : option frame :=
  let '(tm, tr, tc) := lift_t (fc_trng c) in
  match fc_w c with
  | WNone => Some (ones n)
  | WScalar ws => match nth_error ws k with Some q => Some (repeat (Some q) n) | None => None end
  | WFile fs => match nth_error fs k with Some f => Some (flat3 (slice3 tm tr tc f)) | None => None end
  end.

Definition term_declared (c : fconf) (k : nat) (sim tgt : frame3) : fres :=
  let '(ot, orow, ocol) := out_slices (fc_orng c) in
  let '(tm, tr, tc) := lift_t (fc_trng c) in
  let s := flat3 (slice3 ot orow ocol sim) in
  let t := flat3 (slice3 tm tr tc tgt) in
  match weight_declared c k (length t) with
  | None => RRaise
  | Some wf => apply_ff (fc_ff c) s t wf
  end.

(* What the declared ranges ask for in one dimension, given the size nt of the target data and the
   size nd of the simulated frame along it (open components are resolved against the array they
   index).  MustReject: the target range exceeds the target, or the two ranges select regions of
   different extent.  DontCare: the result range runs past the simulated frame while the region it
   selects happens to have the target's extent (the declared lengths differ: refusing is fine,
   accepting is harmless). *)
Inductive verdict := MustAccept | MustReject | DontCare.

Definition sl_inside (n : Z) (s : sl) : bool :=
  let '(a, b) := resolve n s in ((0 <=? a) && (a <=? b) && (b <=? n))%Z.

Definition dim_verdict (nt nd : Z) (t o : sl) : verdict :=
  let '(ts, te) := resolve nt t in
  let '(os, oe) := resolve nd o in
  if negb (sl_inside nt t) then MustReject
  else if (oe <=? nd)%Z then (if (te - ts =? oe - os)%Z then MustAccept else MustReject)
  else if (te - ts =? Z.min oe nd - Z.min os nd)%Z then DontCare else MustReject.

Definition vand (a b : verdict) : verdict :=
  match a, b with
  | MustReject, _ | _, MustReject => MustReject
  | MustAccept, MustAccept => MustAccept
  | _, _ => DontCare
  end.

(* a 2-D target range leaves the time axis of the target whole; a 3-D target range on single-readout
   (2-D) target data is not judged *)
Definition fit_verdict (c : fconf) (sims : list frame3) : verdict :=
  let tsh := tshape c in
  let dsh := dshape sims in
  let dv d := dim_verdict (shape_dim tsh d) (shape_dim dsh d) in
  match fc_trng c, fc_orng c with
  | FR2 tr tc, FR3 ot orow ocol =>
      vand (dv DTime (None, None) ot) (vand (dv DRow tr orow) (dv DCol tc ocol))
  | FR3 tm tr tc, FR3 ot orow ocol =>
      if fc_multi c then vand (dv DTime tm ot) (vand (dv DRow tr orow) (dv DCol tc ocol)) else DontCare
  | _, FR2 _ _ => DontCare
  end.

(* rectangular arrays of a given shape (every numpy array is) *)
Definition rect3b (T R C : nat) (f : frame3) : bool :=
  Nat.eqb (length f) T
  && forallb (fun p => Nat.eqb (length p) R && forallb (fun row : list cell => Nat.eqb (length row) C) p) f.
Definition rect_sh (sh : list nat) (f : frame3) : bool := rect3b (nth 0 sh 0%nat) (nth 1 sh 0%nat) (nth 2 sh 0%nat) f.

(* all target files are rectangular of one shape, all simulated frames are rectangular of one shape =
   the declared geometry, no empty axis *)
Definition uniform (c : fconf) (sims : list frame3) : bool :=
  forallb (rect_sh (tshape c)) (fc_tgts c)
  && forallb (rect_sh (dshape sims)) sims
  && (shape_dim (dshape sims) DRow =? fc_drows c)%Z && (shape_dim (dshape sims) DCol =? fc_dcols c)%Z
  && negb (existsb (Nat.eqb 0) (tshape c)) && negb (existsb (Nat.eqb 0) (dshape sims)).

(* the hypotheses under which the model is shown to meet the specification = the complement of the
   open findings about the ranges: the result range lies inside the simulated frame and an open
   result stop means the same size as the target's (C11-F6d); with a 2-D target range the result
   selects as many readout times as the target has (C11-F6e) *)
Definition stop_given (s : sl) : bool := match snd s with Some _ => true | None => false end.
Definition frame_dim_ok (nt nd : Z) (o : sl) : bool := sl_inside nd o && ((nt =? nd)%Z || stop_given o).
Definition frame_covers (c : fconf) (sims : list frame3) : bool :=
  let tsh := tshape c in
  let dsh := dshape sims in
  let '(ot, orow, ocol) := out_slices (fc_orng c) in
  frame_dim_ok (shape_dim tsh DTime) (shape_dim dsh DTime) ot
  && frame_dim_ok (shape_dim tsh DRow) (shape_dim dsh DRow) orow
  && frame_dim_ok (shape_dim tsh DCol) (shape_dim dsh DCol) ocol.
Definition verdict_eqb (a b : verdict) : bool :=
  match a, b with MustAccept, MustAccept | MustReject, MustReject | DontCare, DontCare => true | _, _ => false end.
Definition time_2d_ok (c : fconf) (sims : list frame3) : bool :=
  match fc_trng c, fc_orng c with
  | FR2 _ _, FR3 ot _ _ =>
      verdict_eqb (dim_verdict (shape_dim (tshape c) DTime) (shape_dim (dshape sims) DTime) (None, None) ot) MustAccept
  | _, _ => true
  end.

Definition spec_fit (c : fconf) (sims : list frame3) : option fobs :=
  let tsh := tshape c in
  if negb (in_domain (fc_trng c) (fc_orng c) (shape_dim tsh DRow) (shape_dim tsh DCol) (Some (shape_dim tsh DTime))
           && uniform c sims) then None
  else match fit_verdict c sims with
       | MustAccept => Some (fobs_of (declared_sum (term_declared c) sims (fc_tgts c)))
       | MustReject => Some OCtor
       | DontCare => None
       end.

(* the declared target range lies inside the target data (resolved against the target's own size) *)
Definition target_inside (c : fconf) : bool :=
  let tsh := tshape c in
  match fc_trng c with
  | FR2 tr tc => sl_inside (shape_dim tsh DRow) tr && sl_inside (shape_dim tsh DCol) tc
  | FR3 tm tr tc => sl_inside (shape_dim tsh DTime) tm && sl_inside (shape_dim tsh DRow) tr
                    && sl_inside (shape_dim tsh DCol) tc
  end.

(* observed vs expected: exact, except that one float division (reduced chi squared) may round *)
Definition q_close (a b : Q) : bool :=
  Qle_bool (Qabs (a - b)) (Qabs b * (1 # 4503599627370496)).
Definition fobs_agree (exact : bool) (m o : fobs) : bool :=
  match m, o with
  | OUndef, _ => true
  | OCtor, OCtor | ORaise, ORaise | OInf, OInf => true
  | OVal x, OVal y => if exact then Qeq_bool x y else q_close y x
  | _, _ => false
  end.
Definition is_exact (f : fitfun) : bool := match f with FChi _ => false | _ => true end.

Record fit_case := { ft_c : fconf; ft_sims : list frame3; ft_obs : fobs }.

Definition fit_mismatch (ck : checker) (cl : calls) (wc : wconf) (x : fit_case) : bool :=
  negb (fobs_agree (is_exact (fc_ff (ft_c x))) (model_fit ck cl wc (ft_c x) (ft_sims x)) (ft_obs x)).
Definition fit_mismatches (ck : checker) (cl : calls) (wc : wconf) (xs : list fit_case) : list Z :=
  indices_where (fit_mismatch ck cl wc) xs 0.

Definition fit_violation (x : fit_case) : bool :=
  match spec_fit (ft_c x) (ft_sims x) with
  | None => false
  | Some e => negb (fobs_agree (is_exact (fc_ff (ft_c x))) e (ft_obs x))
  end.
Definition fit_violations (xs : list fit_case) : list Z := indices_where fit_violation xs 0.

(* ---- direct calls of the three functions *)
Record ff_case := { ff_f : fitfun; ff_s : frame; ff_t : frame; ff_w : frame; ff_obs : fobs }.
Definition ff_mismatch (x : ff_case) : bool :=
  negb (fobs_agree (is_exact (ff_f x)) (fobs_of (apply_ff (ff_f x) (ff_s x) (ff_t x) (ff_w x))) (ff_obs x)).
Definition ff_mismatches (xs : list ff_case) : list Z := indices_where ff_mismatch xs 0.

(* ====================================================================== 3. champions *)

(* pygmo keeps, per island, the best individual ever inserted: after an evolution the champion is
   the smaller of the previous champion and the best fitness met during that evolution *)
Definition champ_step (c best : Q) : Q := if Qle_bool best c then best else c.

Fixpoint champ_seq (c : Q) (bests : list Q) : list Q :=
  match bests with
  | [] => []
  | b :: r => let c' := champ_step c b in c' :: champ_seq c' r
  end.

Fixpoint noninc (l : list Q) : bool :=
  match l with
  | a :: ((b :: _) as t) => Qle_bool b a && noninc t
  | _ => true
  end.

(* one island of a real run: the /champion/fitness sequence over the evolutions, the fitness
   re-evaluated by the problem at the last reported champion decision, and (optionally) the
   independent recomputation, all as exact rationals of the floats *)
Record champ_case := { ch_seq : list Q; ch_reeval : Q; ch_recomp : option Q }.
Definition champ_violation (x : champ_case) : bool :=
  negb (noninc (ch_seq x)
        && Qeq_bool (last (ch_seq x) 0) (ch_reeval x)
        && match ch_recomp x with Some r => Qle_bool (Qabs (r - ch_reeval x)) (Qabs r * (1 # 1000000000)) | None => true end).
Definition champ_violations (xs : list champ_case) : list Z := indices_where champ_violation xs 0.
