(* Executable per-pixel models of the charge-handling functions (C15), over Q, as coded.
   pyxel/models/charge_collection/collection.py            simple_collection
   pyxel/models/charge_generation/photoelectrons.py        apply_qe
   pyxel/models/charge_collection/full_well.py             apply_simple_full_well_capacity / simple_full_well
   pyxel/models/charge_collection/inter_pixel_capacitance.py  ipc_kernel / compute_ipc_convolution
   pyxel/models/charge_collection/persistence.py           compute_simple_persistence / compute_persistence /
                                                           clip_diff / clip_trapped_charge
   pyxel/models/charge_transfer/cdm.py                     run_cdm_parallel / run_cdm_serial (bookkeeping; the
                                                           exp / power factors are parameters of the model)
   No proofs in this file.  The second half holds the specification (the right-hand sides of the theorems as
   bool functions) and the mismatches / violations helpers used by the harness-written case files. *)
From Coq Require Import QArith Qround Qabs ZArith List Bool.
Import ListNotations.
Open Scope Q_scope.

(* ------------------------------------------------------------------------------------------ helpers *)

Definition Qltb (a b : Q) : bool := if Qlt_le_dec a b then true else false.

Fixpoint qsum (l : list Q) : Q :=
  match l with
  | [] => 0
  | x :: t => x + qsum t
  end.

Definition qmin (a b : Q) : Q := if Qlt_le_dec b a then b else a.   (* python min(a, b) *)
Definition qmax0 (a : Q) : Q := if Qlt_le_dec 0 a then a else 0.    (* python max(a, 0.0) *)

(* ------------------------------------------------------------------------------------------ collection
   detector.pixel.array += detector.charge.array *)
Definition collect (pixel charge : Q) : Q := pixel + charge.

(* What `detector.charge.array` is at collection time (pyxel/data_structure/charge.py).  The generated charge
   is held as an array (add_charge_array on an empty particle frame: `_array += array`), as particles
   (add_charge / add_charge_dataframe: rows of the DataFrame with a position and a number of electrons) or both
   (an array met by particles is turned into particles at the pixel centres and vice versa); the property
   `Charge.array` re-bins the particle frame:  index = np.floor_divide(position, pixel size).astype(int),
   array[index_ver, index_hor] += number.   Frames are flat, row-major.  Arrays are non-negative (the
   array -> particle conversion keeps entries > 0 only: zero entries contribute nothing either way). *)
Record particle := { p_ver : Q; p_hor : Q; p_num : Q }.

Inductive charge_op :=
| OpArray (a : list Q)                 (* Charge.add_charge_array *)
| OpParticles (ps : list particle).    (* Charge.add_charge *)

Definition bin_idx (pos size : Q) : Z := Qfloor (pos / size).

Definition particle_in (rows cols : nat) (sv sh : Q) (p : particle) : bool :=
  let iv := bin_idx (p_ver p) sv in
  let ih := bin_idx (p_hor p) sh in
  ((0 <=? iv) && (iv <? Z.of_nat rows) && (0 <=? ih) && (ih <? Z.of_nat cols))%Z.

Definition flat_idx (cols : nat) (sv sh : Q) (p : particle) : nat :=
  Z.to_nat (bin_idx (p_ver p) sv * Z.of_nat cols + bin_idx (p_hor p) sh).

Fixpoint add_at (k : nat) (v : Q) (l : list Q) : list Q :=
  match l, k with
  | [], _ => []
  | x :: t, O => (x + v) :: t
  | x :: t, S k' => x :: add_at k' v t
  end.

Fixpoint bin_particles (cols : nat) (sv sh : Q) (ps : list particle) (acc : list Q) : list Q :=
  match ps with
  | [] => acc
  | p :: t => bin_particles cols sv sh t (add_at (flat_idx cols sv sh p) (p_num p) acc)
  end.

Fixpoint qadd_list (a b : list Q) : list Q :=
  match a, b with
  | x :: a', y :: b' => (x + y) :: qadd_list a' b'
  | _, _ => []
  end.

Fixpoint charge_array (cols : nat) (sv sh : Q) (ops : list charge_op) (acc : list Q) : list Q :=
  match ops with
  | [] => acc
  | OpArray a :: t => charge_array cols sv sh t (qadd_list acc a)
  | OpParticles ps :: t => charge_array cols sv sh t (bin_particles cols sv sh ps acc)
  end.

(* simple_collection on a detector whose charge was produced by `ops` *)
Definition collect_ops (cols : nat) (sv sh : Q) (pixel : list Q) (ops : list charge_op) : list Q :=
  qadd_list pixel (charge_array cols sv sh ops (map (fun _ => 0) pixel)).

Fixpoint particles_total (ps : list particle) : Q :=
  match ps with [] => 0 | p :: t => p_num p + particles_total t end.

Fixpoint ops_total (ops : list charge_op) : Q :=
  match ops with
  | [] => 0
  | OpArray a :: t => qsum a + ops_total t
  | OpParticles ps :: t => particles_total ps + ops_total t
  end.

Definition op_ok (rows cols : nat) (sv sh : Q) (o : charge_op) : bool :=
  match o with
  | OpArray a => Nat.eqb (length a) (rows * cols)
  | OpParticles ps => forallb (particle_in rows cols sv sh) ps
  end.

(* ------------------------------------------------------------------------------------------ apply_qe *)
(* array.astype(int): truncation toward zero *)
Definition qtrunc (p : Q) : Z := if Qlt_le_dec p 0 then Qceiling p else Qfloor p.
(* binomial_sampling = False:  output = array * qe *)
Definition qe_off (q p : Q) : Q := p * q.
(* binomial_sampling = True:  np.random.binomial(n = array.astype(int), p = qe).astype(float);
   the draw is a parameter (Section variable with its range hypothesis in the proofs) *)
Definition qe_on (binom : Z -> Q -> Z) (q p : Q) : Q := inject_Z (binom (qtrunc p) q).

(* simple_conversion: the model argument overrides the detector characteristics; a characteristics without a
   quantum efficiency raises; the selected value must lie in [0, 1] *)
Definition select_arg (arg char : option Q) : option Q :=
  match arg with Some a => Some a | None => char end.

Definition qe_select (arg char : option Q) : option Q :=
  match select_arg arg char with
  | Some q => if Qle_bool 0 q && Qle_bool q 1 then Some q else None
  | None => None
  end.

(* ------------------------------------------------------------------------------------------ full well
   array[array > fwc] = fwc ;  simple_full_well raises for fwc < 0 *)
Definition full_well (c x : Q) : Q := if Qlt_le_dec c x then c else x.
Definition simple_full_well (c : Q) (xs : list Q) : option (list Q) :=
  if Qlt_le_dec c 0 then None else Some (map (full_well c) xs).

(* simple_full_well(detector, fwc): the argument overrides detector.characteristics.full_well_capacity; a
   characteristics without a capacity raises *)
Definition simple_full_well_sel (arg char : option Q) (xs : list Q) : option (list Q) :=
  match select_arg arg char with
  | Some c => simple_full_well c xs
  | None => None
  end.

(* ------------------------------------------------------------------------------------------ IPC *)
Record kernel := { k00 : Q; k01 : Q; k02 : Q; k10 : Q; k11 : Q; k12 : Q; k20 : Q; k21 : Q; k22 : Q }.

Definition kernel_list (k : kernel) : list Q :=
  [k00 k; k01 k; k02 k; k10 k; k11 k; k12 k; k20 k; k21 k; k22 k].

(* the np.array literal of ipc_kernel (c = coupling, d = diagonal_coupling, a = anisotropic_coupling) *)
Definition ipc_weights (c d a : Q) : kernel :=
  {| k00 := d;     k01 := c - a;             k02 := d;
     k10 := c + a; k11 := 1 - 4 * (c + d);   k12 := c + a;
     k20 := d;     k21 := c - a;             k22 := d |}.

(* the three guards: `if not d < c: raise`, `if not a < c: raise`, `if not 0 <= c + d <= 0.25: raise` *)
Definition ipc_guard (c d a : Q) : bool :=
  Qltb d c && Qltb a c && Qle_bool 0 (c + d) && Qle_bool (c + d) (1 # 4).

Definition ipc_kernel (c d a : Q) : option kernel :=
  if ipc_guard c d a then Some (ipc_weights c d a) else None.

Definition frame := list (list Q).

Definition getpx (fill : Q) (fr : frame) (i j : Z) : Q :=
  if ((i <? 0) || (j <? 0))%Z then fill
  else match nth_error fr (Z.to_nat i) with
       | Some row => match nth_error row (Z.to_nat j) with Some v => v | None => fill end
       | None => fill
       end.

(* convolution (kernel flipped) of a 3x3 kernel at (i, j), constant fill outside the frame *)
Definition conv_at (k : kernel) (fill : Q) (fr : frame) (i j : Z) : Q :=
  let g := getpx fill fr in
  k00 k * g (i + 1)%Z (j + 1)%Z + k01 k * g (i + 1)%Z j + k02 k * g (i + 1)%Z (j - 1)%Z
  + k10 k * g i (j + 1)%Z + k11 k * g i j + k12 k * g i (j - 1)%Z
  + k20 k * g (i - 1)%Z (j + 1)%Z + k21 k * g (i - 1)%Z j + k22 k * g (i - 1)%Z (j - 1)%Z.

Fixpoint mapi_from {A B} (f : Z -> A -> B) (i : Z) (l : list A) : list B :=
  match l with
  | [] => []
  | x :: t => f i x :: mapi_from f (i + 1)%Z t
  end.

Definition frame_mean (fr : frame) : Q :=
  let l := concat fr in qsum l / inject_Z (Z.of_nat (length l)).

(* compute_ipc_convolution: fill_value = np.mean(input); the kernel's weights sum to one so astropy's
   normalisation of the kernel is the identity *)
Definition ipc_conv (k : kernel) (fr : frame) : frame :=
  let fill := frame_mean fr in
  mapi_from (fun i row => mapi_from (fun j _ => conv_at k fill fr i j) 0%Z row) 0%Z fr.

(* ------------------------------------------------------------------------------------------ persistence
   One pixel; the arrays of the code are elementwise.  A trap species as seen by one pixel: *)
Record species := { tf : Q;          (* time_factor = delta_t / trap_time_constants[i] *)
                    dens : Q;        (* simple: trap_densities[i]; full: trap_densities_2d * trap_proportions[i] *)
                    cap : option Q   (* simple: trap_capacities[i]; full: trap_capacities_2d * trap_proportions[i] *) }.

Definition clip_diff (diff trapped empty : Q) : Q :=
  if Qlt_le_dec diff 0
  then (if Qlt_le_dec diff (- trapped) then - trapped else diff)
  else (if Qlt_le_dec empty diff then empty else diff).

(* first loop: trapping / release species after species, the pixel is updated in place *)
Fixpoint trap_loop (sp : list species) (tr : list Q) (pixel : Q) : Q * list Q :=
  match sp, tr with
  | s :: sp', t :: tr' =>
      let available := dens s * pixel in
      let empty := available - t in
      let diff := clip_diff (tf s * empty) t empty in
      let '(p', ts) := trap_loop sp' tr' (pixel - diff) in
      (p', (t + diff) :: ts)
  | _, _ => (pixel, [])
  end.

(* clip_trapped_charge for one pixel: (clipped, pixel_output) *)
Definition clipped_of (t available pixel_diff : Q) (cp : option Q) : Q :=
  if Qlt_le_dec pixel_diff 0 then
    let maximum := match cp with Some c => qmin available c | None => available end in
    if Qlt_le_dec maximum t then maximum else t
  else t.

Definition clip_trapped (t pixel available pixel_diff : Q) (cp : option Q) : Q * Q :=
  let clipped := clipped_of t available pixel_diff cp in
  (clipped, pixel + (t - clipped)).

(* second loop (as repaired by `fix: persistence returns the clipped charge of every trap species to the pixel`):
   `output_pixel` starts as a copy of `pixel_array` and is handed to clip_trapped_charge as `pixel`, so the clipped
   excess of EVERY species is added to it; `available_traps` is still computed from `pixel_array` *)
Fixpoint clip_loop (sp : list species) (tr : list Q) (pixel pixel_diff out : Q) : Q * list Q :=
  match sp, tr with
  | s :: sp', t :: tr' =>
      let '(c, o) := clip_trapped t out (pixel * dens s) pixel_diff (cap s) in
      let '(o', cs) := clip_loop sp' tr' pixel pixel_diff o in
      (o', c :: cs)
  | _, _ => (out, [])
  end.

Definition persist_pixel_raw (sp : list species) (tr : list Q) (pixel : Q) : Q * list Q :=
  let '(p1, t1) := trap_loop sp tr pixel in
  clip_loop sp t1 p1 (p1 - pixel) p1.

(* the same numbers in lowest terms (Qred), so that fractions stay small over several readouts *)
Definition persist_pixel (sp : list species) (tr : list Q) (pixel : Q) : Q * list Q :=
  let '(p, ts) := persist_pixel_raw sp tr pixel in (Qred p, map Qred ts).

(* several readouts: before each call `add` electrons are collected into the pixel *)
Fixpoint persist_steps (steps : list (Q * list species)) (tr : list Q) (pixel : Q) : Q * list Q :=
  match steps with
  | [] => (pixel, tr)
  | (add, sp) :: rest =>
      let '(p', t') := persist_pixel sp tr (pixel + add) in persist_steps rest t' p'
  end.

(* how the two entry points build the per-pixel species *)
Fixpoint simple_species (dt : Q) (taus ds : list Q) (caps : option (list Q)) : list species :=
  match taus, ds with
  | tau :: taus', d :: ds' =>
      {| tf := dt / tau; dens := d;
         cap := match caps with Some (c :: _) => Some c | _ => None end |}
      :: simple_species dt taus' ds' (match caps with Some (_ :: cs) => Some cs | _ => None end)
  | _, _ => []
  end.

Fixpoint full_species (dt : Q) (taus props : list Q) (d2d : Q) (c2d : option Q) : list species :=
  match taus, props with
  | tau :: taus', pr :: props' =>
      {| tf := dt / tau; dens := d2d * pr;
         cap := match c2d with Some c => Some (c * pr) | None => None end |}
      :: full_species dt taus' props' d2d c2d
  | _, _ => []
  end.

(* the documented ranges, as a bool *)
Definition species_ok (s : species) : bool :=
  Qle_bool 0 (tf s) && Qle_bool 0 (dens s) && Qle_bool (dens s) 1
  && match cap s with Some c => Qle_bool 0 c | None => true end.

(* ------------------------------------------------------------------------------------------ CDM
   One capture / release step for one pixel value `a` and one trap species with occupancy `no`.
     gm = gamma[k]                     (g[k] * row index, or g[k] * transfers with charge injection)
     bw = a ** (beta - 1)              (so that a ** beta = a * bw, an identity of the real power function)
     pc = 1 - exp(-alpha[k] * a ** (1 - beta))
     r  = 1 - exp(-t / tr[k])
   thr is the binary64 number written 0.01 in the source. *)
Definition thr : Q := 5764607523034235 # 576460752303423488.

Definition cdm_capture (gm bw pc a no : Q) : Q :=
  if Qlt_le_dec thr a
  then qmax0 ((gm * (a * bw) - no) / (gm * bw + 1) * pc)
  else 0.

(* the results are kept in lowest terms (Qred): same numbers, bounded size along a line *)
Definition cdm_step (gm bw pc r a no : Q) : Q * Q :=
  let nc := cdm_capture gm bw pc a no in
  let no1 := no + nc in
  let nr := no1 * r in
  let a1 := a + (- (1) * nc + nr) in
  let no2 := no1 - nr in
  (Qred (if Qlt_le_dec a1 thr then 0 else a1), Qred no2).

Record cdm_par := {
  gam : nat -> nat -> Q;          (* transfer index i, species k *)
  pw : nat -> nat -> Q -> Q;      (* i, k, a |-> a ** (beta - 1)             (a function of a alone in the code) *)
  pcap : nat -> nat -> Q -> Q;    (* i, k, a |-> capture probability         (a function of k and a in the code) *)
  rel : nat -> Q                  (* species k |-> release probability *)
}.

(* inner `for k` loop for one pixel (the pixel value is updated in place between species) *)
Fixpoint cdm_species (P : cdm_par) (i k : nat) (a : Q) (nos : list Q) : Q * list Q :=
  match nos with
  | [] => (a, [])
  | no :: rest =>
      let '(a1, no1) := cdm_step (gam P i k) (pw P i k a) (pcap P i k a) (rel P k) a no in
      let '(a2, rest') := cdm_species P i (S k) a1 rest in
      (a2, no1 :: rest')
  end.

(* one column (parallel) / one row (serial), pixels in transfer order starting at index i *)
Fixpoint cdm_line (P : cdm_par) (i : nat) (px : list Q) (nos : list Q) : list Q * list Q :=
  match px with
  | [] => ([], nos)
  | a :: t =>
      let '(a', nos') := cdm_species P i 0 a nos in
      let '(t', nos'') := cdm_line P (S i) t nos' in
      (a' :: t', nos'')
  end.

Definition cdm_run (P : cdm_par) (nsp : nat) (lines : list (list Q)) : list (list Q) :=
  map (fun px => fst (cdm_line P 0 px (repeat 0 nsp))) lines.

(* every line with its own parameter record (factors that depend on the line) *)
Fixpoint cdm_run_each (Ps : list cdm_par) (nsp : nat) (lines : list (list Q)) : list (list Q) :=
  match Ps, lines with
  | P :: Ps', px :: lines' => fst (cdm_line P 0 px (repeat 0 nsp)) :: cdm_run_each Ps' nsp lines'
  | _, _ => []
  end.

(* the range checks of the wrapper `cdm` (as repaired by `fix: cdm rejects a zero 'max_electron_volume' and a zero
   full well capacity`): the two divisors of the capture coefficients are strictly positive *)
Definition cdm_params_ok (vg beta fwc t : Q) : bool :=
  Qltb 0 vg && Qle_bool vg 1 && Qle_bool 0 beta && Qle_bool beta 1
  && Qltb 0 fwc && Qle_bool fwc 10000000 && Qle_bool 0 t && Qle_bool t 10.

(* executable instance for beta = 1: a ** 0 = 1, constant capture probabilities *)
Definition cdm_par_beta1 (gs pcs rs : list Q) (inj : option Q) : cdm_par :=
  {| gam := fun i k => nth k gs 0 * match inj with Some n => n | None => inject_Z (Z.of_nat i) end;
     pw := fun _ _ _ => 1;
     pcap := fun _ k _ => nth k pcs 0;
     rel := fun k => nth k rs 0 |}.

(* executable instance for ANY beta: the values numpy computes for a ** (beta - 1) and for the capture
   probability at every (packet i, species k) of one line, as a table; (0, 0) where the packet is below the cut *)
Definition cdm_par_table (gs rs : list Q) (inj : option Q) (tbl : list (list (Q * Q))) : cdm_par :=
  {| gam := fun i k => nth k gs 0 * match inj with Some n => n | None => inject_Z (Z.of_nat i) end;
     pw := fun i k _ => fst (nth k (nth i tbl []) (0, 0));
     pcap := fun i k _ => snd (nth k (nth i tbl []) (0, 0));
     rel := fun k => nth k rs 0 |}.

Definition fac_ok (f : Q * Q) : bool := Qle_bool 0 (fst f) && Qle_bool 0 (snd f) && Qle_bool (snd f) 1.
Definition table_ok (tbl : list (list (Q * Q))) : bool := forallb (forallb fac_ok) tbl.

(* ============================================================================================
   Specification (right-hand sides of the theorems) and comparison helpers for the case files *)

Fixpoint all2 {A B} (f : A -> B -> bool) (l : list A) (m : list B) : bool :=
  match l, m with
  | [], [] => true
  | x :: l', y :: m' => f x y && all2 f l' m'
  | _, _ => false
  end.

Definition qeqs : list Q -> list Q -> bool := all2 Qeq_bool.
Definition qeqss : list (list Q) -> list (list Q) -> bool := all2 qeqs.

Definition close (tol scale x y : Q) : bool := Qle_bool (Qabs (x - y)) (tol * scale).

Fixpoint maxabs (l : list Q) : Q :=
  match l with
  | [] => 0
  | x :: t => let m := maxabs t in if Qlt_le_dec m (Qabs x) then Qabs x else m
  end.

Definition is_int (x : Q) : bool := Qeq_bool (inject_Z (Qfloor x)) x.

(* one persistence step as observed on the implementation, per pixel *)
Record pstep := {
  ps_dt : Q;
  ps_add : list Q;               (* charge added to each pixel before the model call *)
  ps_pix : list Q;               (* observed pixel array after the call *)
  ps_trap : list (list Q)        (* observed trapped charge after the call: per pixel, per species *)
}.

Record pcase := {
  pc_full : bool;                (* false: compute_simple_persistence, true: compute_persistence *)
  pc_taus : list Q;
  pc_dens : list Q;              (* simple: trap_densities; full: trap_proportions *)
  pc_caps : option (list Q);     (* simple: trap_capacities *)
  pc_dmap : list Q;              (* full: trap_densities_2d per pixel *)
  pc_cmap : option (list Q);     (* full: trap_capacities_2d per pixel *)
  pc_pix0 : list Q;
  pc_trap0 : list (list Q);      (* per pixel, per species *)
  pc_steps : list pstep
}.

Definition species_of (c : pcase) (dt : Q) (j : nat) : list species :=
  if pc_full c
  then full_species dt (pc_taus c) (pc_dens c) (nth j (pc_dmap c) 0)
         (match pc_cmap c with Some m => Some (nth j m 0) | None => None end)
  else simple_species dt (pc_taus c) (pc_dens c) (pc_caps c).

Fixpoint persist_frame (c : pcase) (dt : Q) (j : nat) (pix : list Q) (trap : list (list Q))
  : list Q * list (list Q) :=
  match pix, trap with
  | p :: pix', t :: trap' =>
      let '(p', t') := persist_pixel (species_of c dt j) t p in
      let '(ps, ts) := persist_frame c dt (S j) pix' trap' in
      (p' :: ps, t' :: ts)
  | _, _ => ([], [])
  end.

(* model run over the steps; true iff every observed step equals the model *)
Fixpoint persist_agree (c : pcase) (pix : list Q) (trap : list (list Q)) (steps : list pstep) : bool :=
  match steps with
  | [] => true
  | s :: rest =>
      let '(p', t') := persist_frame c (ps_dt s) 0 (qadd_list pix (ps_add s)) trap in
      qeqs p' (ps_pix s) && qeqss t' (ps_trap s) && persist_agree c p' t' rest
  end.

(* the property on the observed chain: per pixel, pixel' + sum trapped' = pixel + added + sum trapped,
   trapped' >= 0, pixel' >= 0 *)
Definition persist_pixel_ok (before_total : Q) (p' : Q) (t' : list Q) : bool :=
  Qeq_bool (p' + qsum t') before_total && forallb (Qle_bool 0) t' && Qle_bool 0 p'.

Fixpoint persist_frame_ok (pix add : list Q) (trap : list (list Q)) (pix' : list Q) (trap' : list (list Q)) : bool :=
  match pix, add, trap, pix', trap' with
  | [], [], [], [], [] => true
  | p :: pix1, a :: add1, t :: trap1, p' :: pix1', t' :: trap1' =>
      persist_pixel_ok (p + a + qsum t) p' t' && Nat.eqb (length t) (length t')
      && persist_frame_ok pix1 add1 trap1 pix1' trap1'
  | _, _, _, _, _ => false
  end.

Fixpoint persist_spec (pix : list Q) (trap : list (list Q)) (steps : list pstep) : bool :=
  match steps with
  | [] => true
  | s :: rest =>
      persist_frame_ok pix (ps_add s) trap (ps_pix s) (ps_trap s) && persist_spec (ps_pix s) (ps_trap s) rest
  end.

Definition tol_fft : Q := 1 # 1000000000.      (* 1e-9, relative to 1 + max |frame| : astropy FFT rounding *)
Definition tol_cdm : Q := 1 # 1000000000.      (* 1e-9 relative: float rounding in the CDM loop *)

Inductive c15_case :=
| KCollect (pixel charge out : list Q)
| KCollectP (rows cols : nat) (sv sh : Q) (pixel : list Q) (ops : list charge_op) (out : list Q)
                                                                     (* charge as arrays / particles / both *)
| KQeOff (q : Q) (photon out : list Q)
| KQeOn (q : Q) (photon out : list Q)
| KQeSel (sampling : bool) (arg char : option Q) (photon : list Q) (out : option (list Q))
                                                                     (* simple_conversion; None = raised *)
| KQeMap (sampling : bool) (qs photon : list Q) (out : option (list Q))
                                                                     (* conversion_with_qe_map: one efficiency per pixel *)
| KFullWell (c : Q) (x : list Q) (out : option (list Q * list Q))   (* once, twice; None = raised *)
| KFullWellS (arg char : option Q) (x : list Q) (out : option (list Q * list Q))
                                                                     (* simple_full_well, both capacity sources *)
| KKernel (c d a : Q) (out : option (list Q))                        (* None = raised *)
| KIpc (c d a : Q) (fr out : frame)
| KPersist (c : pcase)
| KCdm (lines_in lines_out : list (list Q))                          (* any parameters: specification only *)
| KCdmG (vg beta fwc t : Q) (raised : bool)                          (* the wrapper's range checks *)
| KCdmT (gs rs : list Q) (inj : option Q) (tbls : list (list (list (Q * Q)))) (lines_in lines_out : list (list Q))
                                                                     (* any beta, per-step factors from numpy *)
| KCdmX (gs pcs rs : list Q) (inj : option Q) (lines_in lines_out : list (list Q)).  (* beta = 1, exact factors *)

Definition kernel_sum_one (l : list Q) : bool := Qeq_bool (qsum l) 1 && Nat.eqb (length l) 9.

(* no prefix of a line, in transfer order, holds more charge than the same prefix received (the traps only
   hand charge to LATER packets); the last prefix is the line total *)
Fixpoint prefix_ok (slack : Q) (li lo : list Q) (ai ao : Q) : bool :=
  match li, lo with
  | [], [] => true
  | x :: li', y :: lo' => Qle_bool (ao + y) (ai + x + slack) && prefix_ok slack li' lo' (ai + x) (ao + y)
  | _, _ => false
  end.

Definition cdm_spec (lines_in lines_out : list (list Q)) : bool :=
  all2 (fun li lo => Nat.eqb (length li) (length lo) && forallb (Qle_bool 0) lo
                     && Qle_bool (qsum lo) (qsum li * (1 + tol_cdm))
                     && prefix_ok (qsum li * tol_cdm) li lo 0 0) lines_in lines_out.

(* photo-conversion, judged per pixel.  Sampling: an integer in [0, floor p]; a draw with success probability
   1 (0) returns all (none) of its trials, so the charge is exactly floor p (0). *)
Definition qe_on_ok (q p o : Q) : bool :=
  is_int o && Qle_bool 0 o && Qle_bool o (inject_Z (Qfloor p))
  && (if Qeq_bool q 1 then Qeq_bool o (inject_Z (Qfloor p)) else true)
  && (if Qeq_bool q 0 then Qeq_bool o 0 else true).
Definition qe_off_ok (q p o : Q) : bool := Qeq_bool o (p * q) && Qle_bool 0 o && Qle_bool o p.

Definition qe_in_range (q : Q) : bool := Qle_bool 0 q && Qle_bool q 1.

Fixpoint all3 {A B C} (f : A -> B -> C -> bool) (l : list A) (m : list B) (n : list C) : bool :=
  match l, m, n with
  | [], [], [] => true
  | x :: l', y :: m', z :: n' => f x y z && all3 f l' m' n'
  | _, _, _ => false
  end.

(* conversion_with_qe_map: a map with a value outside [0, 1] is refused; otherwise pixel by pixel as apply_qe *)
Definition qe_map_model (qs photon : list Q) : option (list Q) :=
  if forallb qe_in_range qs then Some (map (fun qp => qe_off (fst qp) (snd qp)) (combine qs photon)) else None.

Definition case_mismatch (c : c15_case) : bool :=
  negb match c with
  | KCollect p ch out => qeqs (qadd_list p ch) out && Nat.eqb (length p) (length ch)
  | KCollectP rows cols sv sh p ops out =>
      qeqs (collect_ops cols sv sh p ops) out && forallb (op_ok rows cols sv sh) ops
      && Nat.eqb (length p) (rows * cols)
  | KQeOff q ph out => qeqs (map (qe_off q) ph) out
  | KQeOn q ph out => Nat.eqb (length ph) (length out)       (* the draw itself is not modelled *)
  | KQeSel samp arg char ph out =>
      match qe_select arg char, out with
      | None, None => true
      | Some q, Some o => if samp then Nat.eqb (length ph) (length o) else qeqs (map (qe_off q) ph) o
      | _, _ => false
      end
  | KQeMap samp qs ph out =>
      match qe_map_model qs ph, out with
      | None, None => true
      | Some m, Some o => Nat.eqb (length qs) (length ph)
                          && (if samp then Nat.eqb (length ph) (length o) else qeqs m o)
      | _, _ => false
      end
  | KFullWell c x out =>
      match simple_full_well c x, out with
      | None, None => true
      | Some m, Some (o1, o2) => qeqs m o1 && qeqs m o2
      | _, _ => false
      end
  | KFullWellS arg char x out =>
      match simple_full_well_sel arg char x, out with
      | None, None => true
      | Some m, Some (o1, o2) => qeqs m o1 && qeqs m o2
      | _, _ => false
      end
  | KKernel c d a out =>
      match ipc_kernel c d a, out with
      | None, None => true
      | Some k, Some o => qeqs (kernel_list k) o
      | _, _ => false
      end
  | KIpc c d a fr out =>
      match ipc_kernel c d a with
      | None => false
      | Some k => let sc := 1 + maxabs (concat fr) in
                  all2 (all2 (close tol_fft sc)) (ipc_conv k fr) out
      end
  | KPersist c => persist_agree c (pc_pix0 c) (pc_trap0 c) (pc_steps c)
  | KCdm _ _ => true
  | KCdmG vg beta fwc t raised => Bool.eqb raised (negb (cdm_params_ok vg beta fwc t))
  | KCdmX gs pcs rs inj li lo =>
      let sc := 1 + maxabs (concat li) in
      all2 (all2 (close tol_cdm sc)) (cdm_run (cdm_par_beta1 gs pcs rs inj) (length gs) li) lo
  | KCdmT gs rs inj tbls li lo =>
      let sc := 1 + maxabs (concat li) in
      forallb table_ok tbls && Nat.eqb (length tbls) (length li)
      && all2 (all2 (close tol_cdm sc))
              (cdm_run_each (map (cdm_par_table gs rs inj) tbls) (length gs) li) lo
  end.

(* inputs are generated inside the documented ranges, so the implementation must not raise and its
   output must satisfy the conclusion of the theorems *)
Definition case_violates (c : c15_case) : bool :=
  negb match c with
  | KCollect p ch out => all2 (fun pc o => Qeq_bool (fst pc + snd pc) o) (combine p ch) out
  | KCollectP rows cols sv sh p ops out =>
      (* every pixel receives exactly the charge generated for it, however the charge is held *)
      all2 (fun pc o => Qeq_bool (fst pc + snd pc) o)
           (combine p (charge_array cols sv sh ops (map (fun _ => 0) p))) out
      && Qeq_bool (qsum out) (qsum p + ops_total ops)
  | KQeOff q ph out => all2 (qe_off_ok q) ph out
  | KQeOn q ph out => all2 (qe_on_ok q) ph out
  | KQeSel samp arg char ph out =>
      (* the efficiency is the argument when given, else the characteristics' (0.0 is a given argument) *)
      match arg, char, out with
      | None, None, _ => match out with None => true | Some _ => false end
      | Some q, _, Some o | None, Some q, Some o =>
          Qle_bool 0 q && Qle_bool q 1 && all2 (if samp then qe_on_ok q else qe_off_ok q) ph o
      | Some q, _, None | None, Some q, None => negb (Qle_bool 0 q && Qle_bool q 1)
      end
  | KQeMap samp qs ph out =>
      match out with
      | None => negb (forallb qe_in_range qs)
      | Some o => forallb qe_in_range qs && all3 (if samp then qe_on_ok else qe_off_ok) qs ph o
      end
  | KFullWell c x out =>
      match out with
      | None => Qltb c 0
      | Some (o1, o2) => negb (Qltb c 0) && all2 (fun v o => Qeq_bool o (qmin v c)) x o1 && qeqs o1 o2
      end
  | KFullWellS arg char x out =>
      (* capacity = the argument when given (it overrides), else the characteristics'; neither: raises *)
      match arg, char, out with
      | None, None, _ => match out with None => true | Some _ => false end
      | Some c, _, None | None, Some c, None => Qltb c 0
      | Some c, _, Some (o1, o2) | None, Some c, Some (o1, o2) =>
          negb (Qltb c 0) && all2 (fun v o => Qeq_bool o (qmin v c)) x o1 && qeqs o1 o2
      end
  | KKernel c d a out =>
      match out with
      | None => negb (ipc_guard c d a)
      | Some o => kernel_sum_one o
      end
  | KIpc c d a fr out =>
      (* uniform frame => unchanged (tolerance on the implementation side only); shape preserved *)
      all2 (fun r o => Nat.eqb (length r) (length o)) fr out
      && match concat fr with
         | [] => true
         | v :: rest =>
             if forallb (Qeq_bool v) rest
             then forallb (forallb (close tol_fft (1 + Qabs v) v)) out
             else true
         end
  | KPersist c => persist_spec (pc_pix0 c) (pc_trap0 c) (pc_steps c)
  | KCdm li lo => cdm_spec li lo
  | KCdmG vg beta fwc t raised =>
      (* inside the documented ranges the model runs; a refusal is only acceptable outside them *)
      if raised then negb (cdm_params_ok vg beta fwc t) else true
  | KCdmX _ _ _ _ li lo => cdm_spec li lo
  | KCdmT _ _ _ _ li lo => cdm_spec li lo
  end.

Fixpoint indices_where {A} (f : A -> bool) (l : list A) (i : Z) : list Z :=
  match l with
  | [] => []
  | a :: t => if f a then i :: indices_where f t (i + 1)%Z else indices_where f t (i + 1)%Z
  end.

Definition mismatches (cs : list c15_case) : list Z := indices_where case_mismatch cs 0%Z.
Definition violations (cs : list c15_case) : list Z := indices_where case_violates cs 0%Z.
