(* C18 — the NESTING of a DataTree and its flattening into the dictionary {path: Dataset} (xarray's
   DataTree.to_dict / DataTree.from_dict as pyxel's to_dict / from_dict use them), with the '/' <-> '#' escaping of
   the paths in between.  Model/Codec.v works on the flat form; this file gives the nested form, the two directions
   and the executable comparison used by the correspondence leg.  No proofs here (Proofs/CodecTree.v). *)
From Coq Require Import ZArith List Bool String Ascii.
From PyxelV Require Import Model.Codec.
Import ListNotations.
Open Scope string_scope.

(* a group: its own dataset (labelled arrays: variables, coordinates, attributes) and its named sub-groups *)
Inductive dtree := DNode (ds : items) (children : list (string * dtree)).

Definition node_items (t : dtree) : items := match t with DNode d _ => d end.
Definition node_children (t : dtree) : list (string * dtree) := match t with DNode _ c => c end.

(* ---------------------------------------------------------------- layer 1: tree <-> list of (relative path, dataset)
   the path of a group is the list of names from the root *)
Definition cons_path {A} (n : string) (e : list string * A) : list string * A := (n :: fst e, snd e).

Fixpoint flat (t : dtree) : list (list string * items) :=
  match t with
  | DNode ds ch =>
      ([], ds) :: (fix go (l : list (string * dtree)) : list (list string * items) :=
                     match l with
                     | [] => []
                     | (n, c) :: r => (map (cons_path n) (flat c) ++ go r)%list
                     end) ch
  end.

(* DataTree.from_dict: walk down the path, creating every group that does not exist yet (appended after its
   siblings), and set the dataset of the group the path ends at *)
Fixpoint insert (segs : list string) (ds : items) (t : dtree) {struct segs} : dtree :=
  match segs with
  | [] => DNode ds (node_children t)
  | s :: r =>
      DNode (node_items t)
        ((fix ic (ch : list (string * dtree)) : list (string * dtree) :=
            match ch with
            | [] => [(s, insert r ds (DNode [] []))]
            | (n, c) :: rest => if String.eqb n s then (n, insert r ds c) :: rest else (n, c) :: ic rest
            end) (node_children t))
  end.
Definition empty_tree : dtree := DNode [] [].
Definition unflat (l : list (list string * items)) : dtree :=
  fold_left (fun t e => insert (fst e) (snd e) t) l empty_tree.

(* ---------------------------------------------------------------- layer 2: list of names <-> path string *)
Fixpoint render' (segs : list string) : string :=
  match segs with [] => "" | s :: r => "/" ++ s ++ render' r end.
Definition render (segs : list string) : string := match segs with [] => "/" | _ => render' segs end.

(* split at every '/' *)
Fixpoint split_slash (s : string) : list string :=
  match s with
  | EmptyString => [EmptyString]
  | String c r =>
      if Ascii.eqb c "/"%char then EmptyString :: split_slash r
      else match split_slash r with
           | [] => [String c EmptyString]
           | h :: t => String c h :: t
           end
  end.
Definition nonempty (s : string) : bool := match s with EmptyString => false | _ => true end.
Definition parse (p : string) : list string := filter nonempty (split_slash p).

(* ---------------------------------------------------------------- the two directions on dictionaries with string keys *)
Definition flatten_keys (t : dtree) : keyed := map (fun e => (render (fst e), snd e)) (flat t).
Definition unflatten_keys (m : keyed) : dtree := unflat (map (fun kv => (parse (fst kv), snd kv)) m).

(* to_dict: flatten, escape the keys;  from_dict: unescape the keys, rebuild *)
Definition tree_to_dict (a b : ascii) (t : dtree) : keyed := map_keys (replace_char a b) (flatten_keys t).
Definition tree_from_dict (a b : ascii) (m : keyed) : dtree := unflatten_keys (map_keys (replace_char b a) m).

(* ---------------------------------------------------------------- well-formed trees (what xarray guarantees)
   sibling names are distinct; a name is not empty and contains no '/' *)
Fixpoint nodupb (l : list string) : bool :=
  match l with [] => true | x :: r => negb (existsb (String.eqb x) r) && nodupb r end.
Fixpoint wf_tree (t : dtree) : bool :=
  match t with
  | DNode _ ch =>
      nodupb (map fst ch) &&
      (fix go (l : list (string * dtree)) : bool :=
         match l with [] => true | (n, c) :: r => wf_tree c && go r end) ch
  end.
Fixpoint names_free_of (x : ascii) (t : dtree) : bool :=
  match t with
  | DNode _ ch =>
      (fix go (l : list (string * dtree)) : bool :=
         match l with
         | [] => true
         | (n, c) :: r => nonempty n && negb (has_char x n) && names_free_of x c && go r
         end) ch
  end.

(* ---------------------------------------------------------------- comparison (children compared as a set) *)
Fixpoint dtree_eqb (a b : dtree) {struct a} : bool :=
  match a with
  | DNode da cha =>
      items_eqb da (node_items b) &&
      Nat.eqb (List.length cha) (List.length (node_children b)) &&
      (fix go (l : list (string * dtree)) : bool :=
         match l with
         | [] => true
         | (n, c) :: r =>
             existsb (fun nc' => String.eqb n (fst nc') && dtree_eqb c (snd nc')) (node_children b) && go r
         end) cha
  end.

Fixpoint dtree_map (f : items -> items) (t : dtree) : dtree :=
  match t with
  | DNode ds ch =>
      DNode (f ds) ((fix go (l : list (string * dtree)) : list (string * dtree) :=
                       match l with [] => [] | (n, c) :: r => (n, dtree_map f c) :: go r end) ch)
  end.
Fixpoint dtree_forall (p : items -> bool) (t : dtree) : bool :=
  match t with
  | DNode ds ch =>
      p ds && (fix go (l : list (string * dtree)) : bool :=
                 match l with [] => true | (n, c) :: r => dtree_forall p c && go r end) ch
  end.

(* ---------------------------------------------------------------- correspondence cases
   t_orig : the tree held by the detector (walked through `.children`, not through DataTree.to_dict)
   t_keys : the keys of the dictionary the implementation's to_dict produced for it
   t_back : the tree held by the reloaded detector (None: the reload of the detector raised - because of this tree or
            of another one; only the keys are compared then) *)
Record tree_case := mk_tcase { t_orig : dtree; t_keys : list string; t_back : option dtree }.

Fixpoint insert_sorted (x : string) (l : list string) : list string :=
  match l with
  | [] => [x]
  | y :: r => if String.leb x y then x :: l else y :: insert_sorted x r
  end.
Definition sort_strings (l : list string) : list string := fold_right insert_sorted [] l.

Definition items_readable (it : items) : bool :=
  forallb (fun la => negb (String.eqb (a_dt (snd la)) unreadable)) it.

Definition tree_case_mismatch (a b : ascii) (c : tree_case) : bool :=
  (* the keys the implementation wrote are the model's flattening + escaping ... *)
  negb (list_eqb String.eqb (sort_strings (map fst (tree_to_dict a b (t_orig c)))) (sort_strings (t_keys c))) ||
  (* ... and what it rebuilt is the model's un-escaping + nesting of those entries (values as lists in between) *)
  let sent := dtree_map listify_items (t_orig c) in
  match t_back c with
  | Some back => negb (dtree_forall items_readable sent) ||
                 negb (dtree_eqb (tree_from_dict a b (tree_to_dict a b sent)) back)
  | None => false      (* the reload raised (decided by Model/Codec.v: some tree of the detector is unreadable) *)
  end.
Definition tree_mismatches (a b : ascii) (cs : list tree_case) : list Z := indices_where (tree_case_mismatch a b) cs 0%Z.

(* SPECIFICATION: the reloaded tree IS the original tree *)
Definition tree_case_violates (c : tree_case) : bool :=
  match t_back c with Some back => negb (dtree_eqb (t_orig c) back && dtree_eqb back (t_orig c)) | None => false end.
Definition tree_violations (cs : list tree_case) : list Z := indices_where tree_case_violates cs 0%Z.
