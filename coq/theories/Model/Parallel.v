(* C07 — parallel execution yields the same results as sequential execution.

   Executable model only (no proofs).  Modelled code:
     pyxel/observation/misc.py        ProductMode/SequentialMode/CustomMode .create_params (the parameter
                                      array of the dask path) and the generators of the sequential path
                                      (_product_parameters, _sequential_parameters, _custom_parameters)
     pyxel/observation/observation_dask.py   one task per cell of the parameter array, results written
                                      into the cell's slot; file index = arange(size).reshape(shape)
     pyxel/calibration/archipelago_datatree.py  islands created in a thread pool, executor.map order
     pyxel/util/randomize.py          set_random_seed = save / seed / ... / restore on ONE process-wide
                                      generator (threads share it, processes do not)
     pyxel/pipelines/model_group.py   (round 2b) what a WORKER receives: under the synchronous / threaded scheduler a
     + every pickle hook under        task works on a deep copy of the caller's processor, under a process pool on
     pipelines/ detectors/ ...        what a PICKLE round trip (cloudpickle, __getstate__ / __setstate__) restores;
                                      ModelGroup.__iter__ executes the models whose `enabled` flag is set
   Style: Coq standard library only. *)
From Coq Require Import String.
From Coq Require Import ZArith List Bool Lia PeanoNat.
Import ListNotations.

(* ------------------------------------------------------------------------------------------ values *)

(* a parameter value: a number, or a vector of numbers (tuple / list valued parameter) *)
Inductive pval := PS (z : Z) | PV (zs : list Z).

Fixpoint zlist_eqb (a b : list Z) : bool :=
  match a, b with
  | [], [] => true
  | x :: a', y :: b' => Z.eqb x y && zlist_eqb a' b'
  | _, _ => false
  end.

Definition pval_eqb (a b : pval) : bool :=
  match a, b with
  | PS x, PS y => Z.eqb x y
  | PV x, PV y => zlist_eqb x y
  | _, _ => false
  end.

Fixpoint list_eqb {A} (e : A -> A -> bool) (a b : list A) : bool :=
  match a, b with
  | [], [] => true
  | x :: a', y :: b' => e x y && list_eqb e a' b'
  | _, _ => false
  end.

Definition params_eqb := list_eqb pval_eqb.

(* tuple order of Python / pandas level order: numbers by value, vectors lexicographically *)
Fixpoint zlist_leb (a b : list Z) : bool :=
  match a, b with
  | [], _ => true
  | _ :: _, [] => false
  | x :: a', y :: b' => if Z.ltb x y then true else if Z.ltb y x then false else zlist_leb a' b'
  end.

Definition pval_leb (a b : pval) : bool :=
  match a, b with
  | PS x, PS y => Z.leb x y
  | PV x, PV y => zlist_leb x y
  | PS _, PV _ => true
  | PV _, PS _ => false
  end.

Fixpoint insert_sorted (x : pval) (l : list pval) : list pval :=
  match l with
  | [] => [x]
  | y :: r => if pval_leb x y then x :: l else y :: insert_sorted x r
  end.

(* the level order pandas gives a MultiIndex level (values are distinct when this is used) *)
Definition sort_level (l : list pval) : list pval := fold_right insert_sorted [] l.

Fixpoint memb (x : pval) (l : list pval) : bool :=
  match l with [] => false | y :: r => pval_eqb x y || memb x r end.

Fixpoint nodupb (l : list pval) : bool :=
  match l with [] => true | x :: r => negb (memb x r) && nodupb r end.

(* ------------------------------------------------------------------ cartesian product, mixed radix *)

(* itertools.product( *ls ) / MultiIndex.from_product: row-major, the LAST list varies fastest *)
Fixpoint cart {A} (ls : list (list A)) : list (list A) :=
  match ls with
  | [] => [[]]
  | l :: r => flat_map (fun x => map (cons x) (cart r)) l
  end.

Definition prodn (ds : list nat) : nat := fold_right Nat.mul 1 ds.

(* np.arange(size).reshape(shape)[mi] : the file index of the cell with multi-index mi *)
Fixpoint rank (dims mi : list nat) : nat :=
  match dims, mi with
  | _ :: ds, i :: is_ => i * prodn ds + rank ds is_
  | _, _ => 0
  end.

Fixpoint unrank (dims : list nat) (n : nat) : list nat :=
  match dims with
  | [] => []
  | _ :: ds => (n / prodn ds) :: unrank ds (n mod prodn ds)
  end.

(* mi is a multi-index of the array of shape dims *)
Fixpoint valid_index (dims mi : list nat) : Prop :=
  match dims, mi with
  | [], [] => True
  | d :: ds, i :: is_ => i < d /\ valid_index ds is_
  | _, _ => False
  end.

(* the value tuple addressed by a multi-index: (levels_k[mi_k])_k *)
Fixpoint pick {A} (levels : list (list A)) (mi : list nat) : option (list A) :=
  match levels, mi with
  | [], [] => Some []
  | l :: ls, i :: is_ =>
      match nth_error l i, pick ls is_ with
      | Some x, Some r => Some (x :: r)
      | _, _ => None
      end
  | _, _ => None
  end.

(* ------------------------------------------------------------------------- the three modes *)

(* --- product mode ---------------------------------------------------------------------------- *)
(* sequential path, ProductMode._product_parameters: (indices, values) in itertools.product order *)
Definition seq_product {A} (vs : list (list A)) : list (list nat * list A) :=
  combine (cart (map (fun l => seq 0 (length l)) vs)) (cart vs).

(* dask path, ProductMode.create_params, generic in the level normalisation `norm` of pandas:
   MultiIndex.from_product(values).to_xarray(): shape = level sizes, cell[mi] = (levels_k[mi_k])_k,
   flattened row-major.  A level with a repeated value makes to_xarray raise (None). *)
Definition dask_product_gen {A} (norm : list A -> list A) (ok : list A -> bool) (vs : list (list A))
  : option (list nat * list (list A)) :=
  if forallb ok vs then Some (map (@length A) vs, cart (map norm vs)) else None.

Definition dask_product := dask_product_gen sort_level nodupb.

(* --- sequential mode ------------------------------------------------------------------------- *)
Fixpoint set_nth {A} (k : nat) (v : A) (l : list A) : list A :=
  match l, k with
  | [], _ => []
  | _ :: r, O => v :: r
  | x :: r, S k' => x :: set_nth k' v r
  end.

(* sequential path, SequentialMode.get_parameters_item: for every parameter k, for every value v of
   it: {**defaults, key_k: v}; the run index counts on *)
Fixpoint seq_sequential_from {A} (k : nat) (defaults : list A) (vs : list (list A)) : list (list A) :=
  match vs with
  | [] => []
  | l :: r => map (fun v => set_nth k v defaults) l ++ seq_sequential_from (S k) defaults r
  end.
Definition seq_sequential {A} (defaults : list A) (vs : list (list A)) := seq_sequential_from 0 defaults vs.

(* dask path, SequentialMode.create_params: list(zip( *values )) -- Python's zip: truncates to the
   shortest list; every run sets ALL parameters *)
Fixpoint zipn {A} (ls : list (list A)) : list (list A) :=
  match ls with
  | [] => []
  | [l] => map (fun x => [x]) l
  | l :: r => map (fun p => fst p :: snd p) (combine l (zipn r))
  end.
Definition dask_sequential {A} (vs : list (list A)) : list (list A) := zipn vs.

(* --- custom mode ----------------------------------------------------------------------------- *)
(* values: "_"  |  ["_"] * w *)
Inductive cpar := CScalar | CVec (w : nat).
Definition width (p : cpar) : nat := match p with CScalar => 1 | CVec w => w end.

(* sequential path, CustomMode._custom_parameters: "_" -> row[i]; a list of w "_" -> row[i:i+w] *)
Fixpoint seq_custom_row (ps : list cpar) (row : list Z) : list pval :=
  match ps with
  | [] => []
  | CScalar :: r => PS (hd 0%Z row) :: seq_custom_row r (tl row)
  | CVec w :: r => PV (firstn w row) :: seq_custom_row r (skipn w row)
  end.

(* dask path, convert_custom_data: len(list(step)) == 1 -> the single column (a scalar); otherwise the
   tuple of the next len columns *)
Fixpoint dask_custom_row (ps : list cpar) (row : list Z) : list pval :=
  match ps with
  | [] => []
  | p :: r =>
      (if Nat.eqb (width p) 1 then PS (hd 0%Z row) else PV (firstn (width p) row))
        :: dask_custom_row r (skipn (width p) row)
  end.

Definition seq_custom (ps : list cpar) (table : list (list Z)) := map (seq_custom_row ps) table.
Definition dask_custom (ps : list cpar) (table : list (list Z)) := map (dask_custom_row ps) table.

(* --- all modes ------------------------------------------------------------------------------- *)
Inductive mode :=
| Product (vs : list (list pval))
| Sequential (defaults : list pval) (vs : list (list pval))
| Custom (ps : list cpar) (table : list (list Z)).

(* the parameter array of the parallel path: shape and cells (row-major); None = create_params raises *)
Definition dask_params (m : mode) : option (list nat * list (list pval)) :=
  match m with
  | Product vs => dask_product vs
  | Sequential _ vs => let r := dask_sequential vs in Some ([length r], r)
  | Custom ps t => let r := dask_custom ps t in Some ([length r], r)
  end.

(* the runs of the sequential path, in execution order *)
Definition seq_params (m : mode) : list (list pval) :=
  match m with
  | Product vs => map snd (seq_product vs)
  | Sequential d vs => seq_sequential d vs
  | Custom ps t => seq_custom ps t
  end.

(* ----------------------------------------------------- how the dask path is CODED (regenerated) *)
(* The rows below are regenerated from the source on every run by translator/c07.py (Gen_C07.v defines
   `src_cfg : dask_cfg`); the theorems are stated for every configuration that has the properties they need
   and are instantiated with the regenerated one. *)

(* SequentialMode.create_params: rows = zip( *values )  |  one parameter at a time with the defaults (the
   generator of the non-dask path, get_parameters_item) *)
Inductive seq_rows := SeqZip | SeqEnumerate.
(* ProductMode.create_params: levels = list(step)  |  list(dict.fromkeys(step)) *)
Inductive prod_levels := LevelsRaw | LevelsDedup.
(* convert_custom_data: a bare number when len(params) == 1 (params = list(step))  |  when params == "_"
   (params = step.values) *)
Inductive custom_test := ByLength | ByPlaceholder.
(* _run_pipelines_array_to_datatree: dict(zip(<mapping>, params_tuple))  |  values looked up by their own key *)
Inductive bind_kind := BindPosition | BindName.

Record dask_cfg := mkCfg {
  cfg_seq : seq_rows;
  cfg_prod : prod_levels;
  cfg_custom : custom_test;
  cfg_bind : bind_kind;
  cfg_same_mapping : bool;        (* the mapping zipped with the tuple is the dim_names handed to create_params *)
  cfg_names_keep_order : bool;    (* _get_short_dimension_names_new: one entry per key of `types`, in its order *)
  cfg_types_steps_order : bool;   (* Observation._get_parameter_types: keys inserted in enabled_steps order *)
  cfg_tuple_steps_order : bool    (* create_params (all modes): element k of a tuple belongs to enabled_steps[k] *)
}.

(* the code of the unchanged tree of round 1, and the code after the repairs of round 2 *)
Definition cfg_round1 : dask_cfg := mkCfg SeqZip LevelsRaw ByLength BindPosition true true true true.
Definition cfg_repaired : dask_cfg := mkCfg SeqEnumerate LevelsDedup ByPlaceholder BindPosition true true true true.

(* dict.fromkeys: first occurrences, in order *)
Fixpoint dedup (l : list pval) : list pval :=
  match l with
  | [] => []
  | x :: r => x :: filter (fun y => negb (pval_eqb x y)) (dedup r)
  end.

Definition dask_product_cfg (lv : prod_levels) (vs : list (list pval)) :=
  match lv with
  | LevelsRaw => dask_product vs
  | LevelsDedup => dask_product (map dedup vs)
  end.

Definition dask_sequential_cfg (sr : seq_rows) (defaults : list pval) (vs : list (list pval)) :=
  match sr with
  | SeqZip => dask_sequential vs
  | SeqEnumerate => seq_sequential defaults vs
  end.

Fixpoint dask_custom_row_cfg (ct : custom_test) (ps : list cpar) (row : list Z) : list pval :=
  match ps with
  | [] => []
  | p :: r =>
      (match ct, p with
       | ByLength, _ => if Nat.eqb (width p) 1 then PS (hd 0%Z row) else PV (firstn (width p) row)
       | ByPlaceholder, CScalar => PS (hd 0%Z row)
       | ByPlaceholder, CVec w => PV (firstn w row)
       end) :: dask_custom_row_cfg ct r (skipn (width p) row)
  end.

Definition dask_params_cfg (c : dask_cfg) (m : mode) : option (list nat * list (list pval)) :=
  match m with
  | Product vs => dask_product_cfg (cfg_prod c) vs
  | Sequential d vs => let r := dask_sequential_cfg (cfg_seq c) d vs in Some ([length r], r)
  | Custom ps t => let r := map (dask_custom_row_cfg (cfg_custom c) ps) t in Some ([length r], r)
  end.

(* ---- binding of the tuple's values to the parameter keys (keys = nat identifiers, steps order) ---- *)
Section Binding.
  Context {V : Type}.

  Fixpoint assoc (k : nat) (d : list (nat * V)) : option V :=
    match d with
    | [] => None
    | (k', v) :: r => if Nat.eqb k k' then Some v else assoc k r
    end.

  (* what the run receives for every parameter key (in steps order).  `zip_order` = iteration order of the
     mapping that is zipped with the tuple; `tuple_keys` = the key each tuple element was built for *)
  Definition received (b : bind_kind) (zip_order tuple_keys keys : list nat) (tuple : list V) : list (option V) :=
    match b with
    | BindPosition => map (fun k => assoc k (combine zip_order tuple)) keys
    | BindName => map (fun k => assoc k (combine tuple_keys tuple)) keys
    end.
End Binding.

Definition binding_ok (c : dask_cfg) : bool :=
  cfg_tuple_steps_order c
  && match cfg_bind c with
     | BindName => true
     | BindPosition => cfg_same_mapping c && cfg_names_keep_order c && cfg_types_steps_order c
     end.

(* the tasks of the parallel path: one per cell, slot = row-major position, input = what the run receives *)
Definition dask_tasks (b : bind_kind) (zip_order tuple_keys keys : list nat) (cells : list (list pval))
  : list (nat * list (option pval)) :=
  combine (seq 0 (length cells)) (map (received b zip_order tuple_keys keys) cells).

(* one key per parameter, one default / one declaration per parameter *)
Definition mode_wf (n : nat) (m : mode) : Prop :=
  match m with
  | Product vs => length vs = n
  | Sequential d vs => length d = n /\ length vs = n
  | Custom ps _ => length ps = n
  end.

(* ------------------------------------------------------------------- tasks, schedules, assembly *)
Section Tasks.
  Context {A B : Type}.
  Variable f : A -> B.            (* the run: a pure function of (copy of the processor, params) *)

  Definition task : Type := (nat * A)%type.      (* slot index, input *)

  Fixpoint upd (arr : list (option B)) (s : nat) (b : B) : list (option B) :=
    match arr, s with
    | [], _ => []
    | _ :: r, O => Some b :: r
    | x :: r, S s' => x :: upd r s' b
    end.

  Definition complete (arr : list (option B)) (t : task) : list (option B) := upd arr (fst t) (f (snd t)).

  (* `order` = the order in which the tasks happen to complete *)
  Definition assemble (n : nat) (order : list task) : list (option B) :=
    fold_left complete order (repeat None n).

  (* a WRONG assembly (what a mutation would do): results in completion order *)
  Definition assemble_by_completion (order : list task) : list (option B) :=
    map (fun t => Some (f (snd t))) order.

  (* islands: executor.map(create_island, seeds) -- task k = (k, seeds[k]), results read by position *)
  Definition island_tasks (seeds : list A) : list task := combine (seq 0 (length seeds)) seeds.
End Tasks.

(* the two results as label -> data maps.  The run is a function f of the values it receives for the keys
   (C06: it works on its own copy); the sequential path sets every key by name. *)
Definition seq_result {B} (f : list (option pval) -> B) (m : mode) : list (list pval * B) :=
  map (fun t => (t, f (map Some t))) (seq_params m).
Definition dask_result {B} (f : list (option pval) -> B) (cells : list (list pval))
           (completion : list (nat * list (option pval))) : list (list pval * option B) :=
  combine cells (assemble f (length cells) completion).


(* DaskBFE: decision vectors cut into chunks of c rows, each chunk evaluated by one task *)
Fixpoint chunks_fuel {A} (fuel c : nat) (l : list A) : list (list A) :=
  match fuel with
  | O => []
  | S fu => match l with [] => [] | _ => firstn c l :: chunks_fuel fu c (skipn c l) end
  end.
Definition chunks {A} (c : nat) (l : list A) := chunks_fuel (length l) c l.

(* ------------------------------------------------- threads sharing ONE generator (set_random_seed) *)
Inductive instr := ISave | ISeed (s : Z) | IDraw | IRestore.

(* with set_random_seed(s): n draws *)
Definition seeded (s : Z) (n : nat) : list instr := [ISave; ISeed s] ++ repeat IDraw n ++ [IRestore].

Section Rng.
  Variable G : Type.              (* generator state *)
  Variable seedf : Z -> G.        (* np.random.seed(s) *)
  Variable next : G -> G.         (* state after one draw *)
  Variable out : G -> Z.          (* the number drawn *)

  Record thread := mkT { prog : list instr; saved : option G; outs : list Z }.

  Definition exec1 (i : instr) (g : G) (t : thread) : G * thread :=
    match i with
    | ISave => (g, mkT (prog t) (Some g) (outs t))                       (* previous_state = get_state() *)
    | ISeed s => (seedf s, t)                                            (* np.random.seed(seed) *)
    | IDraw => (next g, mkT (prog t) (saved t) (outs t ++ [out g]))      (* np.random.xxx() *)
    | IRestore => (match saved t with Some p => p | None => g end, t)    (* set_state(previous_state) *)
    end.

  Definition step_thread (g : G) (t : thread) : G * thread :=
    match prog t with
    | [] => (g, t)
    | i :: r => exec1 i g (mkT r (saved t) (outs t))
    end.

  (* threads: ONE generator g shared by all; sched = which thread executes its next instruction *)
  Fixpoint run_shared (sched : list nat) (g : G) (ts : list thread) : G * list thread :=
    match sched with
    | [] => (g, ts)
    | k :: r =>
        match nth_error ts k with
        | None => run_shared r g ts
        | Some t => let gt := step_thread g t in run_shared r (fst gt) (set_nth k (snd gt) ts)
        end
    end.

  (* processes: every worker has its own generator *)
  Fixpoint run_procs (sched : list nat) (ps : list (G * thread)) : list (G * thread) :=
    match sched with
    | [] => ps
    | k :: r =>
        match nth_error ps k with
        | None => run_procs r ps
        | Some gt => run_procs r (set_nth k (step_thread (fst gt) (snd gt)) ps)
        end
    end.

  (* run one thread alone to completion *)
  Fixpoint finish_fuel (fuel : nat) (gt : G * thread) : G * thread :=
    match fuel with
    | O => gt
    | S fu => finish_fuel fu (step_thread (fst gt) (snd gt))
    end.
  Definition finish (gt : G * thread) := finish_fuel (length (prog (snd gt))) gt.

  Fixpoint draws_of (g : G) (n : nat) : list Z :=
    match n with O => [] | S n' => out g :: draws_of (next g) n' end.

  Definition start (sn : Z * nat) : thread := mkT (seeded (fst sn) (snd sn)) None [].
  Definition all_done (ts : list thread) : bool := forallb (fun t => match prog t with [] => true | _ => false end) ts.

  (* one worker: the threads run one after the other, each to completion, in the order `order` *)
  Definition serial_schedule (ts : list thread) (order : list nat) : list nat :=
    flat_map (fun k => match nth_error ts k with Some t => repeat k (length (prog t)) | None => [] end) order.
End Rng.

Arguments mkT {G}.
Arguments prog {G}.
Arguments saved {G}.
Arguments outs {G}.

(* a toy generator for the witnesses: linear congruential, state = output *)
Definition lcg_seed (s : Z) : Z := (s mod 65536)%Z.
Definition lcg_next (g : Z) : Z := ((75 * g + 74) mod 65537)%Z.
Definition lcg_out (g : Z) : Z := g.


(* ------------------------------------- what a worker receives: deep copy vs. pickle round trip (round 2b) *)
(* Under the synchronous and the threaded scheduler a task receives the caller's processor itself and works on
   `processor.replace(..)` = a deep copy.  Under a process pool dask serialises every task with cloudpickle: the
   worker works on a deep copy of what a PICKLE ROUND TRIP of the processor restores.  Classes without pickle hooks
   are restored attribute by attribute (`__dict__`; trusted: Python's default pickling); a class WITH hooks
   (__getstate__ / __setstate__) is restored as its hooks say.  translator/c07.py regenerates one row per hooked
   class under pyxel/{pipelines,detectors,data_structure,outputs,exposure}: for every attribute `__init__` sets,
   how it comes back. *)

(* the constructor arguments of a model function (pyxel/pipelines/model_function.py: ModelFunction.__init__) *)
Inductive mfield := FFunc | FName | FArgs | FEnabled.

Definition mfield_eqb (a b : mfield) : bool :=
  match a, b with
  | FFunc, FFunc | FName, FName | FArgs, FArgs | FEnabled, FEnabled => true
  | _, _ => false
  end.
Definition has_field (f : mfield) (l : list mfield) : bool := existsb (mfield_eqb f) l.

Inductive attr_restore :=
| AWhole                          (* __setstate__ stores what __getstate__ took from this attribute (as is, or through
                                     list() / tuple() / dict()): the value pickles by default, element by element *)
| ARecreated                      (* __setstate__ sets it to the same state-independent expression __init__ uses *)
| ARebuilt (kept : list mfield)   (* a sequence of model functions rebuilt THROUGH THEIR CONSTRUCTOR from a definition
                                     that holds only the listed arguments; the others take their defaults *)
| AMissing.                       (* not restored at all: the unpickled object lacks the attribute *)

(* hk_deepcopy: the class has a __deepcopy__ of its own.  Without one, copy.deepcopy goes through the SAME hooks
   (__reduce_ex__), so every deep copy -- the sequential path and the threaded schedulers included -- is restored by
   them too; with one, only pickling is *)
Record hook_row := mkHook { hk_class : string; hk_deepcopy : bool; hk_attrs : list (string * attr_restore) }.

(* a model function as far as one run can tell: which probe instance it is (an ARGUMENT of the model: the default is
   instance 0) and whether it is switched on *)
Record minst := mkMI { mi_ident : Z; mi_enabled : bool }.

(* ModelGroup.__iter__ / run: the enabled models, in order *)
Definition executed (ms : list minst) : list Z := map mi_ident (filter mi_enabled ms).

(* the constructor called with the keywords of a definition that holds only `kept`: func and name have no default (TypeError),
   arguments default to none (the probe then is instance 0), enabled defaults to True *)
Definition rebuild (kept : list mfield) (m : minst) : option minst :=
  if has_field FFunc kept && has_field FName kept
  then Some (mkMI (if has_field FArgs kept then mi_ident m else 0%Z) (if has_field FEnabled kept then mi_enabled m else true))
  else None.

Fixpoint rebuild_all (kept : list mfield) (ms : list minst) : option (list minst) :=
  match ms with
  | [] => Some []
  | m :: r => match rebuild kept m, rebuild_all kept r with
              | Some m', Some r' => Some (m' :: r')
              | _, _ => None
              end
  end.

Definition restore_models (r : attr_restore) (ms : list minst) : option (list minst) :=
  match r with
  | AWhole => Some ms
  | ARebuilt kept => rebuild_all kept ms
  | ARecreated | AMissing => None
  end.

Definition attr_survives (r : attr_restore) : bool := match r with AMissing => false | _ => true end.
Definition attr_faithful (r : attr_restore) : bool :=
  match r with
  | AWhole | ARecreated => true
  | ARebuilt kept => has_field FFunc kept && has_field FName kept && has_field FArgs kept && has_field FEnabled kept
  | AMissing => false
  end.

(* the models of a group must come back THEMSELVES (a constant would not do) *)
Definition models_faithful (r : attr_restore) : bool :=
  match r with AWhole => true | ARebuilt _ => attr_faithful r | _ => false end.

Fixpoint lookup_attr (a : string) (l : list (string * attr_restore)) : option attr_restore :=
  match l with
  | [] => None
  | (a', r) :: t => if String.eqb a a' then Some r else lookup_attr a t
  end.

(* how the `models` of a ModelGroup come back (no row for the class = no hooks = default pickling) *)
Fixpoint models_restore (hooks : list hook_row) : attr_restore :=
  match hooks with
  | [] => AWhole
  | h :: t => if String.eqb (hk_class h) "ModelGroup"%string
              then match lookup_attr "models"%string (hk_attrs h) with Some r => r | None => AMissing end
              else models_restore t
  end.

Definition hooks_survive (hooks : list hook_row) : bool :=
  forallb (fun h => forallb (fun ar => attr_survives (snd ar)) (hk_attrs h)) hooks.

(* every attribute of a hooked class comes back as it was, the models of a group included *)
Definition row_faithful (h : hook_row) : bool :=
  forallb (fun ar => attr_faithful (snd ar)) (hk_attrs h)
  && (if String.eqb (hk_class h) "ModelGroup"%string
      then models_faithful (match lookup_attr "models"%string (hk_attrs h) with Some r => r | None => AMissing end)
      else true).
Definition hooks_faithful (hooks : list hook_row) : bool := forallb row_faithful hooks.

(* the hooks a transport goes through: pickling -- all of them; a deep copy -- those of the classes without a
   __deepcopy__ of their own *)
Definition hooks_applied (hooks : list hook_row) (pickled : bool) : list hook_row :=
  if pickled then hooks else filter (fun h => negb (hk_deepcopy h)) hooks.

(* the models of the pipeline a run works on.  pickled = the task went through dask's process-pool serialisation (or
   the caller's objects went through pickle before); otherwise the run works on a deep copy (sequential path,
   synchronous and threaded schedulers).  None = an object lacks an attribute / a constructor refuses: the run raises *)
Definition worker_models (hooks : list hook_row) (pickled : bool) (ms : list minst) : option (list minst) :=
  let hs := hooks_applied hooks pickled in
  if hooks_survive hs then restore_models (models_restore hs) ms else None.

(* an object as an attribute store, and what a hook-driven round trip keeps of it *)
Definition unpickle_obj {V} (restored : list string) (o : list (string * V)) : list (string * V) :=
  filter (fun av => existsb (String.eqb (fst av)) restored) o.

(* ----------------------------------------------------------------- correspondence case records *)

(* one entry of a result: the parameter label it sits under, the parameter values the run that
   produced the data actually received (decoded from the pixel bucket), and how many earlier runs
   had left a trace on the objects this run worked on (must be 0: every run works on its own copy) *)
Record cell := mkCell { c_label : list pval; c_data : list pval; c_mem : Z }.

Definition cell_eqb (a b : cell) : bool :=
  params_eqb (c_label a) (c_label b) && params_eqb (c_data a) (c_data b) && Z.eqb (c_mem a) (c_mem b).

Definition cell_in (a : cell) (l : list cell) : bool := existsb (cell_eqb a) l.
Definition same_cells (a b : list cell) : bool :=
  forallb (fun x => cell_in x b) a && forallb (fun x => cell_in x a) b.

Record par_case := mkCase {
  pc_mode : mode;
  pc_model : bool;                                  (* false: the data is not predicted by the model (random draws) *)
  pc_seq : option (list cell);                      (* with_dask=False; None = raised *)
  pc_dask : option (list nat * list cell);          (* with_dask=True: shape, cells row-major; None = raised *)
  pc_files : option (list (nat * list pval));       (* outputs enabled: (file index, params decoded from the file) *)
  pc_pipe : option (list minst * bool * option (list Z))
                                                    (* the probe instances of the pipeline in execution order (ident,
                                                       enabled), whether the tasks went through pickle, and the settings
                                                       of the caller's detector; then every entry's data ends with the
                                                       list of instances that EXECUTED [and the settings the run SAW] *)
}.

Definition model_cell (p : list pval) : cell := mkCell p p 0.
(* with an execution trace: the data ends with the idents of the models that ran, in order *)
Definition model_cell_x (tr : option (list Z * option (list Z))) (p : list pval) : cell :=
  match tr with
  | None => model_cell p
  | Some (e, None) => mkCell p (p ++ [PV e]) 0
  | Some (e, Some st) => mkCell p (p ++ [PV e; PV st]) 0
  end.

Definition nat_list_eqb := list_eqb Nat.eqb.

(* model vs implementation *)
Definition case_mismatch (c : par_case) : bool :=
  if negb (pc_model c) then false else
  negb
    (match dask_params (pc_mode c), pc_dask c with
     | None, None => true
     | Some (sh, cells), Some (sh', cells') =>
         nat_list_eqb sh sh' && list_eqb cell_eqb (map model_cell cells) cells'
     | _, _ => false
     end
     &&
     match pc_seq c with
     | None => true      (* the sequential path's refusals are C05's subject *)
     | Some cs => same_cells (map model_cell (seq_params (pc_mode c))) cs
     end).

(* files correspond one-to-one to the cells: indices are exactly 0..n-1 and file k holds the data of
   the cell whose row-major rank is k *)
Fixpoint files_ok_from (k : nat) (cells : list cell) (fs : list (nat * list pval)) : bool :=
  match cells, fs with
  | [], [] => true
  | c :: cr, (i, d) :: fr => Nat.eqb i k && params_eqb d (c_data c) && files_ok_from (S k) cr fr
  | _, _ => false
  end.

(* the SPECIFICATION (right-hand side of the property): the parallel result carries, under every
   parameter label, the same data as the sequential result -- nothing missing, nothing extra,
   nothing refused that the sequential path accepts; files one-to-one *)
Definition case_violates (c : par_case) : bool :=
  match pc_seq c, pc_dask c with
  | None, _ => false       (* the sequential path refuses the space: nothing to compare with (C05's subject) *)
  | Some _, None => true
  | Some sc, Some (_, dc) =>
      negb (same_cells sc dc)
      || match pc_files c with None => false | Some fs => negb (files_ok_from 0 dc fs) end
  end.

(* the traces the model predicts: of the sequential path (the caller's pipeline) and of the parallel path (what the
   worker receives); None in the second component = the run on the worker's copy raises *)
Definition trace_of (hooks : list hook_row) (pk : bool) (c : par_case) : option (option (list Z * option (list Z))) :=
  match pc_pipe c with
  | None => Some None
  | Some (ms, _, st) =>
      match worker_models hooks pk ms with None => None | Some ms' => Some (Some (executed ms', st)) end
  end.
(* the sequential path works on deep copies; the parallel path on deep copies of what the worker receives.  The
   detector classes have no hook: when every hooked class survives, the run sees the caller's settings *)
Definition seq_trace (hooks : list hook_row) (c : par_case) := trace_of hooks false c.
Definition dask_trace (hooks : list hook_row) (c : par_case) :=
  trace_of hooks (match pc_pipe c with Some (_, pk, _) => pk | None => false end) c.

Definition case_mismatch_cfg (cf : dask_cfg) (hooks : list hook_row) (c : par_case) : bool :=
  if negb (pc_model c) then false else
  negb
    (match dask_params_cfg cf (pc_mode c), dask_trace hooks c, pc_dask c with
     | None, _, None => true
     | Some _, None, None => true
     | Some (sh, cells), Some tr, Some (sh', cells') =>
         nat_list_eqb sh sh' && list_eqb cell_eqb (map (model_cell_x tr) cells) cells'
     | _, _, _ => false
     end
     &&
     match pc_seq c, seq_trace hooks c with
     | None, _ => true
     | Some cs, Some tr => same_cells (map (model_cell_x tr) (seq_params (pc_mode c))) cs
     | Some _, None => false
     end).

Fixpoint indices_where {A} (p : A -> bool) (l : list A) (k : Z) : list Z :=
  match l with
  | [] => []
  | x :: r => if p x then k :: indices_where p r (k + 1)%Z else indices_where p r (k + 1)%Z
  end.

Definition mismatches (cs : list par_case) : list Z := indices_where case_mismatch cs 0%Z.
Definition violations (cs : list par_case) : list Z := indices_where case_violates cs 0%Z.
Definition mismatches_cfg (cf : dask_cfg) (hooks : list hook_row) (cs : list par_case) : list Z :=
  indices_where (case_mismatch_cfg cf hooks) cs 0%Z.
